#!/bin/bash
# Build the Coq development from scratch (full .vo build, never -vos).
set -e
mkdir -p /verif/work /verif/replays /verif/evidence
cd /verif/coq
rm -f Makefile Makefile.conf .Makefile.d
find . -name '*.vo' -o -name '*.vok' -o -name '*.vos' -o -name '*.glob' -o -name '.*.aux' | xargs rm -f
coq_makefile -f _CoqProject -o Makefile > /dev/null
timeout 3000 make -j16 > /verif/work/build.log 2>&1 || { tail -50 /verif/work/build.log; exit 1; }
echo "coq build ok: $(find . -name '*.vo' | wc -l) files"
