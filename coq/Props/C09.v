(* C09 - clipped datasets stay valid: connectivity refers to surviving elements, kept cells keep their polygon. *)
From Coq Require Import ZArith List Bool Sorted.
From EV Require Import Base.Index Base.ListX Model.Mask Model.UMask Model.Export Model.Clip Model.Fill Proofs.ClipP Proofs.FillP.
From EV Require Import Model.GeomNames Proofs.GeomNamesP Model.AttrMerge Proofs.AttrMergeP.
Import ListNotations.
Open Scope Z_scope.

(* every reference in an updated connectivity table is a surviving element under the new numbering (or fill) *)
Theorem C09_refs_survive : forall row_tab col_tab old count,
  (forall x y, nth x col_tab None = Some y -> 0 <= y < count) ->
  forall r e, In r (update_conn row_tab col_tab old) -> In (Some e) r -> 0 <= e < count.
Proof. exact update_conn_refs. Qed.
Print Assumptions C09_refs_survive.

(* its rows are the rows of the kept elements in order, entry by entry renumbered *)
Theorem C09_table_rows : forall row_tab col_tab old, length old = length row_tab ->
  update_conn row_tab col_tab old = map (fun n => map (map_entry col_tab) (nth (Z.to_nat n) old [])) (kept_of row_tab).
Proof. exact update_conn_rows. Qed.
Print Assumptions C09_table_rows.

(* a kept node, renumbered, still has its coordinates: each selected face has exactly its original polygon *)
Theorem C09_node_coordinates_preserved : forall (C : Type) (d : C) (coords : list C) (kept : list Z) n,
  StronglySorted Z.lt kept -> In n kept ->
  exists p, position_in n kept = Some p /\
            nth_error (map (fun x => nth (Z.to_nat x) coords d) kept) (Z.to_nat p) = Some (nth (Z.to_nat n) coords d).
Proof. exact @node_coordinates_preserved. Qed.
Print Assumptions C09_node_coordinates_preserved.

Theorem C09_polygon_preserved : forall (C : Type) (d : C) (coords : list C) (kept : list Z) (face : list Z),
  StronglySorted Z.lt kept -> (forall n, In n face -> In n kept) ->
  let new_coords := map (fun x => nth (Z.to_nat x) coords d) kept in
  map (fun n => match position_in n kept with Some p => nth (Z.to_nat p) new_coords d | None => d end) face =
  map (fun n => nth (Z.to_nat n) coords d) face.
Proof. exact @face_polygon_preserved. Qed.
Print Assumptions C09_polygon_preserved.

(* a dropped element gets no new index: no polygon appears that the original did not have *)
Theorem C09_no_new_polygon : forall kept x, ~ In x kept -> position_in x kept = None.
Proof. exact dropped_has_no_index. Qed.
Print Assumptions C09_no_new_polygon.

(* on grids a selected cell's stored geometry is carried by C08: cropped coordinates keep their values at the shifted index *)
Theorem C09_grid_geometry_shift : forall k b j i, m (crop k b) j i = m k (j + lo_j b) (i + lo_i b).
Proof. exact crop_shift. Qed.
Print Assumptions C09_grid_geometry_shift.

(* the value that stands for "no element" in a clipped table fits the table's stored integer type ... *)
Theorem C09_fill_fits_stored_type : forall lo hi f, lo <= 0 -> lo <= hi -> 0 <= f -> lo <= capped_fill lo hi f <= hi.
Proof. exact capped_fill_fits. Qed.
Print Assumptions C09_fill_fits_stored_type.

(* ... and in a signed type it is never the number of a surviving element, however full the table: every entry written is
   read back as the element it names, every missing entry as missing *)
Theorem C09_entries_survive_signed : forall lo hi f count si e, lo < 0 -> 0 <= si <= 1 -> count + 1 < f ->
  (forall k, e = Some k -> 0 <= k < count) ->
  read_entry si (capped_fill lo hi f) (new_entry si (capped_fill lo hi f) e) = e.
Proof. exact entry_round_trip_signed. Qed.
Print Assumptions C09_entries_survive_signed.

(* in an unsigned type the same holds while the type has a value beyond the largest element number *)
Theorem C09_entries_survive_unsigned : forall hi f count si e, 0 <= si <= 1 -> count + 1 < f -> count + si <= hi ->
  (forall k, e = Some k -> 0 <= k < count) ->
  read_entry si (capped_fill 0 hi f) (new_entry si (capped_fill 0 hi f) e) = e.
Proof. exact entry_round_trip_unsigned. Qed.
Print Assumptions C09_entries_survive_unsigned.

(* the choice made before the repair 524840a (always the largest value of the type) lost an entry of a full table *)
Theorem C09_old_fill_refuted : exists hi f count si k, 0 <= k < count /\ count + 1 < f /\
    read_entry si (capped_fill_old hi f) (new_entry si (capped_fill_old hi f) (Some k)) = None.
Proof. exact old_fill_full_table_refuted. Qed.
Print Assumptions C09_old_fill_refuted.

(* ---- keeping only some data variables leaves the geometry as it was ---- *)

(* the subset holds exactly the variables asked for and the geometry, depth and time variables, in dataset order; every
   geometry variable of the dataset survives; a request for a variable the dataset does not have is refused *)
Theorem C09_select_variables_spec : forall vars chosen geom depth time,
  (forall out, select_variables vars chosen geom depth time = Some out ->
     (forall v, In v out <-> In v vars /\ (In v chosen \/ In v geom \/ In v depth \/ time = Some v)) /\
     out = filter (fun v => GeomNames.memz v (keep_set chosen geom depth time)) vars /\
     (forall g, In g geom -> In g vars -> In g out)) /\
  (select_variables vars chosen geom depth time = None <-> exists c, In c chosen /\ ~ In c vars).
Proof.
  intros vars chosen geom depth time. split; [|apply select_refused].
  intros out H. destruct (select_spec _ _ _ _ _ _ H) as [H1 H2]. split; [exact H1|split; [exact H2|]].
  intros g Hg Hv. now apply (select_keeps_geometry _ _ _ _ _ _ g H).
Qed.
Print Assumptions C09_select_variables_spec.

(* the geometry variables of the subset of a CF grid are those of the dataset (no bounds variable lost or gained), so its
   polygons are built from the same variables *)
Theorem C09_subset_has_the_same_geometry_variables : forall lon lat lb ltb vars chosen depth time out,
  select_variables vars chosen (grid_names lon lat lb ltb vars) depth time = Some out ->
  grid_names lon lat lb ltb out = grid_names lon lat lb ltb vars.
Proof. exact grid_names_of_subset. Qed.
Print Assumptions C09_subset_has_the_same_geometry_variables.

(* asking again for the same subset changes nothing; dropping the geometry removes exactly the geometry variables *)
Theorem C09_select_idempotent_drop_exact : forall vars chosen geom depth time out,
  select_variables vars chosen geom depth time = Some out ->
  select_variables out chosen geom depth time = Some out /\
  (forall v, In v (drop_geometry out geom) <-> In v out /\ ~ In v geom).
Proof. intros. split; [now apply select_idempotent with vars|intros v; apply drop_geometry_spec]. Qed.
Print Assumptions C09_select_idempotent_drop_exact.

(* a mesh: the four required variables are always geometry, the optional ones exactly when the topology holds them *)
Theorem C09_mesh_geometry_variables : forall m,
  (In (m_var m) (ugrid_names m) /\ In (m_face_node m) (ugrid_names m) /\ In (m_node_x m) (ugrid_names m) /\ In (m_node_y m) (ugrid_names m)) /\
  (forall x, In x (ugrid_names m) <->
     x = m_var m \/ x = m_face_node m \/ x = m_node_x m \/ x = m_node_y m \/ m_face_edge m = Some x \/ m_face_face m = Some x
     \/ m_edge_node m = Some x \/ m_edge_face m = Some x \/ m_edge_x m = Some x \/ m_edge_y m = Some x \/ m_face_x m = Some x
     \/ m_face_y m = Some x).
Proof. intros m. split; [apply ugrid_names_required|apply ugrid_names_optional]. Qed.
Print Assumptions C09_mesh_geometry_variables.

(* ---- the reassembled clipped dataset can be written ---- *)

(* no name ends up both as an attribute and as an encoding entry of a variable, whenever the source and the reassembled
   variable were each writable and the reassembled variable has no attribute whose name the source holds in its encoding *)
Theorem C09_result_can_be_saved : forall s_attrs s_enc n_attrs n_enc,
  consistent s_attrs s_enc = true -> consistent n_attrs n_enc = true -> consistent n_attrs s_enc = true ->
  let r := like_var s_attrs s_enc n_attrs n_enc in consistent (fst r) (snd r) = true.
Proof. exact result_saveable. Qed.
Print Assumptions C09_result_can_be_saved.

(* the code before d4bc755 (every source attribute restored) did not have that property *)
Theorem C09_old_dataset_like_refuted : exists s_attrs s_enc n_attrs n_enc,
  consistent s_attrs s_enc = true /\ consistent n_attrs n_enc = true /\ consistent n_attrs s_enc = true /\
  (let r := like_var_old s_attrs s_enc n_attrs n_enc in consistent (fst r) (snd r) = false) /\
  (let r := like_var s_attrs s_enc n_attrs n_enc in consistent (fst r) (snd r) = true).
Proof. exact old_not_saveable. Qed.
Print Assumptions C09_old_dataset_like_refuted.
