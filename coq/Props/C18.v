(* C18 - transects: pieces listed in path order with start never after end; data paired with its own cell. *)
From Coq Require Import ZArith QArith List Bool Sorted Permutation.
From EV Require Import Model.Transect Proofs.TransectP Model.TransectDist Proofs.TransectDistP.
Import ListNotations.
Open Scope Q_scope.

Theorem C18_start_le_end : forall ps s, In s (segments ps) -> s_start s <= s_end s.
Proof. exact segments_ordered. Qed.
Print Assumptions C18_start_le_end.

(* listed by increasing distance from the start (then by end) *)
Theorem C18_sorted : forall ps, StronglySorted seg_lex (segments ps).
Proof. exact segments_sorted. Qed.
Print Assumptions C18_sorted.

(* no piece is lost, duplicated or invented by the ordering *)
Theorem C18_pieces_preserved : forall ps, Permutation (map mk_segment ps) (segments ps).
Proof. exact segments_perm. Qed.
Print Assumptions C18_pieces_preserved.

Theorem C18_names_its_cell : forall ps s, In s (segments ps) -> exists p, In p ps /\ s_cell s = cell p.
Proof. exact segments_cells. Qed.
Print Assumptions C18_names_its_cell.

(* lengths add up: contiguous pieces telescope *)
Theorem C18_telescoping : forall a l, contiguous (a :: l) -> total_length (a :: l) == s_end (last l a) - s_start a.
Proof. exact telescoping. Qed.
Print Assumptions C18_telescoping.

(* the data prepared for plotting: column k is the column of piece k's cell (at every depth) *)
Theorem C18_data_pairing : forall (A : Type) (d : A) columns lin k n,
  nth_error lin k = Some n -> nth_error (prepare d columns lin) k = Some (nth (Z.to_nat n) columns d).
Proof. exact @prepare_pairing. Qed.
Print Assumptions C18_data_pairing.

Theorem C18_data_length : forall (A : Type) (d : A) columns lin, length (prepare d columns lin) = length lin.
Proof. exact @prepare_length. Qed.
Print Assumptions C18_data_length.

(* ---- distances along the path (Transect.points, distance_along_line) ---- *)

(* a point is measured from a vertex at or before it, and every later vertex lies beyond the point *)
Theorem C18_measured_from_last_vertex_before : forall vs t v, pick vs t = Some v ->
  exists pre post, vs = pre ++ v :: post /\ norm v <= t /\ Forall (fun w => ~ norm w <= t) post.
Proof. exact pick_spec. Qed.
Print Assumptions C18_measured_from_last_vertex_before.

(* with vertices in increasing position: the vertices at or before the point are exactly those up to the picked one *)
Theorem C18_picked_vertex_starts_the_leg : forall vs t v, StronglySorted norm_lt vs -> pick vs t = Some v ->
  forall w, In w vs -> (norm w <= t <-> norm w <= norm v).
Proof. exact pick_is_last_before. Qed.
Print Assumptions C18_picked_vertex_starts_the_leg.

(* every point at or after the first vertex is measured from some vertex *)
Theorem C18_every_point_measured : forall v0 vs t, norm v0 <= t -> pick (v0 :: vs) t <> None.
Proof. exact pick_first_vertex. Qed.
Print Assumptions C18_every_point_measured.

(* accumulated distances never decrease along the path (legs have non-negative length) ... *)
Theorem C18_accumulated_monotone : forall legs c d i j, Forall (fun l => 0 <= l) legs -> (i <= j)%nat -> (j <= length legs)%nat ->
  nth i (accumulate c legs) d <= nth j (accumulate c legs) d.
Proof. exact accumulate_mono. Qed.
Print Assumptions C18_accumulated_monotone.

(* ... so order along the path is order of the reported distance: a point on leg i (no further from vertex i than the
   leg is long) is reported no later than any point measured from a later vertex *)
Theorem C18_path_order_is_distance_order : forall legs d i j di dj,
  Forall (fun l => 0 <= l) legs -> (i < j)%nat -> (j <= length legs)%nat ->
  di <= nth i legs 0 -> 0 <= dj ->
  nth i (accumulate 0 legs) d + di <= nth j (accumulate 0 legs) d + dj.
Proof. exact earlier_leg_smaller_distance. Qed.
Print Assumptions C18_path_order_is_distance_order.
