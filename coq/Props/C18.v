(* C18 - transects: pieces listed in path order with start never after end; data paired with its own cell. *)
From Coq Require Import ZArith QArith List Bool Sorted Permutation.
From EV Require Import Model.Transect Proofs.TransectP.
Import ListNotations.
Open Scope Q_scope.

Theorem C18_start_le_end : forall ps s, In s (segments ps) -> s_start s <= s_end s.
Proof. exact segments_ordered. Qed.
Print Assumptions C18_start_le_end.

(* listed by increasing distance from the start (then by end) *)
Theorem C18_sorted : forall ps, StronglySorted seg_lex (segments ps).
Proof. exact segments_sorted. Qed.
Print Assumptions C18_sorted.

(* no piece is lost, duplicated or invented by the ordering *)
Theorem C18_pieces_preserved : forall ps, Permutation (map mk_segment ps) (segments ps).
Proof. exact segments_perm. Qed.
Print Assumptions C18_pieces_preserved.

Theorem C18_names_its_cell : forall ps s, In s (segments ps) -> exists p, In p ps /\ s_cell s = cell p.
Proof. exact segments_cells. Qed.
Print Assumptions C18_names_its_cell.

(* lengths add up: contiguous pieces telescope *)
Theorem C18_telescoping : forall a l, contiguous (a :: l) -> total_length (a :: l) == s_end (last l a) - s_start a.
Proof. exact telescoping. Qed.
Print Assumptions C18_telescoping.

(* the data prepared for plotting: column k is the column of piece k's cell (at every depth) *)
Theorem C18_data_pairing : forall (A : Type) (d : A) columns lin k n,
  nth_error lin k = Some n -> nth_error (prepare d columns lin) k = Some (nth (Z.to_nat n) columns d).
Proof. exact @prepare_pairing. Qed.
Print Assumptions C18_data_pairing.

Theorem C18_data_length : forall (A : Type) (d : A) columns lin, length (prepare d columns lin) = length lin.
Proof. exact @prepare_length. Qed.
Print Assumptions C18_data_length.
