(* C08 - clipping keeps every selected value and blanks everything else. *)
From Coq Require Import ZArith List Bool Sorted.
From EV Require Import Base.Index Base.ListX Model.Mask Model.UMask Model.Export Model.Clip Proofs.ClipP.
From EV Require Import Model.AttrMerge Proofs.AttrMergeP.
Import ListNotations.
Open Scope Z_scope.

(* grids: the crop box contains every selected cell and is tight on all four sides *)
Theorem C08_crop_box : forall k b, 0 <= nj k -> 0 <= ni k -> bounds k = Some b ->
  (forall j i, inr k j i = true -> m k j i = true -> lo_j b <= j < hi_j b /\ lo_i b <= i < hi_i b) /\
  0 <= lo_j b < hi_j b /\ hi_j b <= nj k /\ 0 <= lo_i b < hi_i b /\ hi_i b <= ni k /\
  row_any k (lo_j b) = true /\ row_any k (hi_j b - 1) = true /\ col_any k (lo_i b) = true /\ col_any k (hi_i b - 1) = true.
Proof. exact bounds_spec. Qed.
Print Assumptions C08_crop_box.

(* every selected cell is still present with its value, for every variable and every other index (time, depth) *)
Theorem C08_selected_kept : forall (E A : Type) k b (fill : option A) (v : E -> Z -> Z -> A) e j i,
  0 <= nj k -> 0 <= ni k -> bounds k = Some b -> inr k j i = true -> m k j i = true ->
  inr (crop k b) (j - lo_j b) (i - lo_i b) = true /\ clip_var k b fill v e (j - lo_j b) (i - lo_i b) = v e j i.
Proof. exact @selected_kept. Qed.
Print Assumptions C08_selected_kept.

(* every remaining cell that was not selected holds the missing value *)
Theorem C08_unselected_blank : forall (E A : Type) k b (f : A) (v : E -> Z -> Z -> A) e j i,
  m k (j + lo_j b) (i + lo_i b) = false -> clip_var k b (Some f) v e j i = f.
Proof. exact @unselected_blank. Qed.
Print Assumptions C08_unselected_blank.

(* a variable that cannot hold a missing value is cropped but never altered *)
Theorem C08_unmaskable_cropped : forall (E A : Type) k b (v : E -> Z -> Z -> A) e j i,
  clip_var k b None v e j i = v e (j + lo_j b) (i + lo_i b).
Proof. exact @unmaskable_cropped. Qed.
Print Assumptions C08_unmaskable_cropped.

Theorem C08_which_fill : forall a b c d, find_fill a b c d = FNone <-> a = false /\ b = None /\ c = None /\ d = false.
Proof. exact find_fill_none. Qed.
Print Assumptions C08_which_fill.

(* meshes: row k of a clipped variable is the row of the k-th kept element, in the original relative order *)
Theorem C08_rows_kept : forall (A : Type) (d : A) (tab : list (option Z)) (rows : list A),
  length rows = length tab -> select_rows tab rows = map (fun n => nth (Z.to_nat n) rows d) (kept_of tab).
Proof. exact @select_rows_spec. Qed.
Print Assumptions C08_rows_kept.

Theorem C08_kept_order : forall tab, StronglySorted Z.lt (kept_of tab).
Proof. exact kept_sorted. Qed.
Print Assumptions C08_kept_order.

Theorem C08_kept_exactly : forall tab n, In n (kept_of tab) <-> 0 <= n /\ exists x, nth_error tab (Z.to_nat n) = Some (Some x).
Proof. exact kept_spec. Qed.
Print Assumptions C08_kept_exactly.

(* ---- attributes pass through the reassembly of the clipped dataset (utils.dataset_like) ---- *)

(* an attribute of the source variable is on the clipped variable with the same value, unless the reassembled variable brought
   its own value for it or holds that name in its encoding; what the reassembled variable has is never overwritten *)
Theorem C08_attributes_pass_through : forall s_attrs s_enc n_attrs n_enc k v,
  (get k s_attrs = Some v -> has k n_enc = false -> get k n_attrs = None ->
   get k (fst (like_var s_attrs s_enc n_attrs n_enc)) = Some v) /\
  (get k n_attrs = Some v -> get k (fst (like_var s_attrs s_enc n_attrs n_enc)) = Some v) /\
  (get k n_enc = Some v -> get k (snd (like_var s_attrs s_enc n_attrs n_enc)) = Some v).
Proof.
  intros. split; [now apply attributes_pass|]. apply new_values_win.
Qed.
Print Assumptions C08_attributes_pass_through.

(* a lookup in a dict merged without clobbering: the destination's entry if it has one, else the source's *)
Theorem C08_update_no_clobber : forall k s d,
  get k (update_no_clobber s d) = match get k d with Some v => Some v | None => get k s end.
Proof. exact get_update. Qed.
Print Assumptions C08_update_no_clobber.
