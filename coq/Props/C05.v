(* C05 - index and point selection return the stored values, complete and in order. *)
From Coq Require Import ZArith List Bool Sorted.
From EV Require Import Base.Index Base.LArr Base.ListX Model.Select Proofs.SelectP.
Import ListNotations.
Open Scope Z_scope.

(* the value in row k (under any labels of the other dimensions) is the value stored at the k-th requested index *)
Theorem C05_values : forall (A : Type) G idxs nd (a : larr A) env',
  get (isel_points G idxs nd a) env' =
  get a (fun d => if mem d G then nth (index_of d G) (nth (Z.to_nat (env' nd)) idxs []) 0 else env' d).
Proof. exact @isel_points_get. Qed.
Print Assumptions C05_values.

(* variables kept: exactly those on the selected grid and not geometry, in dataset order *)
Theorem C05_kept_vars : forall (A : Type) geom G shape kinds_of rows nd (ds out : @dataset A),
  select_indexes geom G shape kinds_of rows nd ds = Some out ->
  rows <> [] /\ all_same kinds_of = true /\ rows_in_range shape rows = true /\
  map fst out = map fst (filter (fun nv => negb (mem (fst nv) geom) && uses_any G (snd nv)) ds) /\
  forall n v', In (n, v') out ->
    exists v, In (n, v) ds /\ ~ In n geom /\ uses_any G v = true /\ v' = isel_points G rows nd v.
Proof. exact @select_indexes_vars. Qed.
Print Assumptions C05_kept_vars.

(* 'error' names exactly the missing points *)
Theorem C05_error_names_misses : forall (I : Type) (found : list (option I)),
  match extract PError found with
  | ONonIntersecting ms => ms = miss_positions found /\ ms <> []
  | ONoIndex => found = []
  | ORows labels sel => miss_positions found = [] /\ labels = hit_positions found /\
                        sel = map Some (hit_values found) /\ found <> []
  end.
Proof. exact @extract_error. Qed.
Print Assumptions C05_error_names_misses.

Theorem C05_miss_positions : forall (I : Type) (found : list (option I)) k,
  In k (miss_positions found) <-> 0 <= k /\ nth_error found (Z.to_nat k) = Some None.
Proof. exact @miss_spec. Qed.
Print Assumptions C05_miss_positions.

(* 'drop' removes exactly the misses; rows are the hits in request order, labelled with their positions *)
Theorem C05_drop : forall (I : Type) (found : list (option I)),
  match extract PDrop found with
  | ONonIntersecting _ => False
  | ONoIndex => hit_values found = []
  | ORows labels sel => labels = hit_positions found /\ sel = map Some (hit_values found)
  end.
Proof. exact @extract_drop. Qed.
Print Assumptions C05_drop.

Theorem C05_drop_rows : forall (I : Type) (found : list (option I)),
  StronglySorted Z.lt (hit_positions found) /\
  map (fun n => nth_error found (Z.to_nat n)) (hit_positions found) = map Some (map Some (hit_values found)).
Proof. exact @hits_rows. Qed.
Print Assumptions C05_drop_rows.

(* 'fill' keeps every row; a miss row is missing *)
Theorem C05_fill : forall (I : Type) (found : list (option I)),
  match extract PFill found with
  | ONonIntersecting _ => False
  | ONoIndex => hit_values found = []
  | ORows labels sel => labels = zrange 0 (Z.of_nat (length found)) /\ sel = found
  end.
Proof. exact @extract_fill. Qed.
Print Assumptions C05_fill.

Theorem C05_partition : forall (I : Type) (found : list (option I)) k, 0 <= k < Z.of_nat (length found) ->
  (In k (miss_positions found) /\ ~ In k (hit_positions found)) \/
  (In k (hit_positions found) /\ ~ In k (miss_positions found)).
Proof. exact @positions_partition. Qed.
Print Assumptions C05_partition.
