(* C06 - cell polygons and dataset extent are faithful to the dataset's coordinates.
   Statements only; proofs in Proofs/PolygonsP.v.  The polygon of each convention is defined cell-wise from the
   coordinates ([rect], [cf2d_given_cell], [cf2d_synth_cell], [arakawa_cell], [ugrid_face]); these theorems say at
   which position each cell's polygon sits, when a cell has none, and what the synthesised bounds are. *)
From Coq Require Import ZArith QArith List Bool.
From EV Require Import Model.BoundsName Proofs.BoundsNameP.
From EV Require Import Base.Index Base.Geom Model.Polygons Proofs.PolygonsP Proofs.PolygonsP2.
Import ListNotations.
Open Scope Z_scope.

(* CF 1-D: the polygon at j*nx+i is the rectangle spanned by the bounds of row j and column i *)
Theorem C06_cf1d_rect : forall lonb latb j i dx dy, (j < length latb)%nat -> (i < length lonb)%nat ->
  nth (j * length lonb + i) (cf1d_raw lonb latb) None = Some (rect (nth i lonb dx) (nth j latb dy)).
Proof. exact cf1d_raw_nth. Qed.
Print Assumptions C06_cf1d_rect.

(* midpoint synthesis: interior bounds are the means of neighbouring centres *)
Theorem C06_cf1d_pair_means : forall v k d, (S k < length v)%nat ->
  nth k (pair_means v) d = half (nth (S k) v d + nth k v d).
Proof. exact pair_means_nth. Qed.
Print Assumptions C06_cf1d_pair_means.

(* CF 2-D / SHOC simple with stored bounds: the four bounds corners of the cell, in stored order *)
Theorem C06_cf2d_given : forall ny nx lonb latb j i n, ravel [ny; nx] [j; i] = Some n ->
  nth (Z.to_nat n) (cf2d_given_raw ny nx lonb latb) None = cf2d_given_cell lonb latb j i.
Proof. exact cf2d_given_at. Qed.
Print Assumptions C06_cf2d_given.

(* synthesised 2-D bounds: corners are the mean of the centres present around them *)
Theorem C06_cf2d_synth : forall ny nx lon lat j i n, ravel [ny; nx] [j; i] = Some n ->
  nth (Z.to_nat n) (cf2d_synth_raw ny nx lon lat) None = cf2d_synth_cell ny nx lon lat j i.
Proof. exact cf2d_synth_at. Qed.
Print Assumptions C06_cf2d_synth.

Theorem C06_synth_corner_mean : forall vs m, nanmean vs = Some m ->
  (m * inject_Z (Z.of_nat (length (present vs))) == fold_right Qplus 0 (present vs))%Q /\ present vs <> [].
Proof. exact nanmean_mean. Qed.
Print Assumptions C06_synth_corner_mean.

Theorem C06_synth_corner_missing : forall vs, nanmean vs = None <-> Forall (fun v => v = None) vs.
Proof. exact nanmean_none. Qed.
Print Assumptions C06_synth_corner_missing.

(* Arakawa C / SHOC standard: the four surrounding nodes *)
Theorem C06_arakawa_nodes : forall nj ni xg yg j i n, ravel [nj; ni] [j; i] = Some n ->
  nth (Z.to_nat n) (arakawa_raw nj ni xg yg) None = arakawa_cell xg yg j i.
Proof. exact arakawa_at. Qed.
Print Assumptions C06_arakawa_nodes.

(* UGRID: the face's nodes in listed order *)
Theorem C06_ugrid_listed_order : forall nx ny faces n f, nth_error faces n = Some f ->
  nth n (ugrid_raw nx ny faces) None = ugrid_face nx ny f.
Proof. exact ugrid_at. Qed.
Print Assumptions C06_ugrid_listed_order.

(* a cell with any missing coordinate has no polygon *)
Theorem C06_missing_coordinate_no_polygon : forall cs,
  ring_of cs = None <-> exists c, In c cs /\ (fst c = None \/ snd c = None).
Proof. exact ring_of_none. Qed.
Print Assumptions C06_missing_coordinate_no_polygon.

(* the validity mask says so; a self-intersecting ring is dropped *)
Theorem C06_mask_iff : forall ps n,
  nth n (mask_of (finalize ps)) false = true <-> exists r, nth n ps None = Some r /\ ring_simple r = true.
Proof. exact mask_iff. Qed.
Print Assumptions C06_mask_iff.

Theorem C06_kept_polygon_unchanged : forall ps n r, nth n (finalize ps) None = Some r -> nth n ps None = Some r.
Proof. exact finalize_keeps. Qed.
Print Assumptions C06_kept_polygon_unchanged.

(* ---- which stored bounds the CF grid conventions use ---- *)

(* a stored bounds variable is used exactly when it is laid out (y, x, 4 vertices) / (axis, 2 ends) *)
Theorem C06_cf2d_bounds_accepted_iff : forall ydim xdim dims sz,
  cf2d_bounds_ok ydim xdim dims sz = true <-> (exists d, dims = [ydim; xdim; d]) /\ sz = 4.
Proof. exact cf2d_bounds_ok_iff. Qed.
Print Assumptions C06_cf2d_bounds_accepted_iff.

Theorem C06_cf1d_bounds_accepted_iff : forall cdim dims sz,
  cf1d_bounds_ok cdim dims sz = true <-> (exists d, dims = [cdim; d]) /\ sz = 2.
Proof. exact cf1d_bounds_ok_iff. Qed.
Print Assumptions C06_cf1d_bounds_accepted_iff.

(* bounds in any other layout play no part: the cells are those derived from the centres (never a reshaped or
   transposed reading of the stored numbers) *)
Theorem C06_cf2d_refused_bounds_ignored : forall ny nx ydim xdim lon lat lonb latb,
  refused2 ydim xdim lonb -> refused2 ydim xdim latb ->
  cf2d_raw ny nx ydim xdim lon lat lonb latb = cf2d_synth_raw ny nx lon lat.
Proof. exact cf2d_refused_ignored. Qed.
Print Assumptions C06_cf2d_refused_bounds_ignored.

Theorem C06_cf2d_accepted_bounds_used : forall ny nx ydim xdim lon lat lonb latb vx vy,
  accepted2 ydim xdim lonb vx -> accepted2 ydim xdim latb vy ->
  cf2d_raw ny nx ydim xdim lon lat lonb latb = cf2d_given_raw ny nx vx vy.
Proof. exact cf2d_accepted_used. Qed.
Print Assumptions C06_cf2d_accepted_bounds_used.

Theorem C06_cf1d_refused_bounds_ignored : forall ydim xdim lon lat lonb latb,
  refused1 xdim lonb -> refused1 ydim latb ->
  cf1d_polys ydim xdim lon lat lonb latb =
  match cf1d_synth lon, cf1d_synth lat with Some xb, Some yb => Some (cf1d_raw xb yb) | _, _ => None end.
Proof. exact cf1d_refused_ignored. Qed.
Print Assumptions C06_cf1d_refused_bounds_ignored.

(* ---- where the name of the bounds variable is found (utils.get_bounds_name, repair 8b078a0) *)
(* opening a file with decode_coords='all' (the bounds attribute moves to the encoding) changes neither the name found nor
   whether the stored bounds are used *)
Theorem C06_bounds_name_survives_decode_coords : forall present v, enc_bounds v = None ->
  get_bounds_name (decode_all v) = get_bounds_name v /\ uses_stored present (decode_all v) = uses_stored present v.
Proof. intros present v H. split; [now apply decode_all_same_name|now apply decode_all_same_use]. Qed.
Print Assumptions C06_bounds_name_survives_decode_coords.

(* the lookup in the attributes alone loses it *)
Theorem C06_bounds_name_attrs_only_refuted :
  exists v, enc_bounds v = None /\ get_bounds_name_old v <> None /\ get_bounds_name_old (decode_all v) = None.
Proof. exact old_lookup_refuted. Qed.
Print Assumptions C06_bounds_name_attrs_only_refuted.
