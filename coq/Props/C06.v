From EV Require Import Model.Polygons.
