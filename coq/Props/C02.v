(* C02 - one linear order is shared by polygons, centres, flattened data and selectors.
   Position n means "the cell whose dimension indexes are the row-major unravelling of n" in each of them. *)
From Coq Require Import ZArith QArith List Bool.
From EV Require Import Base.Index Base.LArr Base.Geom Model.IndexConv Model.Flatten Model.Polygons Model.Lookup
  Proofs.IndexConvP Proofs.FlattenP Proofs.PolygonsP Proofs.LookupP.
Import ListNotations.
Open Scope Z_scope.

(* native index of n = row-major unravelling of n *)
Theorem C02_wind_is_unravel : forall g k s n idx, IndexConv.lookup k (shapes g) = Some s ->
  wind_index g k n = Some idx -> 0 <= n < prod s /\ idx = pack (fl g) k (unravel_aux s n).
Proof. exact wind_is_unravel. Qed.
Print Assumptions C02_wind_is_unravel.

(* polygons (and anything else enumerated cell by cell): position n holds cell (j, i) with ravel (j, i) = n *)
Theorem C02_polygon_position : forall (A : Type) ny nx (f : Z -> Z -> A) j i n d,
  ravel [ny; nx] [j; i] = Some n -> nth (Z.to_nat n) (grid_list ny nx f) d = f j i.
Proof. exact @grid_list_ravel. Qed.
Print Assumptions C02_polygon_position.

Theorem C02_polygon_position_mesh : forall nx ny faces n f, nth_error faces n = Some f ->
  nth n (ugrid_raw nx ny faces) None = ugrid_face nx ny f.
Proof. exact ugrid_at. Qed.
Print Assumptions C02_polygon_position_mesh.

(* holes keep their slot: dropping geometry never shifts later cells *)
Theorem C02_hole_keeps_slot : forall ps n,
  length (finalize ps) = length ps /\
  nth n (finalize ps) None =
    match nth n ps None with Some r => if ring_simple r then Some r else None | None => None end.
Proof. intros ps n. split; [apply finalize_length | apply finalize_nth]. Qed.
Print Assumptions C02_hole_keeps_slot.

Theorem C02_grid_length : forall (A : Type) ny nx (f : Z -> Z -> A), 0 <= ny -> 0 <= nx ->
  length (grid_list ny nx f) = Z.to_nat (ny * nx).
Proof. exact @grid_list_length. Qed.
Print Assumptions C02_grid_length.

(* face centres *)
Theorem C02_centre_cf1d : forall lon lat j i d, (j < length lat)%nat -> (i < length lon)%nat ->
  nth (j * length lon + i) (cf1d_centres lon lat) (d, d) = (nth i lon d, nth j lat d).
Proof. exact cf1d_centres_nth. Qed.
Print Assumptions C02_centre_cf1d.

Theorem C02_centre_2d : forall ny nx lon lat j i n d, ravel [ny; nx] [j; i] = Some n ->
  nth (Z.to_nat n) (cf2d_centres ny nx lon lat) d = (at2 lon j i, at2 lat j i).
Proof. exact cf2d_centres_at. Qed.
Print Assumptions C02_centre_2d.

(* flattened data: element n (under any labels of the other dimensions) is the value at the grid indexes
   unravel n - the value select_index (wind_index n) reads *)
Theorem C02_flat_at : forall (A : Type) (a : larr A) G lin r env', ravel_dims G lin a = Some r ->
  get r env' = get a (env_of a G (last (dims r) 0) env').
Proof. exact @ravel_get. Qed.
Print Assumptions C02_flat_at.

(* spatial-index hits are linear indexes *)
Theorem C02_hits_are_linear : forall (G : Type) (meets : ring -> G -> bool) ps g n,
  In n (hits meets ps g) <-> 0 <= n /\ exists r, nth_error ps (Z.to_nat n) = Some (Some r) /\ meets r g = true.
Proof. exact @hits_spec. Qed.
Print Assumptions C02_hits_are_linear.
