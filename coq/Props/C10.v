(* C10 - mesh topology is independent of encoding and internally consistent. *)
From Coq Require Import ZArith List Bool.
From EV Require Import Model.EdgeDim Proofs.EdgeDimP.
From EV Require Import Base.Index Base.ListX Model.Topology Model.Fill Proofs.TopologyP Proofs.TopologyP2 Proofs.FillP.
Import ListNotations.
Open Scope Z_scope.

(* whatever the encoding - 0- or 1-based; NaN, _FillValue attribute or no fill; either dimension first -
   decoding what a writer stored gives back the faces *)
Theorem C10_decode_encode : forall e width m,
  (0 < width)%nat -> m <> [] ->
  (forall r, In r m -> (length r <= width)%nat) ->
  (is_float e = false -> forall f, fill_attr e = Some f -> forall r z, In r m -> In z r -> z + start_index e <> f) ->
  (is_float e = false -> fill_attr e = None -> forall r, In r m -> length r = width) ->
  map compress (to_index_array e (encode e width m)) = m.
Proof. exact decode_encode. Qed.
Print Assumptions C10_decode_encode.

Theorem C10_encoding_independent : forall e1 e2 w1 w2 m,
  map compress (to_index_array e1 (encode e1 w1 m)) = m ->
  map compress (to_index_array e2 (encode e2 w2 m)) = m ->
  map compress (to_index_array e1 (encode e1 w1 m)) = map compress (to_index_array e2 (encode e2 w2 m)).
Proof. exact encoding_independent. Qed.
Print Assumptions C10_encoding_independent.

(* the verified checker: what `topology_okb = true` means *)
Theorem C10_checker_sound : forall fn en fe ef ff, topology_okb fn en fe ef ff = true ->
  edge_nodes_ok fn en = true /\ face_edges_ok fn en fe = true /\
  edge_faces_ok fe ef (Z.of_nat (length en)) = true /\ face_faces_ok fe ff = true.
Proof. exact checker_sound. Qed.
Print Assumptions C10_checker_sound.

(* a face's k-th edge is the edge on its k-th consecutive node pair *)
Theorem C10_face_edges : forall fn en fe, face_edges_ok fn en fe = true ->
  forall f nodes es k p e, nth_error fn f = Some nodes -> nth_error fe f = Some es ->
    nth_error (node_pairs nodes) k = Some p -> nth_error es k = Some e ->
    exists q, edge_pair en e = Some q /\ same_pair p q = true.
Proof. exact face_edges_sound. Qed.
Print Assumptions C10_face_edges.

Theorem C10_face_edges_count : forall fn en fe, face_edges_ok fn en fe = true ->
  length fe = length fn /\
  forall f nodes es, nth_error fn f = Some nodes -> nth_error fe f = Some es -> length es = length (node_pairs nodes).
Proof. exact face_edges_count. Qed.
Print Assumptions C10_face_edges_count.

(* the edge list: node pairs, no unordered pair twice, exactly the sides of the faces *)
Theorem C10_edge_nodes : forall fn en, edge_nodes_ok fn en = true ->
  let ps := flat_map (fun o => match o with Some p => [p] | None => [] end) (all_edge_pairs en) in
  (forall r, In r en -> exists a b, r = [a; b]) /\
  (forall i j p q, (i < j)%nat -> nth_error ps i = Some p -> nth_error ps j = Some q -> same_pair p q = false) /\
  (forall p, In p ps -> exists f q, In f fn /\ In q (node_pairs f) /\ same_pair p q = true) /\
  (forall f q, In f fn -> In q (node_pairs f) -> exists p, In p ps /\ same_pair q p = true).
Proof. exact edge_nodes_sound. Qed.
Print Assumptions C10_edge_nodes.

(* an edge lists exactly the faces that contain it *)
Theorem C10_edge_faces : forall fe ef ne, edge_faces_ok fe ef ne = true ->
  forall e faces, 0 <= e -> nth_error ef (Z.to_nat e) = Some faces ->
    forall f es, 0 <= f -> nth_error fe (Z.to_nat f) = Some es -> (In f faces <-> In e es).
Proof. exact edge_faces_sound. Qed.
Print Assumptions C10_edge_faces.

(* face adjacency means sharing an edge, and is symmetric *)
Theorem C10_face_faces : forall fe ff, face_faces_ok fe ff = true ->
  forall f nb, 0 <= f -> nth_error ff (Z.to_nat f) = Some nb ->
    forall g es, 0 <= g -> nth_error fe (Z.to_nat g) = Some es -> (In g nb <-> shares_edge fe f g = true).
Proof. exact face_faces_sound. Qed.
Print Assumptions C10_face_faces.

Theorem C10_adjacency_symmetric : forall fe f g, shares_edge fe f g = shares_edge fe g f.
Proof. exact shares_edge_sym. Qed.
Print Assumptions C10_adjacency_symmetric.

(* every derived table agrees with the tables it is derived from *)
(* face -> edge, as coded (last matching edge row), given an edge list that covers every side of every face *)
Theorem C10_derived_face_edge : forall fn en,
  (forall f q, In f fn -> In q (node_pairs f) ->
     exists e a b, nth_error en e = Some [a; b] /\ same_pair q (a, b) = true) ->
  face_edges_ok fn en (mk_fe_impl fn en) = true.
Proof. exact mk_fe_ok. Qed.
Print Assumptions C10_derived_face_edge.

(* edge -> face, as coded: an edge lists exactly the faces whose face_edge row contains it *)
Theorem C10_derived_edge_face : forall fe ne, 0 <= ne -> edge_faces_ok fe (mk_ef fe ne) ne = true.
Proof. exact mk_ef_ok. Qed.
Print Assumptions C10_derived_edge_face.

(* face -> face, reference derivation (the implementation's rows hold the same faces in edge order; compared per run) *)
Theorem C10_derived_face_face : forall fe, face_faces_ok fe (mk_ff fe) = true.
Proof. exact mk_ff_ok. Qed.
Print Assumptions C10_derived_face_face.

(* the value that marks a missing entry in the normalised integer tables (all nines, one digit more than the largest count)
   is not the number of any node, face or edge, zero- or one-based *)
Theorem C10_fill_is_no_element : forall nc fc mnc si i, 0 <= nc -> 0 <= fc -> 0 <= mnc -> 0 <= si <= 1 ->
  0 <= i -> (i < nc \/ i < fc * mnc) -> i + si <> sensible_fill nc fc mnc.
Proof. exact sensible_fill_not_an_index. Qed.
Print Assumptions C10_fill_is_no_element.

(* len(str(n)) as computed: n < 10 ^ digits n, and 10 ^ (digits n - 1) <= n for n >= 1 *)
Theorem C10_decimal_digits : forall n, 0 <= n -> n < 10 ^ digits n /\ (1 <= n -> 10 ^ (digits n - 1) <= n).
Proof. exact digits_spec. Qed.
Print Assumptions C10_decimal_digits.

(* ---- which dimension numbers the edges (Mesh2DTopology.has_edge_dimension / edge_dimension; model EdgeDim, which adds to
   Topology.edge_dimension what UGRID allows a file to look like) *)
(* on every mesh UGRID allows (tables in standard order, or the edge_dimension attribute given) the dimension found is the one
   that numbers the edges, and it is found exactly when the mesh has edges *)
Theorem C10_edge_dimension_correct : forall e m, EdgeDim.valid_edges e m = true ->
  (EdgeDim.has_edge_dimension m = true <-> EdgeDim.edge_dimension m <> None) /\
  (EdgeDim.has_edge_dimension m = true -> EdgeDim.edge_dimension m = Some e).
Proof. intros e m H. split; [apply edge_dimension_defined_iff|now apply edge_dimension_correct]. Qed.
Print Assumptions C10_edge_dimension_correct.

(* the order in which the two edge tables are consulted plays no part on such meshes, and does on a file that stores one
   table the other way round without naming the dimension - which UGRID does not allow *)
Theorem C10_edge_table_order_irrelevant_on_valid_meshes :
  (forall e m, EdgeDim.valid_edges e m = true -> EdgeDim.edge_dimension_last m = EdgeDim.edge_dimension m) /\
  (exists m, EdgeDim.edge_dimension_last m <> EdgeDim.edge_dimension m /\ forall e, EdgeDim.valid_edges e m = false).
Proof. split; [exact lookup_order_irrelevant_when_valid|exact lookup_order_matters_only_when_invalid]. Qed.
Print Assumptions C10_edge_table_order_irrelevant_on_valid_meshes.
