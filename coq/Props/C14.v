(* C14 - triangulation exactly partitions every cell polygon. *)
From Coq Require Import ZArith QArith List Bool.
From EV Require Import Base.Geom Model.Triangulate Proofs.TriangulateP.
Import ListNotations.
Open Scope Q_scope.

(* n - 2 triangles for an n-sided cell, convex or not, whenever the triangulation returns *)
Theorem C14_count : forall r ts, (3 <= length r)%nat -> triangulate_ring r = Some ts -> length ts = (length r - 2)%nat.
Proof. exact triangle_count. Qed.
Print Assumptions C14_count.

(* the signed areas of the triangles add up to the signed area of the cell (fan, and every ear clipping run) *)
Theorem C14_signed_area : forall r ts, triangulate_ring r = Some ts -> total_area2 ts == shoelace r.
Proof. exact triangulation_area. Qed.
Print Assumptions C14_signed_area.

(* every triangle corner is a vertex of its own cell *)
Theorem C14_corners : forall r ts, triangulate_ring r = Some ts -> Forall (corners_in r) ts.
Proof. exact triangulation_corners. Qed.
Print Assumptions C14_corners.

(* the vertex list has no duplicates, holds every coordinate of every cell, and every lookup is valid *)
Theorem C14_vertices_nodup : forall cells, NoDup (vertex_table cells).
Proof. exact vertex_table_nodup. Qed.
Print Assumptions C14_vertices_nodup.

Theorem C14_vertices_complete : forall cells r p, In (Some r) cells -> In p r -> In p (vertex_table cells).
Proof. exact vertex_table_complete. Qed.
Print Assumptions C14_vertices_complete.

Theorem C14_vertex_index_valid : forall p l, In p l -> exists k, index_of_pt p l = Some k /\ nth_error l k = Some p.
Proof. exact index_of_pt_spec. Qed.
Print Assumptions C14_vertex_index_valid.

(* PARTIAL (see DESIGN.md): that the triangles lie inside the cell and do not overlap - i.e. that equal signed area
   means exact cover - and that ear clipping always finds an ear, is decided per run by the exact rational checker
   partition_okb on the implementation's output, not by a closed theorem. *)
Theorem C14_partition_partial : forall r ts, partition_okb r ts = true ->
  length ts = (length r - 2)%nat /\ Qeq_bool (fold_right (fun t acc => tri_area2 t + acc) 0 ts) (shoelace r) = true.
Proof.
  intros r ts H. unfold partition_okb in H. repeat (apply andb_true_iff in H as [H ?]).
  split; [now apply Nat.eqb_eq|assumption].
Qed.
Print Assumptions C14_partition_partial.
