(* C20 - command line: the bounds grammar, exit statuses, format guessing. *)
From Coq Require Import ZArith List Bool.
From EV Require Import Model.CliArgs Proofs.CliArgsP.
Import ListNotations.
Open Scope Z_scope.

(* a string is taken as bounds exactly when the WHOLE string is four decimals separated by commas with optional
   white space around the commas - nothing before, nothing after *)
Theorem C20_bounds_exact : forall s, accepts s = true <->
  exists d1 d2 d3 d4 a1 b1 a2 b2 a3 b3,
    s = d1 ++ a1 ++ comma :: b1 ++ d2 ++ a2 ++ comma :: b2 ++ d3 ++ a3 ++ comma :: b3 ++ d4 /\
    forallb is_space (a1 ++ b1 ++ a2 ++ b2 ++ a3 ++ b3) = true /\
    is_decimal d1 = true /\ is_decimal d2 = true /\ is_decimal d3 = true /\ is_decimal d4 = true.
Proof. exact accepts_iff. Qed.
Print Assumptions C20_bounds_exact.

Theorem C20_three_commas : forall s, accepts s = true -> count comma s = 3%nat.
Proof. exact accepts_three_commas. Qed.
Print Assumptions C20_three_commas.

Theorem C20_extra_field_rejected : forall s x, accepts s = true -> accepts (s ++ comma :: x) = false.
Proof. exact extra_field_rejected. Qed.
Print Assumptions C20_extra_field_rejected.

Theorem C20_no_other_text : forall s, accepts s = true ->
  forall c, In c s -> okchar c = true \/ c = comma \/ is_space c = true.
Proof. exact accepts_chars. Qed.
Print Assumptions C20_no_other_text.

(* failures end with a non-zero status *)
Theorem C20_failures_nonzero : forall o, o <> Done -> (forall c, o = RaisedCommandException c -> c <> 0) -> exit_status o <> 0.
Proof. exact failures_nonzero. Qed.
Print Assumptions C20_failures_nonzero.

Theorem C20_format_guess :
  guess_format ext_json = Some GeoJSON /\ guess_format ext_geojson = Some GeoJSON /\ guess_format ext_wkt = Some WKT /\
  guess_format ext_wkb = Some WKB /\ guess_format ext_shp = Some Shapefile /\
  forall e, e <> ext_json -> e <> ext_geojson -> e <> ext_wkt -> e <> ext_wkb -> e <> ext_shp -> guess_format e = None.
Proof. exact guess_format_spec. Qed.
Print Assumptions C20_format_guess.
