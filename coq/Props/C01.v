(* C01 - native and linear indexes form a bijection on every grid.
   Only statements, each closed by [exact] of a lemma proved in Proofs/IndexConvP.v. *)
From Coq Require Import ZArith List.
From EV Require Import Base.Index Model.IndexConv Proofs.IndexConvP.
Import ListNotations.
Open Scope Z_scope.

(* linear -> native -> linear is the identity wherever winding succeeds *)
Theorem C01_wind_ravel : forall g k n idx,
  wf g -> wind_index g k n = Some idx -> ravel_index g idx = Some n.
Proof. exact wind_ravel. Qed.
Print Assumptions C01_wind_ravel.

(* native -> linear -> native is the identity wherever ravelling succeeds *)
Theorem C01_ravel_wind : forall g idx n,
  wf g -> canonical (fl g) idx -> ravel_index g idx = Some n ->
  wind_index g (fst (unpack (fl g) idx)) n = Some idx.
Proof. exact ravel_wind. Qed.
Print Assumptions C01_ravel_wind.

(* winding succeeds exactly on [0, size): nothing outside is wrapped or clamped *)
Theorem C01_wind_total : forall g k s n, lookup k (shapes g) = Some s ->
  ((exists idx, wind_index g k n = Some idx) <-> 0 <= n < prod s).
Proof. exact wind_total. Qed.
Print Assumptions C01_wind_total.

(* ravelling succeeds exactly on indexes of a known kind inside the box of its shape *)
Theorem C01_ravel_total : forall g idx,
  (exists n, ravel_index g idx = Some n) <->
  (exists s, lookup (fst (unpack (fl g) idx)) (shapes g) = Some s /\ in_box s (snd (unpack (fl g) idx))).
Proof. exact ravel_total. Qed.
Print Assumptions C01_ravel_total.

(* grid_size is the number of distinct addressable locations *)
Theorem C01_size_counts : forall g k s, wf g -> lookup k (shapes g) = Some s ->
  let tbl := wind_table g k 0 (prod s) in
  length tbl = Z.to_nat (prod s) /\
  NoDup tbl /\
  (forall o, In o tbl -> exists idx, o = Some idx /\ exists n, ravel_index g idx = Some n /\ 0 <= n < prod s) /\
  (forall idx n, canonical (fl g) idx -> fst (unpack (fl g) idx) = k ->
     ravel_index g idx = Some n -> In (Some idx) tbl).
Proof. exact size_counts. Qed.
Print Assumptions C01_size_counts.

Theorem C01_grid_size : forall g k s, lookup k (shapes g) = Some s -> grid_size g k = Some (prod s).
Proof. exact grid_size_prod. Qed.
Print Assumptions C01_grid_size.

(* linear order is row-major: lexicographic order of the dimension indexes *)
Theorem C01_row_major : forall g k s i1 i2 n1 n2, wf g -> lookup k (shapes g) = Some s ->
  ravel s i1 = Some n1 -> ravel s i2 = Some n2 -> (lex_lt i1 i2 <-> n1 < n2).
Proof. exact row_major. Qed.
Print Assumptions C01_row_major.
