(* C13 - depth normalisation reorients coordinates and data together, idempotently. *)
From Coq Require Import ZArith List Bool.
From EV Require Import Proofs.GuessP.
From EV Require Import Model.Depth Proofs.DepthP.
Import ListNotations.
Open Scope Z_scope.

(* every coordinate on the dimension (several may share it), its bounds and the data rows are kept or reversed
   together; physical depths (sign-corrected values) are unchanged; the requested sign is recorded *)
Theorem C13_association : forall (A : Type) pd dts (d d' : ddim A),
  normalize pd dts d = Some d' ->
  exists r : bool,
    rows d' = rv r (rows d) /\ length (coords d') = length (coords d) /\
    (forall j c, nth_error (coords d) j = Some c ->
       exists c', nth_error (coords d') j = Some c' /\ phys c' = rv r (phys c) /\
                  phys_b c' = (if r then option_map (@rev _) (phys_b c) else phys_b c) /\
                  attr c' = set_attr pd (attr c)).
Proof. exact @normalize_assoc. Qed.
Print Assumptions C13_association.

(* as observed: the (physical depth, data at that level) pairs are the input's, or the input's reversed *)
Theorem C13_pairs : forall (A : Type) pd dts (d d' : ddim A) j c,
  normalize pd dts d = Some d' -> nth_error (coords d) j = Some c -> length (vals c) = length (rows d) ->
  exists c', nth_error (coords d') j = Some c' /\
    (combine (phys c') (rows d') = combine (phys c) (rows d) \/
     combine (phys c') (rows d') = rev (combine (phys c) (rows d))).
Proof. exact @normalize_pairs. Qed.
Print Assumptions C13_pairs.

(* the requested ordering holds afterwards (monotone coordinate, >= 2 levels) *)
Theorem C13_order : forall (A : Type) pd want (c : coord) (rws : list A) d',
  (incr (phys c) \/ decr (phys c)) -> (2 <= length (vals c))%nat ->
  normalize pd (Some want) (single c rws) = Some d' ->
  exists c', coords d' = [c'] /\ (if want then decr (phys c') else incr (phys c')).
Proof. exact @normalize_order. Qed.
Print Assumptions C13_order.

Theorem C13_idempotent : forall (A : Type) pd dts (c : coord) (rws : list A) d',
  (incr (phys c) \/ decr (phys c)) -> (2 <= length (vals c))%nat ->
  normalize pd dts (single c rws) = Some d' -> normalize pd dts d' = Some d'.
Proof. exact @normalize_idempotent. Qed.
Print Assumptions C13_idempotent.

Theorem C13_none_untouched : forall (A : Type) (d : ddim A), normalize None None d = Some d.
Proof. exact @normalize_none_untouched. Qed.
Print Assumptions C13_none_untouched.

(* with >= 2 levels normalisation never fails *)
Theorem C13_defined : forall (A : Type) pd dts c (rws : list A),
  (2 <= length (vals c))%nat -> exists d', normalize pd dts (single c rws) = Some d'.
Proof. exact @normalize_single_defined. Qed.
Print Assumptions C13_defined.

(* ---- an axis without a `positive` attribute: the direction is guessed from the values *)
(* all depths written as positive numbers: positive down; none above zero: positive up *)
Theorem C13_guess_one_sided : forall v,
  (v <> [] -> Forall (fun x => 0 < x) v -> guess_down v = true) /\ (Forall (fun x => x <= 0) v -> guess_down v = false).
Proof. intros v. split; [apply guess_all_positive|apply guess_none_positive]. Qed.
Print Assumptions C13_guess_one_sided.

(* exactly the count of values above zero decides; the order of the levels and the unit play no part *)
Theorem C13_guess_majority : forall v,
  (guess_down v = true <-> (length v < 2 * length (filter (fun x => (0 <? x)%Z) v))%nat) /\
  (forall w, Permutation.Permutation v w -> guess_down v = guess_down w) /\
  (forall k, 0 < k -> guess_down (map (Z.mul k) v) = guess_down v).
Proof. intros v. split; [apply guess_is_majority|split; [apply guess_permutation|intros k Hk; now apply guess_scaled]]. Qed.
Print Assumptions C13_guess_majority.

(* ... and not their mean *)
Theorem C13_guess_not_the_mean_refuted :
  (exists v, fold_right Z.add 0 v < 0 /\ guess_down v = true) /\ (exists v, 0 < fold_right Z.add 0 v /\ guess_down v = false).
Proof. exact guess_not_the_mean. Qed.
Print Assumptions C13_guess_not_the_mean_refuted.
