(* C16 - the geometry cache key depends on the geometry and on nothing else: the byte stream fed to the hash. *)
From Coq Require Import ZArith List Bool.
From EV Require Import Model.CacheKey Proofs.CacheKeyP Model.Memo Proofs.MemoP.
Import ListNotations.
Open Scope Z_scope.

Theorem C16_int_injective : forall a b, in_i32 a -> in_i32 b -> i32 a = i32 b -> a = b.
Proof. exact i32_inj. Qed.
Print Assumptions C16_int_injective.

(* strings are length-prefixed: a prefix code *)
Theorem C16_string_prefix_free : forall s1 s2 r1 r2, short s1 -> short s2 ->
  enc_str s1 ++ r1 = enc_str s2 ++ r2 -> s1 = s2 /\ r1 = r2.
Proof. exact enc_str_prefix_free. Qed.
Print Assumptions C16_string_prefix_free.

(* a variable's bytes determine its name, dtype, shape, values and attribute bytes (same rank) *)
Theorem C16_var_injective : forall itemsize v1 v2 r1 r2,
  wf itemsize v1 -> wf itemsize v2 -> length (shape v1) = length (shape v2) ->
  enc_var v1 ++ r1 = enc_var v2 ++ r2 -> v1 = v2 /\ r1 = r2.
Proof. exact enc_var_injective. Qed.
Print Assumptions C16_var_injective.

(* the whole stream determines every geometry variable and the convention (inventories of pairwise equal rank) *)
Theorem C16_stream_injective : forall itemsize vars1 vars2 m1 c1 e1 m2 c2 e2,
  Forall (wf itemsize) vars1 -> Forall (wf itemsize) vars2 ->
  map (fun v => length (shape v)) vars1 = map (fun v => length (shape v)) vars2 ->
  short m1 -> short c1 -> short e1 -> short m2 -> short c2 -> short e2 ->
  stream vars1 m1 c1 e1 = stream vars2 m2 c2 e2 -> vars1 = vars2 /\ m1 = m2 /\ c1 = c2 /\ e1 = e2.
Proof. exact stream_injective. Qed.
Print Assumptions C16_stream_injective.

(* any single edit of a geometry variable (value, dtype, shape of the same rank, name, attribute bytes) changes the stream *)
Theorem C16_edit_changes_stream : forall itemsize v v' rest m c e,
  wf itemsize v -> wf itemsize v' -> Forall (wf itemsize) rest -> length (shape v) = length (shape v') ->
  short m -> short c -> short e -> v <> v' ->
  stream (v :: rest) m c e <> stream (v' :: rest) m c e.
Proof. exact edit_changes_stream. Qed.
Print Assumptions C16_edit_changes_stream.

Theorem C16_convention_changes_stream : forall itemsize vars m c e m' c' e',
  Forall (wf itemsize) vars -> short m -> short c -> short e -> short m' -> short c' -> short e' ->
  (m, c, e) <> (m', c', e') -> stream vars m c e <> stream vars m' c' e'.
Proof. exact convention_changes_stream. Qed.
Print Assumptions C16_convention_changes_stream.

(* ---- what the key is for: results remembered under it (model Memo: a cache asked along any session of requests) ---- *)

(* a result that depends on the geometry only, remembered under a key that separates different geometries, is answered in
   every session - whatever was asked before, in whatever order - as if it were computed afresh *)
Theorem C16_remembered_results_sound : forall (X K V : Type) (key : X -> K) (f : X -> V) (keq : K -> K -> bool),
  (forall a b : K, keq a b = true <-> a = b) -> (forall x y, key x = key y -> f x = f y) ->
  forall xs : list X, snd (run X K V key f keq nil xs) = List.map f xs.
Proof. exact session_sound. Qed.
Print Assumptions C16_remembered_results_sound.

(* a key that is too coarse - two datasets, one key, different results - gives the second dataset the answer of the first *)
Theorem C16_coarse_key_refuted : forall (X K V : Type) (key : X -> K) (f : X -> V) (keq : K -> K -> bool),
  (forall a b : K, keq a b = true <-> a = b) ->
  forall x y : X, key x = key y -> f x <> f y ->
  snd (run X K V key f keq nil (x :: y :: nil)) <> List.map f (x :: y :: nil).
Proof. exact coarse_key_refuted. Qed.
Print Assumptions C16_coarse_key_refuted.
