(* C07 - clip masks select exactly the intersecting cells plus the requested buffer. *)
From Coq Require Import ZArith List Bool Sorted.
From EV Require Import Base.Index Base.ListX Model.Mask Model.UMask Proofs.MaskP Base.Geom Model.Lookup Proofs.LookupP2.
Import ListNotations.
Open Scope Z_scope.

(* ring growing on grids: every cell within `size` steps in any of the eight directions *)
Theorem C07_blur_spec : forall k s j i, 0 <= s -> inr k j i = true ->
  (blur_at k s j i = true <->
   exists j' i', inr k j' i' = true /\ Z.abs (j - j') <= s /\ Z.abs (i - i') <= s /\ m k j' i' = true).
Proof. exact blur_spec. Qed.
Print Assumptions C07_blur_spec.

Theorem C07_blur_rings : forall k s j i, 0 <= s -> inr k j i = true ->
  blur_at k (s + 1) j i = blur_at (blur k s) 1 j i.
Proof. exact blur_rings. Qed.
Print Assumptions C07_blur_rings.

(* a grid clip mask marks exactly the cells within `buffer` steps of a cell the geometry hits *)
Theorem C07_grid_mask : forall ny nx hits b j i, 0 <= b -> 0 <= j < ny -> 0 <= i < nx ->
  (m (grid_clip_mask ny nx hits b) j i = true <->
   exists j' i', 0 <= j' < ny /\ 0 <= i' < nx /\ Z.abs (j - j') <= b /\ Z.abs (i - i') <= b /\
                 In (j' * nx + i') hits).
Proof. exact grid_clip_mask_spec. Qed.
Print Assumptions C07_grid_mask.

(* edges and nodes of Arakawa C grids: marked iff they belong to a marked face *)
Theorem C07_smear : forall k pj pi j i,
  m (smear k pj pi) j i = true <->
  exists dj di, In dj (shifts pj) /\ In di (shifts pi) /\ inr k (j - dj) (i - di) = true /\ m k (j - dj) (i - di) = true.
Proof. exact smear_spec. Qed.
Print Assumptions C07_smear.

Theorem C07_edge_node_shapes : forall k,
  (nj (left_mask k), ni (left_mask k)) = (nj k, ni k + 1) /\
  (nj (back_mask k), ni (back_mask k)) = (nj k + 1, ni k) /\
  (nj (node_mask k), ni (node_mask k)) = (nj k + 1, ni k + 1).
Proof. exact c_mask_shapes. Qed.
Print Assumptions C07_edge_node_shapes.

Theorem C07_left_edges : forall k j i, m (left_mask k) j i = mget k j (i - 1) || mget k j i.
Proof. exact left_mask_spec. Qed.
Print Assumptions C07_left_edges.
Theorem C07_back_edges : forall k j i, m (back_mask k) j i = mget k (j - 1) i || mget k j i.
Proof. exact back_mask_spec. Qed.
Print Assumptions C07_back_edges.
Theorem C07_nodes : forall k j i,
  m (node_mask k) j i = mget k (j - 1) (i - 1) || mget k (j - 1) i || mget k j (i - 1) || mget k j i.
Proof. exact node_mask_spec. Qed.
Print Assumptions C07_nodes.

(* enlarging the mask or the buffer never unmarks a cell *)
Theorem C07_monotone_grid : forall k k' s s' j i,
  nj k = nj k' -> ni k = ni k' -> (forall a b, inr k a b = true -> m k a b = true -> m k' a b = true) ->
  0 <= s <= s' -> inr k j i = true -> blur_at k s j i = true -> blur_at k' s' j i = true.
Proof. exact blur_monotone. Qed.
Print Assumptions C07_monotone_grid.

(* meshes: one ring = every face sharing a node with a selected face, in face order *)
Theorem C07_buffer_faces : forall fn sel f,
  In f (buffer_faces fn sel) <->
  0 <= f < Z.of_nat (length fn) /\
  (In f sel \/ exists n, In n (nth (Z.to_nat f) fn []) /\ In n (nodes_of fn sel)).
Proof. exact buffer_faces_spec. Qed.
Print Assumptions C07_buffer_faces.

Theorem C07_buffer_sorted : forall fn sel, StronglySorted Z.lt (buffer_faces fn sel).
Proof. exact buffer_faces_sorted. Qed.
Print Assumptions C07_buffer_sorted.

Theorem C07_monotone_mesh : forall fn sel sel' f,
  incl sel sel' -> In f (buffer_faces fn sel) -> In f (buffer_faces fn sel').
Proof. exact buffer_faces_monotone. Qed.
Print Assumptions C07_monotone_mesh.

Theorem C07_buffer_superset : forall fn sel f,
  0 <= f < Z.of_nat (length fn) -> In f sel -> In f (buffer_faces fn sel).
Proof. exact buffer_faces_superset. Qed.
Print Assumptions C07_buffer_superset.

(* kept edges / nodes: exactly the distinct members of the kept faces' rows, increasing *)
Theorem C07_kept_elements : forall size xs x, In x (sort_unique size xs) <-> 0 <= x < size /\ In x xs.
Proof. exact sort_unique_spec. Qed.
Print Assumptions C07_kept_elements.

Theorem C07_kept_sorted : forall size xs, StronglySorted Z.lt (sort_unique size xs).
Proof. exact sort_unique_sorted. Qed.
Print Assumptions C07_kept_sorted.

(* renumbering is contiguous and in original order *)
Theorem C07_renumber : forall kept, StronglySorted Z.lt kept ->
  (forall k x, nth_error kept k = Some x -> position_in x kept = Some (Z.of_nat k)) /\
  (forall x, ~ In x kept -> position_in x kept = None).
Proof. exact renumber_sorted. Qed.
Print Assumptions C07_renumber.

(* documentation of the defect fixed in /repo (f342373): numbering in the spatial index's order is not monotone *)
Theorem C07_renumber_unsorted_refuted : exists kept, new_index_table 2 kept = [Some 1; Some 0].
Proof. exact renumber_unsorted_refuted. Qed.
Print Assumptions C07_renumber_unsorted_refuted.

(* ---- clip regions with a hole (an outer ring minus the open inside of a convex hole) ---- *)

(* a cell is marked exactly when it has geometry, meets the outer ring and has a vertex outside the open hole *)
Theorem C07_region_with_hole : forall ps outer hole n,
  In n (hits_holed ps outer hole) <->
  0 <= n /\ exists r, nth_error ps (Z.to_nat n) = Some (Some r) /\ ring_meets_ring r outer = true /\
                      exists v, In v r /\ in_open_hole hole v = false.
Proof. exact hits_holed_spec. Qed.
Print Assumptions C07_region_with_hole.

(* cutting a hole out of a region never marks a cell the whole region does not mark *)
Theorem C07_hole_only_removes : forall ps outer hole n, In n (hits_holed ps outer hole) -> In n (hits_ring ps outer).
Proof. exact hits_holed_subset. Qed.
Print Assumptions C07_hole_only_removes.

(* a cell lying in the open hole is not marked *)
Theorem C07_cell_in_hole_unmarked : forall ps outer hole n r, nth_error ps (Z.to_nat n) = Some (Some r) ->
  forallb (in_open_hole hole) r = true -> ~ In n (hits_holed ps outer hole).
Proof. exact in_hole_not_hit. Qed.
Print Assumptions C07_cell_in_hole_unmarked.
