(* C17 - saving with the EMS fixes: the rewritten time units string. *)
From Coq Require Import ZArith List Bool.
From EV Require Import Model.TimeUnits Proofs.TimeUnitsP Model.TimeCoord Proofs.TimeCoordP Model.SaveFixes Proofs.SaveFixesP.
Import ListNotations.
Open Scope Z_scope.

(* every UTC offset strictly between -24 h and +24 h - negative, fractional-hour and single-digit-hour ones
   included - is written so that it is read back exactly *)
Theorem C17_offset_roundtrip : forall off, -1440 < off < 1440 -> parse_zone (format_offset off) = Some off.
Proof. exact offset_roundtrip. Qed.
Print Assumptions C17_offset_roundtrip.

Theorem C17_offset_shape : forall off, -6000 < off < 6000 ->
  exists sg a b c d, format_offset off = [sg; a; b; ch_colon; c; d] /\
    (sg = ch_plus \/ sg = ch_minus) /\ forallb is_digit [a; b; c; d] = true.
Proof. exact offset_shape. Qed.
Print Assumptions C17_offset_shape.

(* the string denotes the same reference instant as the original *)
Theorem C17_same_instant : forall utc off r, -1440 < off < 1440 ->
  parse_zone (format_offset off) = Some r -> utc_of (utc + off) r = utc.
Proof. exact same_instant. Qed.
Print Assumptions C17_same_instant.

(* '<unit> since YYYY-MM-DD HH:MM:SS [+-]HH:MM' *)
Theorem C17_shape : forall period f off,
  0 <= year f < 10000 -> 0 <= month f < 100 -> 0 <= day f < 100 -> 0 <= hour f < 100 ->
  0 <= minute f < 100 -> 0 <= second f < 100 -> -6000 < off < 6000 ->
  exists tail, render period f off = period ++ tail /\ shape_tail tail = true.
Proof. exact render_shape. Qed.
Print Assumptions C17_shape.

(* _FillValue: None is recorded exactly for variables that need no promotion and carry no fill value *)
Theorem C17_disable_fill : forall p e a, disable_fill p e a = true <-> p = false /\ e = false /\ a = false.
Proof. exact disable_fill_spec. Qed.
Print Assumptions C17_disable_fill.

(* documentation of the defect repaired in /repo (db07e4e): the previous formatter *)
Theorem C17_old_negative_fraction_refuted :
  exists off, -1440 < off < 1440 /\ parse_zone (format_offset_old off) <> Some off.
Proof. exact old_negative_fraction_refuted. Qed.
Print Assumptions C17_old_negative_fraction_refuted.

Theorem C17_old_single_digit_hour_refuted :
  exists off, -1440 < off < 1440 /\ parse_zone (format_offset_old off) = None.
Proof. exact old_single_digit_hour_refuted. Qed.
Print Assumptions C17_old_single_digit_hour_refuted.

(* ---- which variable is saved as the time variable (Convention.time_coordinate) ---- *)

(* never the bounds of another variable ... *)
Theorem C17_time_coordinate_not_bounds : forall vs v, time_coordinate vs = Some v ->
  forall w, In w vs -> tv_bounds w <> Some (tv_name v).
Proof. exact not_bounds. Qed.
Print Assumptions C17_time_coordinate_not_bounds.

(* ... a decoded time variable of the dataset, the first one in dataset order that qualifies *)
Theorem C17_time_coordinate_first : forall vs v, time_coordinate vs = Some v ->
  (In v vs /\ tv_since v = true /\ tv_datetime v = true) /\
  exists pre post, vs = pre ++ v :: post /\ forall u, In u pre -> eligible (bounds_names vs) u = false.
Proof. intros vs v H. split; [exact (is_time vs v H)|exact (first_eligible vs v H)]. Qed.
Print Assumptions C17_time_coordinate_first.

Theorem C17_time_coordinate_none_iff : forall vs,
  time_coordinate vs = None <-> forall u, In u vs -> eligible (bounds_names vs) u = false.
Proof. exact none_iff. Qed.
Print Assumptions C17_time_coordinate_none_iff.

(* a time coordinate with bounds is found whether its bounds are listed before or after it *)
Theorem C17_time_bounds_position_irrelevant : forall pre post t b,
  tv_since t = true -> tv_datetime t = true -> tv_bounds t = Some (tv_name b) -> tv_bounds b = None ->
  tv_name t <> tv_name b ->
  (forall u, In u (pre ++ post) -> tv_since u && tv_datetime u = false) ->
  (forall u, In u (pre ++ post) -> tv_bounds u <> Some (tv_name t)) ->
  show (time_coordinate (pre ++ b :: t :: post)) = Some (tv_name t) /\
  show (time_coordinate (pre ++ t :: b :: post)) = Some (tv_name t).
Proof. exact bounds_position_irrelevant. Qed.
Print Assumptions C17_time_bounds_position_irrelevant.

(* documentation of the defect repaired in /repo (171c774) *)
Theorem C17_old_time_coordinate_takes_bounds_refuted :
  exists vs v w, time_coordinate_old vs = Some v /\ In w vs /\ tv_bounds w = Some (tv_name v).
Proof. exact old_takes_bounds_refuted. Qed.
Print Assumptions C17_old_time_coordinate_takes_bounds_refuted.

(* ---- missing-value declarations of the saved file (model SaveFixes of disable_default_fill_value + the writer's rule) ---- *)

(* every variable - coordinates included - is written with exactly the fill value its source declared: none gains one,
   none loses or changes one *)
Theorem C17_no_fill_value_gained : forall vs, saved vs = map (fun v => (s_name v, declared_fill v)) vs.
Proof. exact saved_spec. Qed.
Print Assumptions C17_no_fill_value_gained.

(* the fix-up touches nothing but the encoding entry of variables that declared nothing, and doing it again changes nothing *)
Theorem C17_fixup_minimal : forall v, s_name (disable_one v) = s_name v /\ s_attr (disable_one v) = s_attr v /\
  s_has_nan (disable_one v) = s_has_nan v /\ (declared_fill v <> None -> disable_one v = v).
Proof. exact disable_one_keeps. Qed.
Print Assumptions C17_fixup_minimal.

Theorem C17_fixup_idempotent : forall v, disable_one (disable_one v) = disable_one v.
Proof. exact disable_idempotent. Qed.
Print Assumptions C17_fixup_idempotent.

(* it is needed, and it is needed on coordinate variables too *)
Theorem C17_without_fixup_refuted : exists v, written_fill v <> declared_fill v.
Proof. exact without_fixup_refuted. Qed.
Print Assumptions C17_without_fixup_refuted.

Theorem C17_data_variables_only_refuted :
  exists vs, saved_data_only vs <> map (fun p : svar * bool => (s_name (fst p), declared_fill (fst p))) vs.
Proof. exact data_only_refuted. Qed.
Print Assumptions C17_data_variables_only_refuted.
