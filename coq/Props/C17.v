(* C17 - saving with the EMS fixes: the rewritten time units string. *)
From Coq Require Import ZArith List Bool.
From EV Require Import Model.TimeUnits Proofs.TimeUnitsP.
Import ListNotations.
Open Scope Z_scope.

(* every UTC offset strictly between -24 h and +24 h - negative, fractional-hour and single-digit-hour ones
   included - is written so that it is read back exactly *)
Theorem C17_offset_roundtrip : forall off, -1440 < off < 1440 -> parse_zone (format_offset off) = Some off.
Proof. exact offset_roundtrip. Qed.
Print Assumptions C17_offset_roundtrip.

Theorem C17_offset_shape : forall off, -6000 < off < 6000 ->
  exists sg a b c d, format_offset off = [sg; a; b; ch_colon; c; d] /\
    (sg = ch_plus \/ sg = ch_minus) /\ forallb is_digit [a; b; c; d] = true.
Proof. exact offset_shape. Qed.
Print Assumptions C17_offset_shape.

(* the string denotes the same reference instant as the original *)
Theorem C17_same_instant : forall utc off r, -1440 < off < 1440 ->
  parse_zone (format_offset off) = Some r -> utc_of (utc + off) r = utc.
Proof. exact same_instant. Qed.
Print Assumptions C17_same_instant.

(* '<unit> since YYYY-MM-DD HH:MM:SS [+-]HH:MM' *)
Theorem C17_shape : forall period f off,
  0 <= year f < 10000 -> 0 <= month f < 100 -> 0 <= day f < 100 -> 0 <= hour f < 100 ->
  0 <= minute f < 100 -> 0 <= second f < 100 -> -6000 < off < 6000 ->
  exists tail, render period f off = period ++ tail /\ shape_tail tail = true.
Proof. exact render_shape. Qed.
Print Assumptions C17_shape.

(* _FillValue: None is recorded exactly for variables that need no promotion and carry no fill value *)
Theorem C17_disable_fill : forall p e a, disable_fill p e a = true <-> p = false /\ e = false /\ a = false.
Proof. exact disable_fill_spec. Qed.
Print Assumptions C17_disable_fill.

(* documentation of the defect repaired in /repo (db07e4e): the previous formatter *)
Theorem C17_old_negative_fraction_refuted :
  exists off, -1440 < off < 1440 /\ parse_zone (format_offset_old off) <> Some off.
Proof. exact old_negative_fraction_refuted. Qed.
Print Assumptions C17_old_negative_fraction_refuted.

Theorem C17_old_single_digit_hour_refuted :
  exists off, -1440 < off < 1440 /\ parse_zone (format_offset_old off) = None.
Proof. exact old_single_digit_hour_refuted. Qed.
Print Assumptions C17_old_single_digit_hour_refuted.
