(* C04 - point lookup returns exactly the lowest-indexed intersecting cell.
   Parametric in the intersection predicate [meets]; proofs in Proofs/LookupP.v. *)
From Coq Require Import ZArith QArith List Bool Permutation.
From EV Require Import Base.Index Base.Geom Model.Lookup Proofs.LookupP.
Import ListNotations.
Open Scope Z_scope.

(* the spatial index's hits are the linear indexes of the polygons that meet the query; holes never hit *)
Theorem C04_hits_are_linear : forall (G : Type) (meets : ring -> G -> bool) ps g n,
  In n (hits meets ps g) <-> 0 <= n /\ exists r, nth_error ps (Z.to_nat n) = Some (Some r) /\ meets r g = true.
Proof. exact @hits_spec. Qed.
Print Assumptions C04_hits_are_linear.

(* for every order in which the tree may report the hits: the result is an intersecting cell with geometry,
   and no intersecting cell has a lower linear index *)
Theorem C04_lowest_intersecting : forall (G : Type) (meets : ring -> G -> bool) ps g hs n,
  Permutation hs (hits meets ps g) -> first_of hs = Some n ->
  0 <= n /\
  (exists r, nth_error ps (Z.to_nat n) = Some (Some r) /\ meets r g = true) /\
  (forall m r, 0 <= m < n -> nth_error ps (Z.to_nat m) = Some (Some r) -> meets r g = false).
Proof. exact @lookup_any_order. Qed.
Print Assumptions C04_lowest_intersecting.

(* no result iff no cell meets the point (never a nearest cell) *)
Theorem C04_none_iff : forall (G : Type) (meets : ring -> G -> bool) ps g hs,
  Permutation hs (hits meets ps g) ->
  (first_of hs = None <->
   forall n r, 0 <= n -> nth_error ps (Z.to_nat n) = Some (Some r) -> meets r g = false).
Proof. exact @lookup_none_iff. Qed.
Print Assumptions C04_none_iff.

Theorem C04_order_irrelevant : forall (G : Type) (meets : ring -> G -> bool) ps g hs,
  Permutation hs (hits meets ps g) -> first_of hs = lookup meets ps g.
Proof. exact @lookup_is_first_of_hits. Qed.
Print Assumptions C04_order_irrelevant.

Theorem C04_first_is_min : forall hs n, first_of hs = Some n <-> In n hs /\ forall m, In m hs -> n <= m.
Proof. exact first_of_min. Qed.
Print Assumptions C04_first_is_min.
