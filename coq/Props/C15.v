(* C15 - geometry export: exactly the cells with polygons, in linear order, each with its own indexes. *)
From Coq Require Import ZArith List Bool Sorted.
From EV Require Import Base.Index Base.ListX Model.IndexConv Model.Export Proofs.ExportP.
Import ListNotations.
Open Scope Z_scope.

Theorem C15_exact_cells : forall (P I : Type) (polys : list (option P)) (wind : Z -> I),
  map (fun t => fst (fst t)) (export polys wind) = positions_where is_some 0 polys.
Proof. exact @export_indexes. Qed.
Print Assumptions C15_exact_cells.

Theorem C15_linear_order : forall (P I : Type) (polys : list (option P)) (wind : Z -> I),
  StronglySorted Z.lt (map (fun t => fst (fst t)) (export polys wind)).
Proof. exact @export_sorted. Qed.
Print Assumptions C15_linear_order.

Theorem C15_feature_iff_cell : forall (P I : Type) (polys : list (option P)) (wind : Z -> I) n idx p,
  In (n, idx, p) (export polys wind) <-> 0 <= n /\ idx = wind n /\ nth_error polys (Z.to_nat n) = Some (Some p).
Proof. exact @export_spec. Qed.
Print Assumptions C15_feature_iff_cell.

Theorem C15_count : forall (P I : Type) (polys : list (option P)) (wind : Z -> I),
  length (export polys wind) = length (filter is_some polys).
Proof. exact @export_length. Qed.
Print Assumptions C15_count.

(* the recorded native index identifies that same cell in the dataset *)
Theorem C15_attrs_identify : forall (P : Type) (g : grids) (polys : list (option P)) n idx p,
  wf g -> In (n, Some idx, p) (export_dataset g polys) -> ravel_index g idx = Some n.
Proof. exact @export_index_identifies. Qed.
Print Assumptions C15_attrs_identify.
