(* C11 - convention detection and binding are deterministic and stable. *)
From Coq Require Import ZArith List Bool.
From EV Require Import Model.Registry Proofs.RegistryP.
Import ListNotations.
Open Scope Z_scope.

(* the class chosen matches, none matches with higher specificity, and every class listed before it is strictly less
   specific (ties go to the earliest in registry.conventions) *)
Theorem C11_guess_max_first : forall check convs c, guess check convs = Some c ->
  exists s l1 l2, check c = Some s /\ convs = l1 ++ c :: l2 /\
    (forall c' s', In c' convs -> check c' = Some s' -> s' <= s) /\
    (forall c' s', In c' l1 -> check c' = Some s' -> s' < s).
Proof. exact guess_spec. Qed.
Print Assumptions C11_guess_max_first.

(* a dataset nothing matches is refused, and only such a dataset *)
Theorem C11_none_iff_no_match : forall check convs, guess check convs = None <-> forall c, In c convs -> check c = None.
Proof. exact guess_none_iff. Qed.
Print Assumptions C11_none_iff_no_match.

(* a manually registered convention wins ties, whatever the order of registration *)
Theorem C11_registered_wins_ties : forall check registered eps r e sr se,
  In r registered -> ~ In e registered -> check r = Some sr -> check e = Some se -> se <= sr ->
  guess check (conventions registered eps) <> Some e.
Proof. exact registered_wins_ties. Qed.
Print Assumptions C11_registered_wins_ties.

Theorem C11_shoc_over_cf : forall f convs c,
  In ShocSimple convs -> ems_version f = true -> has_ji f = true ->
  guess (check_builtin f) convs = Some c -> c <> CFGrid1D /\ c <> CFGrid2D.
Proof. exact shoc_over_cf. Qed.
Print Assumptions C11_shoc_over_cf.

Theorem C11_shoc_standard_over_cf : forall f convs c,
  In ShocStandard convs -> shoc_coords f = true ->
  guess (check_builtin f) convs = Some c -> c <> CFGrid1D /\ c <> CFGrid2D.
Proof. exact shoc_standard_over_cf. Qed.
Print Assumptions C11_shoc_standard_over_cf.

Theorem C11_ugrid_needs_marker_and_mesh : forall f convs,
  guess (check_builtin f) convs = Some UGrid -> ugrid_marker f = true /\ mesh_var f = true /\ topo_dim2 f = true.
Proof. exact ugrid_needs_marker_and_mesh. Qed.
Print Assumptions C11_ugrid_needs_marker_and_mesh.

(* binding: over every history of accesses, constructions, bindings and copies *)
Theorem C11_bound_stable : forall g ops s d ob,
  lookup d (bound s) = Some ob -> lookup d (bound (fst (run g s ops))) = Some ob.
Proof. exact bound_stable. Qed.
Print Assumptions C11_bound_stable.

Theorem C11_access_returns_bound : forall g s d ob, lookup d (bound s) = Some ob ->
  exists c, step g s (Access d) = (s, OObj ob c).
Proof. exact access_returns_bound. Qed.
Print Assumptions C11_access_returns_bound.

Theorem C11_rebind_refused : forall g s d ob c ct, lookup d (bound s) = Some ob -> lookup d (content s) = Some ct ->
  snd (step g s (Bind d c)) = ORefused /\ bound (fst (step g s (Bind d c))) = bound s.
Proof. exact rebind_refused. Qed.
Print Assumptions C11_rebind_refused.

Theorem C11_copy_fresh_and_independent : forall g s d s' d', wf s -> step g s (Copy d) = (s', ONewDataset d') ->
  lookup d' (bound s') = None /\ lookup d' (content s') = lookup d (content s) /\ bound s' = bound s.
Proof. exact copy_fresh. Qed.
Print Assumptions C11_copy_fresh_and_independent.

Theorem C11_reachable_wf : forall g ops ct, wf (fst (run g (init ct) ops)).
Proof. intros. apply wf_run, wf_init. Qed.
Print Assumptions C11_reachable_wf.

Theorem C11_objects_not_shared : forall g ops ct d1 d2 ob,
  let s := fst (run g (init ct) ops) in
  lookup d1 (bound s) = Some ob -> lookup d2 (bound s) = Some ob -> d1 = d2.
Proof. exact objects_not_shared. Qed.
Print Assumptions C11_objects_not_shared.
