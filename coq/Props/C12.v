(* C12 - ocean floor extraction returns the deepest valid value of every water column. *)
From Coq Require Import ZArith List Bool.
From EV Require Import Model.Depth Model.FloorPlan Proofs.DepthP Proofs.FloorPlanP.
Import ListNotations.
Open Scope Z_scope.

(* the floor index (argmax of the running count of valid layers, first maximum) is the last layer holding data *)
Theorem C12_floor_deepest : forall (V : Type) (col : list (option V)) k v,
  nth_error col k = Some (Some v) ->
  (forall j o, (k < j)%nat -> nth_error col j = Some o -> valid o = false) ->
  floor_index col = k /\ floor_value col = Some v.
Proof. exact @floor_index_deepest. Qed.
Print Assumptions C12_floor_deepest.

(* a column that is missing throughout gives a missing value *)
Theorem C12_all_missing : forall (V : Type) (col : list (option V)),
  (forall o, In o col -> valid o = false) -> floor_index col = O /\ floor_value col = None.
Proof. exact @floor_all_missing. Qed.
Print Assumptions C12_all_missing.

(* every column (gaps included) is one of the two cases *)
Theorem C12_total : forall (V : Type) (col : list (option V)),
  (exists k v, nth_error col k = Some (Some v) /\
               (forall j o, (k < j)%nat -> nth_error col j = Some o -> valid o = false) /\
               floor_value col = Some v) \/
  ((forall o, In o col -> valid o = false) /\ floor_value col = None).
Proof. exact @floor_value_total. Qed.
Print Assumptions C12_total.

(* whichever way the depth axis is oriented or signed, the reduction of the stored column is the floor value of the
   physical column (surface first) *)
Theorem C12_orientation_independent : forall (V : Type) (up deep_first : bool) (depths : list Z) (col : list (option V)),
  incr depths -> (2 <= length depths)%nat ->
  let '(vs, data) := encode_col up deep_first depths col in
  ocean_floor_col {| attr := if up then PUp else PDown; vals := vs; bnds := None |} data = Some (floor_value col).
Proof. exact @ocean_floor_orientation_independent. Qed.
Print Assumptions C12_orientation_independent.

(* static sea floor: the index found on the reference variable is every variable's and every time's own floor *)
Theorem C12_static_floor : forall (V W : Type) (ref : list (option W)) (col : list (option V)),
  map valid ref = map valid col -> floor_value_ref ref col = floor_value col.
Proof. exact @static_floor. Qed.
Print Assumptions C12_static_floor.

(* outside the property's quantifier (documented behaviour): with a moving floor the reference variable decides *)
Theorem C12_moving_floor_refuted : exists (ref col : list (option Z)), floor_value_ref ref col <> floor_value col.
Proof. exact moving_floor_refuted. Qed.
Print Assumptions C12_moving_floor_refuted.

(* ---- which variables are reduced (model FloorPlan of the loops in ocean_floor) ---- *)

(* all other variables are left as they were: a variable without a depth dimension is untouched and keeps every dimension *)
Theorem C12_other_variables_untouched : forall dds ns skip vs v, (forall d, In d dds -> ~ In d (v_dims v)) ->
  action_of dds ns skip vs v = Untouched /\ result_dims dds v = v_dims v.
Proof. exact no_depth_untouched. Qed.
Print Assumptions C12_other_variables_untouched.

(* every data variable with a depth dimension and a horizontal one is reduced - none is skipped or dropped - at the floor
   located in a data variable on the same depth and horizontal dimensions *)
Theorem C12_every_depth_variable_reduced : forall dds ns skip vs v dd, In v vs -> depth_dim_of dds v = Some dd ->
  has (v_name v) skip = false -> spatial dd ns v <> [] ->
  exists r, action_of dds ns skip vs v = Floored dd (v_name r) /\ In r vs /\ has dd (v_dims r) = true /\
            has (v_name r) skip = false /\ same_set (spatial dd ns r) (spatial dd ns v) = true.
Proof. exact depth_variable_floored. Qed.
Print Assumptions C12_every_depth_variable_reduced.

(* the bounds of the depth coordinates (the names in skip) are never reduced and never locate a floor *)
Theorem C12_depth_bounds_go_with_the_dimension : forall dds ns skip vs v dd, depth_dim_of dds v = Some dd ->
  has (v_name v) skip = true -> action_of dds ns skip vs v = Dropped.
Proof. exact depth_bounds_dropped. Qed.
Print Assumptions C12_depth_bounds_go_with_the_dimension.

(* variables on the same depth and horizontal dimensions share that reference *)
Theorem C12_group_shares_reference : forall dd ns skip vs v w,
  same_set (spatial dd ns v) (spatial dd ns w) = true -> reference dd ns skip vs v = reference dd ns skip vs w.
Proof. exact group_shares_reference. Qed.
Print Assumptions C12_group_shares_reference.

(* the depth dimensions are removed and every other dimension stays *)
Theorem C12_depth_dimensions_removed : forall dds v d, In d (result_dims dds v) <-> In d (v_dims v) /\ ~ In d dds.
Proof. exact result_dims_spec. Qed.
Print Assumptions C12_depth_dimensions_removed.

(* the order in which the depth dimensions are visited (sorted by hash in the code) does not matter *)
Theorem C12_depth_dimension_order_irrelevant : forall dds dds' ns skip vs v,
  (forall d, In d dds <-> In d dds') ->
  (forall d d', In d dds -> In d' dds -> In d (v_dims v) -> In d' (v_dims v) -> d = d') ->
  action_of dds ns skip vs v = action_of dds' ns skip vs v.
Proof. exact action_order_independent. Qed.
Print Assumptions C12_depth_dimension_order_irrelevant.
