(* C12 - ocean floor extraction returns the deepest valid value of every water column. *)
From Coq Require Import ZArith List Bool.
From EV Require Import Model.Depth Model.FloorPlan Model.DepthCoord Proofs.DepthP Proofs.FloorPlanP Proofs.DepthCoordP.
Import ListNotations.
Open Scope Z_scope.

(* the floor index (argmax of the running count of valid layers, first maximum) is the last layer holding data *)
Theorem C12_floor_deepest : forall (V : Type) (col : list (option V)) k v,
  nth_error col k = Some (Some v) ->
  (forall j o, (k < j)%nat -> nth_error col j = Some o -> valid o = false) ->
  floor_index col = k /\ floor_value col = Some v.
Proof. exact @floor_index_deepest. Qed.
Print Assumptions C12_floor_deepest.

(* a column that is missing throughout gives a missing value *)
Theorem C12_all_missing : forall (V : Type) (col : list (option V)),
  (forall o, In o col -> valid o = false) -> floor_index col = O /\ floor_value col = None.
Proof. exact @floor_all_missing. Qed.
Print Assumptions C12_all_missing.

(* every column (gaps included) is one of the two cases *)
Theorem C12_total : forall (V : Type) (col : list (option V)),
  (exists k v, nth_error col k = Some (Some v) /\
               (forall j o, (k < j)%nat -> nth_error col j = Some o -> valid o = false) /\
               floor_value col = Some v) \/
  ((forall o, In o col -> valid o = false) /\ floor_value col = None).
Proof. exact @floor_value_total. Qed.
Print Assumptions C12_total.

(* whichever way the depth axis is oriented or signed, the reduction of the stored column is the floor value of the
   physical column (surface first) *)
Theorem C12_orientation_independent : forall (V : Type) (up deep_first : bool) (depths : list Z) (col : list (option V)),
  incr depths -> (2 <= length depths)%nat ->
  let '(vs, data) := encode_col up deep_first depths col in
  ocean_floor_col {| attr := if up then PUp else PDown; vals := vs; bnds := None |} data = Some (floor_value col).
Proof. exact @ocean_floor_orientation_independent. Qed.
Print Assumptions C12_orientation_independent.

(* static sea floor: the index found on the reference variable is every variable's and every time's own floor *)
Theorem C12_static_floor : forall (V W : Type) (ref : list (option W)) (col : list (option V)),
  map valid ref = map valid col -> floor_value_ref ref col = floor_value col.
Proof. exact @static_floor. Qed.
Print Assumptions C12_static_floor.

(* outside the property's quantifier (documented behaviour): with a moving floor the reference variable decides *)
Theorem C12_moving_floor_refuted : exists (ref col : list (option Z)), floor_value_ref ref col <> floor_value col.
Proof. exact moving_floor_refuted. Qed.
Print Assumptions C12_moving_floor_refuted.

(* ---- which variables are reduced (model FloorPlan of the loops in ocean_floor) ---- *)

(* all other variables are left as they were: a variable without a depth dimension is untouched and keeps every dimension *)
Theorem C12_other_variables_untouched : forall dds ns skip vs v, (forall d, In d dds -> ~ In d (v_dims v)) ->
  action_of dds ns skip vs v = Untouched /\ result_dims dds v = v_dims v.
Proof. exact no_depth_untouched. Qed.
Print Assumptions C12_other_variables_untouched.

(* every data variable with a depth dimension and a horizontal one is reduced - none is skipped or dropped - at the floor
   located in a data variable on the same depth and horizontal dimensions *)
Theorem C12_every_depth_variable_reduced : forall dds ns skip vs v dd, In v vs -> depth_dim_of dds v = Some dd ->
  has (v_name v) skip = false -> spatial dd ns v <> [] ->
  exists r, action_of dds ns skip vs v = Floored dd (v_name r) /\ In r vs /\ has dd (v_dims r) = true /\
            has (v_name r) skip = false /\ same_set (spatial dd ns r) (spatial dd ns v) = true.
Proof. exact depth_variable_floored. Qed.
Print Assumptions C12_every_depth_variable_reduced.

(* the bounds of the depth coordinates (the names in skip) are never reduced and never locate a floor *)
Theorem C12_depth_bounds_go_with_the_dimension : forall dds ns skip vs v dd, depth_dim_of dds v = Some dd ->
  has (v_name v) skip = true -> action_of dds ns skip vs v = Dropped.
Proof. exact depth_bounds_dropped. Qed.
Print Assumptions C12_depth_bounds_go_with_the_dimension.

(* variables on the same depth and horizontal dimensions share that reference *)
Theorem C12_group_shares_reference : forall dd ns skip vs v w,
  same_set (spatial dd ns v) (spatial dd ns w) = true -> reference dd ns skip vs v = reference dd ns skip vs w.
Proof. exact group_shares_reference. Qed.
Print Assumptions C12_group_shares_reference.

(* the depth dimensions are removed and every other dimension stays *)
Theorem C12_depth_dimensions_removed : forall dds v d, In d (result_dims dds v) <-> In d (v_dims v) /\ ~ In d dds.
Proof. exact result_dims_spec. Qed.
Print Assumptions C12_depth_dimensions_removed.

(* the order in which the depth dimensions are visited (sorted by hash in the code) does not matter *)
Theorem C12_depth_dimension_order_irrelevant : forall dds dds' ns skip vs v,
  (forall d, In d dds <-> In d dds') ->
  (forall d d', In d dds -> In d' dds -> In d (v_dims v) -> In d' (v_dims v) -> d = d') ->
  action_of dds ns skip vs v = action_of dds' ns skip vs v.
Proof. exact action_order_independent. Qed.
Print Assumptions C12_depth_dimension_order_irrelevant.

(* ---- which variables are the depth coordinates that ocean_floor (and normalize_depth_variables) are handed ---- *)

(* a variable is a depth coordinate exactly when it carries one of the five markers and lies on no grid; dataset order *)
Theorem C12_depth_coordinates_spec : forall grids vs c,
  (In c (depth_coordinates grids vs) <-> In c vs /\ marked c = true /\ grid_kind grids (dv_dims c) = None) /\
  (forall a b, depth_coordinates grids (a ++ b) = depth_coordinates grids a ++ depth_coordinates grids b).
Proof. intros grids vs c. split; [apply dc_spec|intros a b; apply dc_app]. Qed.
Print Assumptions C12_depth_coordinates_spec.

(* a bathymetry (a variable on a grid, whatever its attributes) and a variable without markers never change the answer *)
Theorem C12_bathymetry_is_not_a_depth_coordinate : forall grids pre v post,
  ((exists k, grid_kind grids (dv_dims v) = Some k) \/ marked v = false) ->
  depth_coordinates grids (pre ++ v :: post) = depth_coordinates grids (pre ++ post).
Proof.
  intros grids pre v post [[k H]|H]; apply dc_ignores; [now apply bathymetry_not_depth with k|].
  unfold is_depth. now rewrite H.
Qed.
Print Assumptions C12_bathymetry_is_not_a_depth_coordinate.

(* each marker alone is enough, and `positive` is read without regard to case *)
Theorem C12_depth_markers : forall grids v, grid_kind grids (dv_dims v) = None ->
  ((a_axis v = Some s_Z \/ a_cartesian_axis v = Some s_Z \/ a_coordinate_type v = Some s_Z \/ a_standard_name v = Some s_depth
    \/ a_positive v = Some s_up \/ a_positive v = Some s_down) -> is_depth grids v = true) /\
  (forall p, is_depth grids (with_positive v (Some (upper p))) = is_depth grids (with_positive v (Some p))).
Proof. intros grids v H. split; [now apply any_marker|intros p; apply positive_any_case]. Qed.
Print Assumptions C12_depth_markers.

(* the grid kind of a variable: first kind (convention order) whose dimensions it has; refused iff none; the order of the
   variable's own dimensions plays no part *)
Theorem C12_grid_kind : forall grids dims,
  (forall k, grid_kind grids dims = Some k ->
     exists pre ds post, grids = pre ++ (k, ds) :: post /\ (forall x, In x ds -> In x dims)
                         /\ forall u, In u pre -> subset (snd u) dims = false) /\
  (grid_kind grids dims = None <-> forall g, In g grids -> exists x, In x (snd g) /\ ~ In x dims) /\
  (forall dims', (forall x, In x dims <-> In x dims') -> grid_kind grids dims = grid_kind grids dims').
Proof.
  intros grids dims. split; [intros k; apply grid_kind_first|split; [apply grid_kind_none|intros d'; apply grid_kind_dims_order]].
Qed.
Print Assumptions C12_grid_kind.

(* the default depth coordinate: a depth coordinate of least size, the first such in dataset order; none iff there is none *)
Theorem C12_default_depth_coordinate : forall grids vs,
  (forall c, depth_coordinate grids vs = Some c ->
     In c (depth_coordinates grids vs) /\ (forall c', In c' (depth_coordinates grids vs) -> size c <= size c')
     /\ exists pre post, depth_coordinates grids vs = pre ++ c :: post /\ forall u, In u pre -> size c < size u) /\
  (depth_coordinate grids vs = None <-> forall v, In v vs -> is_depth grids v = false).
Proof. intros grids vs. split; [intros c; apply depth_coordinate_spec|apply depth_coordinate_none]. Qed.
Print Assumptions C12_default_depth_coordinate.

(* the depth coordinate of one variable: the only depth coordinate whose dimensions the variable has; two that fit are
   refused, never resolved silently; none that fits is refused *)
Theorem C12_depth_coordinate_for_array : forall grids vs dims,
  (forall c, for_array grids vs dims = Found c ->
     In c (depth_coordinates grids vs) /\ (forall x, In x (dv_dims c) -> In x dims)
     /\ forall c', In c' (depth_coordinates grids vs) -> (forall x, In x (dv_dims c') -> In x dims) -> c' = c) /\
  (for_array grids vs dims = NoCoordinate <->
     forall c, In c (depth_coordinates grids vs) -> exists x, In x (dv_dims c) /\ ~ In x dims) /\
  (forall c1 c2 pre mid post, depth_coordinates grids vs = pre ++ c1 :: mid ++ c2 :: post ->
     (forall x, In x (dv_dims c1) -> In x dims) -> (forall x, In x (dv_dims c2) -> In x dims) ->
     for_array grids vs dims = Ambiguous).
Proof.
  intros grids vs dims. split; [intros c; apply for_array_found|split; [apply for_array_none|]].
  intros c1 c2 pre mid post. apply for_array_two_refused.
Qed.
Print Assumptions C12_depth_coordinate_for_array.

(* SHOC: the fixed names that are present, in the fixed order, whatever the order of the variables in the file *)
Theorem C12_shoc_depth_coordinates : forall fixed vs,
  (forall n, In n (shoc_depth_coordinates fixed vs) <-> In n fixed /\ exists v, In v vs /\ dv_name v = n) /\
  (forall vs', Permutation.Permutation vs vs' ->
     shoc_depth_coordinates fixed vs = shoc_depth_coordinates fixed vs' /\
     shoc_depth_coordinate fixed vs = shoc_depth_coordinate fixed vs').
Proof. intros fixed vs. split; [intros n; apply shoc_spec|intros vs'; apply shoc_order_free]. Qed.
Print Assumptions C12_shoc_depth_coordinates.

(* non-vacuity: a layer coordinate, an interface coordinate, a sediment coordinate and a bathymetry labelled positive: down *)
Theorem C12_depth_coordinates_example : observe ex_grids ex_vs [[30; 20; 10; 11]; [10; 11]; [20; 21]] =
  ([2; 3; 4], Some 3, [(0, 2); (1, -1); (2, -1)], [Some 0; None; None; None]).
Proof. exact ex_observe. Qed.
Print Assumptions C12_depth_coordinates_example.
