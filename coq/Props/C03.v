(* C03 - flattening and winding variables are exact inverses.
   Statements only; proofs are in Proofs/FlattenP.v. *)
From Coq Require Import ZArith List.
From EV Require Import Base.Index Base.LArr Model.Flatten Proofs.FlattenP Proofs.FlattenP2.
Import ListNotations.
Open Scope Z_scope.

(* flatten then wind: the original value under every labelling, grid dimensions restored in the convention's
   order after the other dimensions, whose order is untouched; for any rank, any position and order of the grid
   dimensions in the variable, default or custom linear name *)
Theorem C03_wind_ravel : forall (A : Type) (a : larr A) G lin r, wf a -> ravel_dims G lin a = Some r ->
  exists w, wind_dim G (map (size_of a) G) (last (dims r) 0) r = Some w /\
    dims w = others a G ++ G /\
    sizes w = map (size_of a) (others a G ++ G) /\
    forall env, env_in a env -> get w env = get a env.
Proof. exact @wind_ravel. Qed.
Print Assumptions C03_wind_ravel.

(* the converse: wind flat data onto a grid (the linear dimension anywhere among the dimensions), flatten it again
   under the same linear name: the original values under the original labels; the linear dimension ends up last *)
Theorem C03_ravel_wind : forall (A : Type) (y : larr A) G gs lin w r,
  NoDup (dims y) -> length (sizes y) = length (dims y) -> NoDup G -> G <> [] ->
  (forall d, In d G -> ~ In d (dims y)) -> pos_shape gs ->
  wind_dim G gs lin y = Some w -> ravel_dims G (Some lin) w = Some r ->
  dims r = filter (fun d => negb (Z.eqb d lin)) (dims y) ++ [lin] /\
  forall env, env_in y env -> get r env = get y env.
Proof. exact @ravel_wind. Qed.
Print Assumptions C03_ravel_wind.

(* values are only moved: the flattened value at (labels, n) is the original value at (labels, unravel n) *)
Theorem C03_ravel_get : forall (A : Type) (a : larr A) G lin r env', ravel_dims G lin a = Some r ->
  get r env' = get a (env_of a G (last (dims r) 0) env').
Proof. exact @ravel_get. Qed.
Print Assumptions C03_ravel_get.

Theorem C03_ravel_shape : forall (A : Type) (a : larr A) G lin r, ravel_dims G lin a = Some r ->
  exists l, dims r = others a G ++ [l] /\ ~ In l (others a G) /\
    sizes r = map (size_of a) (others a G) ++ [prod (map (size_of a) G)].
Proof. exact @ravel_dims_shape. Qed.
Print Assumptions C03_ravel_shape.

(* a variable that is not defined on any grid is refused *)
Theorem C03_unknown_grid_refused : forall (A : Type) (kinds : grid_dims) lin (a : larr A),
  (forall k G, In (k, G) kinds -> ~ incl G (dims a)) -> conv_ravel kinds lin a = None.
Proof. exact @unknown_grid_refused. Qed.
Print Assumptions C03_unknown_grid_refused.

Theorem C03_grid_kind_first : forall (A : Type) (kinds : grid_dims) (a : larr A) k G,
  get_grid_kind kinds a = Some (k, G) -> In (k, G) kinds /\ incl G (dims a).
Proof. exact @grid_kind_first. Qed.
Print Assumptions C03_grid_kind_first.

(* the default linear dimension name is never one already in use *)
Theorem C03_unused_dim_fresh : forall ds, ~ In (find_unused ds) ds.
Proof. exact find_unused_fresh. Qed.
Print Assumptions C03_unused_dim_fresh.
