(* C19 - plot artists pair every value with its own cell. *)
From Coq Require Import ZArith List Bool.
From EV Require Import Base.Index Base.ListX Model.Export Proofs.ExportP.
From EV Require Import Model.DepthCoord Model.PlotArgs Proofs.PlotArgsP.
Import ListNotations.
Open Scope Z_scope.

(* selecting with the same mask keeps patches and values paired *)
Theorem C19_pairing : forall (A B : Type) (m : list bool) (xs : list A) (ys : list B),
  length xs = length m -> length ys = length m ->
  combine (compress m xs) (compress m ys) = compress m (combine xs ys).
Proof. exact @compress_pairs. Qed.
Print Assumptions C19_pairing.

Theorem C19_collection_pairs : forall (P V : Type) (polys : list (option P)) (values : list V),
  length values = length polys ->
  let '(patches, vals) := poly_collection polys values in
  combine (map Some patches) vals = compress (map is_some polys) (combine polys values).
Proof. exact @poly_collection_pairs. Qed.
Print Assumptions C19_collection_pairs.

(* a (patch, value) pair is plotted iff it is the polygon and the value of one and the same cell; holes contribute nothing *)
Theorem C19_collection_spec : forall (P V : Type) (polys : list (option P)) (values : list V) p v,
  length values = length polys ->
  (In (Some p, v) (compress (map is_some polys) (combine polys values)) <->
   exists n, nth_error polys n = Some (Some p) /\ nth_error values n = Some v).
Proof. exact @poly_collection_spec. Qed.
Print Assumptions C19_collection_spec.

(* default colour limits are attained by plotted values and bound all of them *)
Theorem C19_clim_spans : forall vs lo hi, clim vs = (Some lo, Some hi) ->
  (forall y, In (Some y) vs -> lo <= y <= hi) /\ In (Some lo) vs /\ In (Some hi) vs.
Proof. exact clim_spans. Qed.
Print Assumptions C19_clim_spans.

Theorem C19_quiver_same_cell : forall (C V : Type) (centres : list C) (u v : list V) n c a b,
  nth_error (quiver centres u v) n = Some (c, a, b) ->
  nth_error centres n = Some c /\ nth_error u n = Some a /\ nth_error v n = Some b.
Proof. exact @quiver_same_cell. Qed.
Print Assumptions C19_quiver_same_cell.

(* ---- what is drawn and what is refused, as decided by the arguments ---- *)

(* values of a variable colour the patches only when the variable lies on the grid of the cells and has no other dimension;
   clim then comes from the data unless the caller gave one; the caller's transform is the one used *)
Theorem C19_values_only_from_the_cells_grid : forall grids default dims ha hc ht c t,
  make_poly_collection grids default (Some dims) ha hc ht = PCollection FromData c t ->
  ha = false /\ grid_kind grids dims = Some default /\ (forall x, In x dims -> In x (dims_of grids default)) /\ t = ht
  /\ c = (if hc then FromUser else FromData).
Proof. exact poly_from_data. Qed.
Print Assumptions C19_values_only_from_the_cells_grid.

(* a variable with a leftover non-spatial dimension is refused *)
Theorem C19_leftover_dimension_refused : forall grids default dims ha hc ht d,
  In d dims -> ~ In d (dims_of grids default) ->
  forall a c t, make_poly_collection grids default (Some dims) ha hc ht <> PCollection a c t.
Proof. exact poly_leftover_refused. Qed.
Print Assumptions C19_leftover_dimension_refused.

(* a variable of another grid kind (mesh nodes, edges) is refused, however many locations that grid has *)
Theorem C19_other_grid_refused : forall grids default dims hc ht k,
  grid_kind grids dims = Some k -> k <> default ->
  make_poly_collection grids default (Some dims) false hc ht = POtherGrid /\
  make_quiver grids default (Some dims) (Some dims) ht = QOtherGrid.
Proof. intros. split; [now apply poly_other_grid_refused with k|now apply quiver_other_grid_refused with k]. Qed.
Print Assumptions C19_other_grid_refused.

(* array / clim / transform supplied by the caller are used as given *)
Theorem C19_user_overrides : forall grids default arg ha hc ht a c t,
  make_poly_collection grids default arg ha hc ht = PCollection a c t ->
  t = ht /\ (hc = true -> c = FromUser) /\ (a = FromUser <-> (arg = None /\ ha = true))
  /\ (hc = false -> c = FromData -> a = FromData).
Proof. exact poly_user_overrides. Qed.
Print Assumptions C19_user_overrides.

(* arrows carry components only when both are given with identical dimensions, on the cells' grid, nothing left over *)
Theorem C19_quiver_components : forall grids default u v ht c t,
  make_quiver grids default u v ht = QArrows c t ->
  t = ht /\ (c = FromData -> exists d, u = Some d /\ v = Some d /\ grid_kind grids d = Some default
                                     /\ forall x, In x d -> In x (dims_of grids default))
  /\ (c <> FromData -> c = Absent /\ (u = None \/ v = None)).
Proof. exact quiver_from_data. Qed.
Print Assumptions C19_quiver_components.
