(* C19 - plot artists pair every value with its own cell. *)
From Coq Require Import ZArith List Bool.
From EV Require Import Base.Index Base.ListX Model.Export Proofs.ExportP.
Import ListNotations.
Open Scope Z_scope.

(* selecting with the same mask keeps patches and values paired *)
Theorem C19_pairing : forall (A B : Type) (m : list bool) (xs : list A) (ys : list B),
  length xs = length m -> length ys = length m ->
  combine (compress m xs) (compress m ys) = compress m (combine xs ys).
Proof. exact @compress_pairs. Qed.
Print Assumptions C19_pairing.

Theorem C19_collection_pairs : forall (P V : Type) (polys : list (option P)) (values : list V),
  length values = length polys ->
  let '(patches, vals) := poly_collection polys values in
  combine (map Some patches) vals = compress (map is_some polys) (combine polys values).
Proof. exact @poly_collection_pairs. Qed.
Print Assumptions C19_collection_pairs.

(* a (patch, value) pair is plotted iff it is the polygon and the value of one and the same cell; holes contribute nothing *)
Theorem C19_collection_spec : forall (P V : Type) (polys : list (option P)) (values : list V) p v,
  length values = length polys ->
  (In (Some p, v) (compress (map is_some polys) (combine polys values)) <->
   exists n, nth_error polys n = Some (Some p) /\ nth_error values n = Some v).
Proof. exact @poly_collection_spec. Qed.
Print Assumptions C19_collection_spec.

(* default colour limits are attained by plotted values and bound all of them *)
Theorem C19_clim_spans : forall vs lo hi, clim vs = (Some lo, Some hi) ->
  (forall y, In (Some y) vs -> lo <= y <= hi) /\ In (Some lo) vs /\ In (Some hi) vs.
Proof. exact clim_spans. Qed.
Print Assumptions C19_clim_spans.

Theorem C19_quiver_same_cell : forall (C V : Type) (centres : list C) (u v : list V) n c a b,
  nth_error (quiver centres u v) n = Some (c, a, b) ->
  nth_error centres n = Some c /\ nth_error u n = Some a /\ nth_error v n = Some b.
Proof. exact @quiver_same_cell. Qed.
Print Assumptions C19_quiver_same_cell.
