(* C07 (grids): masking.blur_mask, masking.smear_mask, arakawa_c.c_mask_from_centres and
   CFGrid.make_clip_mask / ArakawaC.make_clip_mask (flat write of the spatial-index hits, then blur). *)
From Coq Require Import ZArith List Lia Bool.
From EV Require Import Base.Index.
Import ListNotations.
Open Scope Z_scope.

Record mask := { nj : Z; ni : Z; m : Z -> Z -> bool }.

Definition inr (k : mask) (j i : Z) : bool := (0 <=? j) && (j <? nj k) && (0 <=? i) && (i <? ni k).

(* value with False outside the array: numpy.pad(arr, ..., constant_values=False) *)
Definition mget (k : mask) (j i : Z) : bool := if inr k j i then m k j i else false.

(* ---- blur_mask(arr, size) ---- *)
(* padded = numpy.pad(arr, size): padded[j, i] = arr[j - size, i - size] *)
Definition padded (k : mask) (s : Z) (j i : Z) : bool := mget k (j - s) (i - s).

(* arr[idx] or any(padded[j : j + 2 size + 1, i : i + 2 size + 1]) *)
Definition blur_at (k : mask) (s : Z) (j i : Z) : bool :=
  m k j i || existsb (fun j' => existsb (fun i' => padded k s j' i') (zrange i (2 * s + 1))) (zrange j (2 * s + 1)).

Definition blur (k : mask) (s : Z) : mask := {| nj := nj k; ni := ni k; m := blur_at k s |}.

(* ---- smear_mask(arr, [pj, pi]) ---- *)
(* numpy.pad(arr, ((a,b),(c,d)))[j, i] = arr[j - a, i - c]; paddings are (1,0) / (0,1) on smeared axes *)
Definition shifts (p : bool) : list Z := if p then [1; 0] else [0].

Definition smear (k : mask) (pj pi : bool) : mask :=
  {| nj := nj k + (if pj then 1 else 0); ni := ni k + (if pi then 1 else 0);
     m := fun j i => existsb (fun dj => existsb (fun di => mget k (j - dj) (i - di)) (shifts pi)) (shifts pj) |}.

(* c_mask_from_centres *)
Definition left_mask (k : mask) := smear k false true.
Definition back_mask (k : mask) := smear k true false.
Definition node_mask (k : mask) := smear k true true.

(* ---- make_clip_mask: mask.ravel()[hits] = True, then blur when buffer > 0 ---- *)
Definition memz (x : Z) (l : list Z) : bool := existsb (Z.eqb x) l.

Definition mask_of_hits (ny nx : Z) (hits : list Z) : mask :=
  {| nj := ny; ni := nx; m := fun j i => memz (j * nx + i) hits |}.

Definition grid_clip_mask (ny nx : Z) (hits : list Z) (buffer : Z) : mask :=
  let k := mask_of_hits ny nx hits in
  if 0 <? buffer then blur k buffer else k.

(* ---- executable encodings for the correspondence check: a mask as the integer whose bit j*ni+i is cell (j,i) ---- *)
Definition of_bits (nj0 ni0 : Z) (bits : Z) : mask :=
  {| nj := nj0; ni := ni0; m := fun j i => Z.testbit bits (j * ni0 + i) |}.

Definition to_bits (k : mask) : Z :=
  fold_left (fun acc n => if mget k (n / ni k) (n mod ni k) then Z.setbit acc n else acc)
            (zrange 0 (nj k * ni k)) 0.

Definition blur_bits (nj0 ni0 s bits : Z) : Z := to_bits (blur (of_bits nj0 ni0 bits) s).
Definition smear_bits (nj0 ni0 : Z) (pj pi : bool) (bits : Z) : Z := to_bits (smear (of_bits nj0 ni0 bits) pj pi).
Definition clip_bits (ny nx : Z) (hits : list Z) (buffer : Z) : Z := to_bits (grid_clip_mask ny nx hits buffer).
