(* Which variables of a saved file carry a _FillValue attribute
   (src/emsarray/utils.py: disable_default_fill_value, _get_variables; the writer is xarray's, modelled here by the rule it
   documents: an encoding entry wins - None meaning "write no fill value" -, then the attribute, then the default NaN for
   types that have a NaN).  A fill value is a number; its identity is all that matters. *)
From Coq Require Import ZArith List Bool.
Import ListNotations.
Open Scope Z_scope.

Record svar := {
  s_name : Z;
  s_has_nan : bool;                 (* maybe_promote(dtype) == dtype: floats, datetimes, objects *)
  s_enc : option (option Z);        (* encoding['_FillValue']: absent / None / a value *)
  s_attr : option Z                 (* attrs['_FillValue'] *)
}.

Definition default_fill : Z := -1.   (* stands for NaN / NaT, which no declared fill value of the generators equals *)

Definition disable_one (v : svar) : svar :=
  if s_has_nan v && negb (match s_enc v with Some _ => true | None => false end)
                 && negb (match s_attr v with Some _ => true | None => false end)
  then {| s_name := s_name v; s_has_nan := s_has_nan v; s_enc := Some None; s_attr := s_attr v |}
  else v.

(* every variable of the dataset, coordinates included *)
Definition disable_default_fill_value (vs : list svar) : list svar := map disable_one vs.

(* what the writer stores as the _FillValue attribute of the variable in the file *)
Definition written_fill (v : svar) : option Z :=
  match s_enc v with
  | Some e => e
  | None => match s_attr v with
            | Some a => Some a
            | None => if s_has_nan v then Some default_fill else None
            end
  end.

(* what the source declared *)
Definition declared_fill (v : svar) : option Z :=
  match s_enc v with
  | Some e => e
  | None => s_attr v
  end.

Definition saved (vs : list svar) : list (Z * option Z) :=
  map (fun v => (s_name v, written_fill v)) (disable_default_fill_value vs).

(* the variant that skips coordinate variables (is_coord flags) *)
Definition saved_data_only (vs : list (svar * bool)) : list (Z * option Z) :=
  map (fun p : svar * bool => (s_name (fst p), written_fill (if snd p then fst p else disable_one (fst p)))) vs.
