(* C09 (keeping some data variables leaves the geometry as it was; C05: geometry variables are absent from selections):
   Convention.get_all_geometry_names of CFGrid / UGrid / ArakawaC, Convention.select_variables, Convention.drop_geometry.
   Variables are numbered; `vars` is the dataset's variable list in dataset order. *)
From Coq Require Import ZArith List Bool.
Import ListNotations.
Open Scope Z_scope.

Definition memz (x : Z) (l : list Z) : bool := existsb (Z.eqb x) l.
Definition opt (o : option Z) : list Z := match o with Some x => [x] | None => [] end.

(* a bounds variable counts only when the dataset has it *)
Definition present (o : option Z) (vars : list Z) : list Z :=
  match o with Some b => if memz b vars then [b] else [] | None => [] end.

(* CFGrid.get_all_geometry_names: longitude, latitude, then the longitude bounds and the latitude bounds that exist *)
Definition grid_names (lon lat : Z) (lon_bounds lat_bounds : option Z) (vars : list Z) : list Z :=
  [lon; lat] ++ present lon_bounds vars ++ present lat_bounds vars.

(* UGrid.get_all_geometry_names: the optional tables are those the topology holds as valid, in this fixed order *)
Record mesh := { m_var : Z; m_face_node : Z; m_node_x : Z; m_node_y : Z;
                 m_face_edge : option Z; m_face_face : option Z; m_edge_node : option Z; m_edge_face : option Z;
                 m_edge_x : option Z; m_edge_y : option Z; m_face_x : option Z; m_face_y : option Z }.

Definition ugrid_names (m : mesh) : list Z :=
  [m_var m; m_face_node m; m_node_x m; m_node_y m] ++ opt (m_face_edge m) ++ opt (m_face_face m) ++ opt (m_edge_node m)
  ++ opt (m_edge_face m) ++ opt (m_edge_x m) ++ opt (m_edge_y m) ++ opt (m_face_x m) ++ opt (m_face_y m).

(* ArakawaC.get_all_geometry_names: longitude, latitude of face, node, left, back *)
Definition arakawa_names (face node left back : Z * Z) : list Z :=
  [fst face; snd face; fst node; snd node; fst left; snd left; fst back; snd back].

Definition keep_set (chosen geom depth : list Z) (time : option Z) : list Z := chosen ++ geom ++ depth ++ opt time.

(* Convention.select_variables: None = a requested variable is not in the dataset (ValueError) *)
Definition select_variables (vars chosen geom depth : list Z) (time : option Z) : option (list Z) :=
  if forallb (fun c => memz c vars) chosen
  then Some (filter (fun v => memz v (keep_set chosen geom depth time)) vars)
  else None.

(* Convention.drop_geometry *)
Definition drop_geometry (vars geom : list Z) : list Z := filter (fun v => negb (memz v geom)) vars.
