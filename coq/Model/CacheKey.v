(* C16: operations/cache.py + Convention.hash_geometry - the byte stream fed to the hash.
   Bytes are integers 0..255; strings are ASCII (one byte per character). *)
From Coq Require Import ZArith List Lia Bool.
Import ListNotations.
Open Scope Z_scope.

(* numpy.int32(value).tobytes(): little endian two's complement *)
Definition i32 (v : Z) : list Z :=
  let u := v mod 4294967296 in
  [u mod 256; (u / 256) mod 256; (u / 65536) mod 256; (u / 16777216) mod 256].

Definition in_i32 (v : Z) : Prop := -2147483648 <= v <= 2147483647.

(* hash_string: length, then the UTF-8 bytes *)
Definition enc_str (s : list Z) : list Z := i32 (Z.of_nat (length s)) ++ s.

(* one geometry variable as hash_geometry feeds it *)
Record gvar := {
  name : list Z;
  dtype : list Z;          (* dtype name, e.g. "float64" *)
  shape : list Z;
  data : list Z;           (* to_numpy().tobytes('C') *)
  n_attrs : Z;
  attr_bytes : list Z      (* marshal.dumps(attrs, 4) *)
}.

Definition prod (s : list Z) : Z := fold_right Z.mul 1 s.

Definition enc_var (v : gvar) : list Z :=
  enc_str (name v) ++ enc_str (dtype v) ++ i32 (prod (shape v)) ++ flat_map i32 (shape v) ++ data v ++
  i32 4 ++ i32 (n_attrs v) ++ i32 (Z.of_nat (length (attr_bytes v))) ++ attr_bytes v.

(* make_cache_key: every geometry variable in inventory order, then module, class name, emsarray version *)
Definition stream (vars : list gvar) (module cls version : list Z) : list Z :=
  flat_map enc_var vars ++ enc_str module ++ enc_str cls ++ enc_str version.
