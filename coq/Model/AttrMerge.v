(* C08 (attributes pass through) / C09 (the result can be saved): utils.dataset_like and utils._update_no_clobber, as far as
   the attributes and encodings of one variable go.  A dict is an insertion-ordered list of (key, value) with values numbered. *)
From Coq Require Import ZArith List Bool.
Import ListNotations.
Open Scope Z_scope.

Definition dict := list (Z * Z).

Definition has (k : Z) (d : dict) : bool := existsb (fun kv => Z.eqb (fst kv) k) d.

Definition get (k : Z) (d : dict) : option Z := option_map snd (find (fun kv => Z.eqb (fst kv) k) d).

(* for key, value in source.items(): if key not in dest: dest[key] = value *)
Definition update_no_clobber (source dest : dict) : dict :=
  fold_left (fun d kv => if has (fst kv) d then d else d ++ [kv]) source dest.

(* the loop body of dataset_like for one variable: sample attributes whose name the new variable holds in its encoding are
   not restored; everything else the new variable lacks is copied from the sample *)
Definition like_var (s_attrs s_enc n_attrs n_enc : dict) : dict * dict :=
  (update_no_clobber (filter (fun kv => negb (has (fst kv) n_enc)) s_attrs) n_attrs, update_no_clobber s_enc n_enc).

(* before the repair d4bc755: every sample attribute was restored *)
Definition like_var_old (s_attrs s_enc n_attrs n_enc : dict) : dict * dict :=
  (update_no_clobber s_attrs n_attrs, update_no_clobber s_enc n_enc).

(* a variable xarray can write: no name is both an attribute and an encoding entry *)
Definition consistent (attrs enc : dict) : bool := forallb (fun kv => negb (has (fst kv) enc)) attrs.
