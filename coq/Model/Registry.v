(* C11: conventions/_registry.py (which convention handles a dataset), accessors.py + state.py + Convention.bind
   (binding a convention object to a dataset). *)
From Coq Require Import ZArith List Lia Bool.
Import ListNotations.
Open Scope Z_scope.

(* ---------------- what check_dataset looks at ---------------- *)
Record features := {
  lat_dims : option Z;       (* number of dimensions of the first variable carrying a CF latitude marker *)
  lon_dims : option Z;
  ems_version : bool;        (* global attribute ems_version present *)
  has_ji : bool;             (* dimensions include both j and i *)
  shoc_coords : bool;        (* the eight SHOC standard coordinate variables are all present *)
  ugrid_marker : bool;       (* 'UGRID' in the Conventions global attribute *)
  mesh_var : bool;           (* a data variable with cf_role = mesh_topology *)
  topo_dim2 : bool           (* its topology_dimension attribute equals 2 *)
}.

Definition LOW := 10. Definition MEDIUM := 20. Definition HIGH := 30.

(* the built-in classes *)
Definition ArakawaC := 1. Definition CFGrid1D := 2. Definition CFGrid2D := 3.
Definition ShocSimple := 4. Definition ShocStandard := 5. Definition UGrid := 6.

Definition both (f : features) (n : Z) : bool :=
  match lat_dims f, lon_dims f with Some a, Some b => (a =? n) && (b =? n) | _, _ => false end.

(* check_dataset of each built-in class; `extra` gives the answer of manually registered classes (ids > 6) *)
Definition check_builtin (f : features) (c : Z) : option Z :=
  if c =? ArakawaC then None                                       (* no coordinate_names on the base class *)
  else if c =? CFGrid1D then (if both f 1 then Some LOW else None)
  else if c =? CFGrid2D then (if both f 2 then Some LOW else None)
  else if c =? ShocSimple then (if ems_version f && has_ji f then Some HIGH else None)
  else if c =? ShocStandard then (if shoc_coords f then Some HIGH else None)
  else if c =? UGrid then (if ugrid_marker f && mesh_var f && topo_dim2 f then Some HIGH else None)
  else None.

(* ---------------- the registry ---------------- *)
Definition memz (x : Z) (l : list Z) : bool := existsb (Z.eqb x) l.

(* registry.conventions: registered first, then entry points, duplicates removed (first occurrence kept) *)
Fixpoint dedupe (seen l : list Z) : list Z :=
  match l with
  | [] => []
  | x :: r => if memz x seen then dedupe seen r else x :: dedupe (x :: seen) r
  end.
Definition conventions (registered entry_points : list Z) : list Z := dedupe [] (registered ++ entry_points).

(* match_conventions: the matching classes with their specificity, sorted(..., key=specificity, reverse=True).
   Python's sort is stable, also with reverse=True: equal keys keep their order. *)
Fixpoint insert_desc (x : Z * Z) (l : list (Z * Z)) : list (Z * Z) :=
  match l with
  | [] => [x]
  | y :: r => if snd x <? snd y then y :: insert_desc x r else x :: y :: r
  end.
Definition sort_desc (l : list (Z * Z)) : list (Z * Z) := fold_right insert_desc [] l.

Definition matches (check : Z -> option Z) (convs : list Z) : list (Z * Z) :=
  flat_map (fun c => match check c with Some s => [(c, s)] | None => [] end) convs.

Definition match_conventions (check : Z -> option Z) (convs : list Z) : list (Z * Z) := sort_desc (matches check convs).

Definition guess (check : Z -> option Z) (convs : list Z) : option Z :=
  match match_conventions check convs with (c, _) :: _ => Some c | [] => None end.

(* ---------------- binding ---------------- *)
(* datasets and convention objects are numbered in order of creation; a dataset's content decides detection *)
Record st := {
  bound : list (Z * Z);      (* dataset -> bound convention object *)
  cls_of : list (Z * Z);     (* object -> its class *)
  content : list (Z * Z);    (* dataset -> content id (copies share it) *)
  next_ds : Z;
  next_obj : Z
}.

Fixpoint lookup (k : Z) (l : list (Z * Z)) : option Z :=
  match l with [] => None | (a, b) :: r => if a =? k then Some b else lookup k r end.

Inductive op := Access (d : Z) | Bind (d : Z) (c : Z) | Copy (d : Z).
Inductive out := OObj (o : Z) (c : Z) | ORefused | OUnknown | ONewDataset (d : Z).

Section Binding.
  Variable guess_content : Z -> option Z.        (* content id -> class chosen by the registry *)

  Definition step (s : st) (o : op) : st * out :=
    match o with
    | Access d =>
        match lookup d (bound s) with
        | Some ob => (s, OObj ob (match lookup ob (cls_of s) with Some c => c | None => 0 end))
        | None =>
            match lookup d (content s) with
            | None => (s, OUnknown)
            | Some ct =>
                match guess_content ct with
                | None => (s, OUnknown)                            (* RuntimeError: could not determine convention *)
                | Some c =>
                    let ob := next_obj s in
                    ({| bound := (d, ob) :: bound s; cls_of := (ob, c) :: cls_of s; content := content s;
                        next_ds := next_ds s; next_obj := ob + 1 |}, OObj ob c)
                end
            end
        end
    | Bind d c =>
        (* Convention(dataset) constructs a fresh object, .bind() refuses when the dataset is already bound *)
        match lookup d (content s) with
        | None => (s, OUnknown)
        | Some _ =>
            let ob := next_obj s in
            match lookup d (bound s) with
            | Some _ => ({| bound := bound s; cls_of := (ob, c) :: cls_of s; content := content s;
                            next_ds := next_ds s; next_obj := ob + 1 |}, ORefused)
            | None => ({| bound := (d, ob) :: bound s; cls_of := (ob, c) :: cls_of s; content := content s;
                          next_ds := next_ds s; next_obj := ob + 1 |}, OObj ob c)
            end
        end
    | Copy d =>
        match lookup d (content s) with
        | None => (s, OUnknown)
        | Some ct =>
            let d' := next_ds s in
            ({| bound := bound s; cls_of := cls_of s; content := (d', ct) :: content s;
                next_ds := d' + 1; next_obj := next_obj s |}, ONewDataset d')
        end
    end.

  Fixpoint run (s : st) (ops : list op) : st * list out :=
    match ops with
    | [] => (s, [])
    | o :: r => let '(s1, x) := step s o in let '(s2, xs) := run s1 r in (s2, x :: xs)
    end.
End Binding.

Definition init (ct : Z) : st := {| bound := []; cls_of := []; content := [(0, ct)]; next_ds := 1; next_obj := 0 |}.
