(* C01: native index <-> linear index, as coded in
   emsarray.conventions._base.DimensionConvention.{ravel_index, wind_index, grid_size}
   with the per-convention pack_index / unpack_index of grid.py, arakawa_c.py, ugrid.py. *)
From Coq Require Import ZArith List Lia Bool.
From EV Require Import Base.Index.
Import ListNotations.
Open Scope Z_scope.

(* grid kinds are small integers:
   CF: face = 0;  Arakawa C: face 0, left 1, back 2, node 3;  UGRID: face 0, edge 1, node 2 *)
Definition kind := Z.

Inductive flavour := FCF | FArakawa | FUGrid.

(* A dataset as far as index conversion is concerned: the convention's packing flavour and
   grid_shape (dataset.sizes[d] for d in grid_dimensions[kind]), in the order of the kinds. *)
Record grids := { fl : flavour; shapes : list (kind * list Z) }.

Fixpoint lookup (k : kind) (l : list (kind * list Z)) : option (list Z) :=
  match l with
  | [] => None
  | (k', s) :: r => if Z.eqb k k' then Some s else lookup k r
  end.

(* the native index, uniformly (kind, indexes); for CF the kind is always 0 and the Python
   value is the bare tuple (j, i); for UGRID the Python value is (kind, n) *)
Definition native := (kind * list Z)%type.

(* pack_index: CFGrid returns the indexes, ArakawaC (kind, *indexes), UGrid (kind, indexes[0]) *)
Definition pack (f : flavour) (k : kind) (idx : list Z) : native :=
  match f with
  | FCF => (0, idx)
  | FArakawa => (k, idx)
  | FUGrid => (k, match idx with [] => [] | i :: _ => [i] end)
  end.

(* unpack_index: CFGrid (face, index); ArakawaC / UGrid (index[0], index[1:]) *)
Definition unpack (f : flavour) (n : native) : kind * list Z :=
  match f with
  | FCF => (0, snd n)
  | _ => n
  end.

Definition ravel_index (g : grids) (n : native) : option Z :=
  let (k, idx) := unpack (fl g) n in
  match lookup k (shapes g) with
  | Some s => ravel s idx
  | None => None            (* KeyError on grid_shape[kind] *)
  end.

Definition wind_index (g : grids) (k : kind) (n : Z) : option native :=
  match lookup k (shapes g) with
  | Some s => option_map (pack (fl g) k) (unravel s n)
  | None => None
  end.

Definition grid_size (g : grids) (k : kind) : option Z := option_map prod (lookup k (shapes g)).

(* well-formed: every size >= 1; CF has the single kind 0; UGRID shapes have rank 1 *)
Definition wf_shape (f : flavour) (ks : kind * list Z) : Prop :=
  pos_shape (snd ks) /\
  match f with
  | FCF => fst ks = 0
  | FArakawa => True
  | FUGrid => length (snd ks) = 1%nat
  end.

Definition wf (g : grids) : Prop := Forall (wf_shape (fl g)) (shapes g).

(* tables evaluated by the correspondence check *)
Definition wind_table (g : grids) (k : kind) (lo n : Z) : list (option native) :=
  map (wind_index g k) (zrange lo n).

Definition ravel_table (g : grids) (idxs : list native) : list (option Z) :=
  map (ravel_index g) idxs.
