(* C07 (meshes): ugrid.buffer_faces, ugrid.mask_from_face_indexes, UGrid.make_clip_mask. *)
From Coq Require Import ZArith List Lia Bool Sorted.
From EV Require Import Base.Index Base.ListX Model.Mask.
Import ListNotations.
Open Scope Z_scope.

(* face_node_array as a list of rows of node indexes (masked entries removed: .compressed()) *)
Definition face_nodes := list (list Z).

Definition nodes_of (fn : face_nodes) (faces : list Z) : list Z :=
  flat_map (fun f => nth (Z.to_nat f) fn []) faces.

Definition shares (nodes : list Z) (row : list Z) : bool := existsb (fun n => memz n nodes) row.

(* buffer_faces: every face that is selected or shares a node with a selected face, in face order *)
Definition buffer_faces (fn : face_nodes) (sel : list Z) : list Z :=
  let included := nodes_of fn sel in
  positions_where (fun fr => memz (fst fr) sel || shares included (snd fr)) 0
                  (enum 0 fn).

Fixpoint iter {A} (n : nat) (f : A -> A) (x : A) : A :=
  match n with O => x | S k => iter k f (f x) end.

(* new_element_indexes(size, indexes): new_indexes[indexes] = arange(len(indexes)); masked elsewhere.
   With repeated entries the last assignment wins (numpy); the callers pass distinct indexes. *)
Definition position_in (x : Z) (l : list Z) : option Z :=
  match positions_where (Z.eqb x) 0 l with
  | [] => None
  | p :: r => Some (last r p)
  end.

Definition new_index_table (size : Z) (indexes : list Z) : list (option Z) :=
  map (fun old => position_in old indexes) (zrange 0 size).

(* numpy.sort(numpy.unique(xs)) *)
Definition sort_unique (size : Z) (xs : list Z) : list Z :=
  filter (fun x => memz x xs) (zrange 0 size).

(* mask_from_face_indexes: tables old -> new for faces, edges (if the mesh has an edge dimension), nodes *)
Definition mask_tables (fn : face_nodes) (fe : option (list (list Z))) (nn ne : Z) (faces : list Z) :=
  (new_index_table (Z.of_nat (length fn)) faces,
   match fe with
   | Some fe' => Some (new_index_table ne (sort_unique ne (nodes_of fe' faces)))
   | None => None
   end,
   new_index_table nn (sort_unique nn (nodes_of fn faces))).

(* UGrid.make_clip_mask: hits (sorted - see the C07 finding fixed in /repo), buffer rounds, tables *)
Definition ugrid_clip_faces (fn : face_nodes) (hits : list Z) (buffer : nat) : list Z :=
  iter buffer (buffer_faces fn) (sort_unique (Z.of_nat (length fn)) hits).

Definition ugrid_clip_mask (fn : face_nodes) (fe : option (list (list Z))) (nn ne : Z)
           (hits : list Z) (buffer : nat) :=
  mask_tables fn fe nn ne (ugrid_clip_faces fn hits buffer).
