(* A result remembered under a key (the caches a library keeps for speed: per object, per file name, per shape ...).
   `ask` is the memoised call: it answers from the cache when the key of the request is known, computes and remembers
   otherwise.  What the requests of a session get is `run`.  The model is generic: X requests, K keys, V answers. *)
From Coq Require Import List Bool.
Import ListNotations.

Section Memo.
  Variables X K V : Type.
  Variable key : X -> K.
  Variable f : X -> V.
  Variable keq : K -> K -> bool.

  Definition cache := list (K * V).

  Fixpoint lookup (k : K) (c : cache) : option V :=
    match c with
    | [] => None
    | (k', v) :: r => if keq k k' then Some v else lookup k r
    end.

  Definition ask (c : cache) (x : X) : cache * V :=
    match lookup (key x) c with
    | Some v => (c, v)
    | None => ((key x, f x) :: c, f x)
    end.

  Fixpoint run (c : cache) (xs : list X) : cache * list V :=
    match xs with
    | [] => (c, [])
    | x :: r => let (c1, v) := ask c x in let (c2, vs) := run c1 r in (c2, v :: vs)
    end.

  (* every remembered answer was computed from a request with that key *)
  Definition Inv (c : cache) : Prop := forall k v, lookup k c = Some v -> exists x, key x = k /\ f x = v.
End Memo.
