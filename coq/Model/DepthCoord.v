(* C12 / C13 (which variables are the depth coordinates): conventions/_base.py Convention.depth_coordinates,
   depth_coordinate, get_depth_coordinate_for_data_array, DimensionConvention.get_grid_kind, and the fixed-name lookups
   of conventions/shoc.py.  A variable is described by what the code looks at: its name, its dimensions with their sizes,
   and five attributes as character codes (None = attribute absent). *)
From Coq Require Import ZArith List Bool.
Import ListNotations.
Open Scope Z_scope.

Definition str := list Z.

Record dvar := { dv_name : Z; dv_dims : list Z; dv_sizes : list Z;
                 a_positive : option str; a_axis : option str; a_cartesian_axis : option str;
                 a_coordinate_type : option str; a_standard_name : option str }.

Fixpoint str_eqb (a b : str) : bool :=
  match a, b with
  | [], [] => true
  | x :: a', y :: b' => Z.eqb x y && str_eqb a' b'
  | _, _ => false
  end.

(* str.lower() on ASCII text *)
Definition lower_char (c : Z) : Z := if (65 <=? c) && (c <=? 90) then c + 32 else c.
Definition lower (s : str) : str := map lower_char s.
Definition upper_char (c : Z) : Z := if (97 <=? c) && (c <=? 122) then c - 32 else c.
Definition upper (s : str) : str := map upper_char s.

Definition s_up : str := [117; 112].
Definition s_down : str := [100; 111; 119; 110].
Definition s_Z : str := [90].
Definition s_depth : str := [100; 101; 112; 116; 104].

Definition attr_is (a : option str) (s : str) : bool :=
  match a with Some t => str_eqb t s | None => false end.

(* attrs.get('positive', '').lower() in {'up', 'down'} or axis == 'Z' or cartesian_axis == 'Z' or coordinate_type == 'Z'
   or standard_name == 'depth' *)
Definition marked (v : dvar) : bool :=
  (match a_positive v with Some p => str_eqb (lower p) s_up || str_eqb (lower p) s_down | None => false end)
  || attr_is (a_axis v) s_Z || attr_is (a_cartesian_axis v) s_Z || attr_is (a_coordinate_type v) s_Z
  || attr_is (a_standard_name v) s_depth.

Definition memz (x : Z) (l : list Z) : bool := existsb (Z.eqb x) l.
Definition subset (a b : list Z) : bool := forallb (fun x => memz x b) a.

(* DimensionConvention.get_grid_kind: the first grid kind, in the order of grid_dimensions, whose dimensions the
   variable all has; None = ValueError("Unknown grid kind") *)
Definition grid_kind (grids : list (Z * list Z)) (dims : list Z) : option Z :=
  option_map fst (find (fun g => subset (snd g) dims) grids).

Definition on_grid (grids : list (Z * list Z)) (v : dvar) : bool :=
  match grid_kind grids (dv_dims v) with Some _ => true | None => false end.

Definition is_depth (grids : list (Z * list Z)) (v : dvar) : bool := marked v && negb (on_grid grids v).

(* Convention.depth_coordinates: in dataset order *)
Definition depth_coordinates (grids : list (Z * list Z)) (vs : list dvar) : list dvar := filter (is_depth grids) vs.

Definition size (v : dvar) : Z := fold_right Z.mul 1 (dv_sizes v).

(* min(coords, key=size): the first of the smallest *)
Fixpoint min_by_size (best : dvar) (l : list dvar) : dvar :=
  match l with
  | [] => best
  | v :: r => if size v <? size best then min_by_size v r else min_by_size best r
  end.

(* Convention.depth_coordinate; None = NoSuchCoordinateError *)
Definition depth_coordinate (grids : list (Z * list Z)) (vs : list dvar) : option dvar :=
  match depth_coordinates grids vs with
  | [] => None
  | c :: r => Some (min_by_size c r)
  end.

Inductive answer := Found (c : dvar) | NoCoordinate | Ambiguous.

(* Convention.get_depth_coordinate_for_data_array *)
Definition for_array (grids : list (Z * list Z)) (vs : list dvar) (dims : list Z) : answer :=
  match filter (fun c => subset (dv_dims c) dims) (depth_coordinates grids vs) with
  | [] => NoCoordinate
  | [c] => Found c
  | _ => Ambiguous
  end.

(* conventions/shoc.py: the fixed names that are present, in the order of the fixed list (not of the dataset) *)
Definition shoc_depth_coordinates (fixed : list Z) (vs : list dvar) : list Z :=
  filter (fun n => memz n (map dv_name vs)) fixed.

Definition shoc_depth_coordinate (fixed : list Z) (vs : list dvar) : option Z :=
  match fixed with
  | n :: _ => if memz n (map dv_name vs) then Some n else None
  | [] => None
  end.

Definition show_answer (a : answer) : Z * Z :=
  match a with Found c => (0, dv_name c) | NoCoordinate => (1, -1) | Ambiguous => (2, -1) end.

Definition observe (grids : list (Z * list Z)) (vs : list dvar) (arrays : list (list Z)) :=
  (map dv_name (depth_coordinates grids vs), option_map dv_name (depth_coordinate grids vs),
   map (fun d => show_answer (for_array grids vs d)) arrays, map (fun v => grid_kind grids (dv_dims v)) vs).
