(* C18: transect.py Transect.points / distance_along_line.  Vertex k of the path carries its normalised position along
   the line (norm) and the metres accumulated up to it (cum); a point at normalised position t is measured from the LAST
   vertex whose norm is <= t and reported at cum + (its distance from that vertex).  The metre values themselves come from a
   map projection that is not modelled: legs and distances-from-vertex are inputs here. *)
From Coq Require Import ZArith QArith List Bool Lia.
Import ListNotations.
Open Scope Q_scope.

Record vertex := { norm : Q; cum : Q }.

(* next(lp for lp in reversed(self.points) if lp.distance_normalised <= distance_normalised) *)
Fixpoint pick_rev (rv : list vertex) (t : Q) : option vertex :=
  match rv with
  | [] => None
  | v :: r => if Qle_bool (norm v) t then Some v else pick_rev r t
  end.
Definition pick (vs : list vertex) (t : Q) : option vertex := pick_rev (rev vs) t.

(* distance_metres of the vertices: 0, then each leg added to the previous vertex's value *)
Fixpoint accumulate (c : Q) (legs : list Q) : list Q :=
  match legs with
  | [] => [c]
  | l :: r => c :: accumulate (c + l) r
  end.

Definition vertices (norms legs : list Q) : list vertex :=
  map (fun p => {| norm := fst p; cum := snd p |}) (combine norms (accumulate 0 legs)).

(* distance_along_line: None = the StopIteration the code would raise when no vertex qualifies *)
Definition distance_along (vs : list vertex) (t : Q) (d_from : vertex -> Q) : option Q :=
  option_map (fun v => cum v + d_from v) (pick vs t).

(* observation for the correspondence check: index of the picked vertex *)
Fixpoint index_rev (rv : list vertex) (t : Q) (k : nat) : option nat :=
  match rv with
  | [] => None
  | v :: r => if Qle_bool (norm v) t then Some k else match k with O => None | S k' => index_rev r t k' end
  end.
Definition pick_index (norms : list (Z * Z)) (t : Z * Z) : option nat :=
  let q := fun p : Z * Z => fst p # Z.to_pos (snd p) in
  let vs := map (fun p => {| norm := q p; cum := 0 |}) norms in
  index_rev (rev vs) (q t) (length vs - 1).
