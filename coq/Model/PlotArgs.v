(* C19 (what is drawn and what is refused): conventions/_base.py Convention.make_poly_collection and make_quiver, as far as
   their arguments decide the outcome.  A variable is described by its dimensions; `grids` are the grid kinds of the
   convention with their dimensions, in the order of grid_dimensions; `default` is default_grid_kind - the kind whose cells
   the polygons and the face centres are. *)
From Coq Require Import ZArith List Bool.
From EV Require Import Model.DepthCoord.
Import ListNotations.
Open Scope Z_scope.

Inductive source := FromData | FromUser | Absent.

Inductive poly_outcome :=
| PBothArrays                 (* TypeError: both data_array and array *)
| PUnknownGrid                (* ValueError("Unknown grid kind") *)
| POtherGrid                  (* ValueError: the variable lives on another grid kind than the cells *)
| PTooManyDims                (* ValueError: leftover non-spatial dimensions *)
| PCollection (array_src clim_src : source) (user_transform : bool).

Definition dims_of (grids : list (Z * list Z)) (k : Z) : list Z :=
  match find (fun g => Z.eqb (fst g) k) grids with Some g => snd g | None => [] end.

(* the dimensions ravel() leaves besides the linear one *)
Definition leftover (gd dims : list Z) : list Z := filter (fun d => negb (memz d gd)) dims.

Definition is_nil {A : Type} (l : list A) : bool := match l with [] => true | _ => false end.

Definition make_poly_collection (grids : list (Z * list Z)) (default : Z) (arg : option (list Z))
           (has_array has_clim has_transform : bool) : poly_outcome :=
  match arg with
  | None => PCollection (if has_array then FromUser else Absent) (if has_clim then FromUser else Absent) has_transform
  | Some dims =>
      if has_array then PBothArrays else
      match grid_kind grids dims with
      | None => PUnknownGrid
      | Some k =>
          if negb (Z.eqb k default) then POtherGrid
          else if is_nil (leftover (dims_of grids k) dims)
               then PCollection FromData (if has_clim then FromUser else FromData) has_transform
               else PTooManyDims
      end
  end.

Inductive quiver_outcome :=
| QDimsDiffer | QUnknownGrid | QOtherGrid | QTooManyDims
| QArrows (components : source) (user_transform : bool).

Fixpoint list_eqb (a b : list Z) : bool :=
  match a, b with
  | [], [] => true
  | x :: a', y :: b' => Z.eqb x y && list_eqb a' b'
  | _, _ => false
  end.

Definition make_quiver (grids : list (Z * list Z)) (default : Z) (u v : option (list Z)) (has_transform : bool) : quiver_outcome :=
  match u, v with
  | Some du, Some dv =>
      if negb (list_eqb du dv) then QDimsDiffer else
      match grid_kind grids du with
      | None => QUnknownGrid
      | Some k =>
          if negb (Z.eqb k default) then QOtherGrid
          else if is_nil (leftover (dims_of grids k) du) then QArrows FromData has_transform else QTooManyDims
      end
  | _, _ => QArrows Absent has_transform            (* every component NaN *)
  end.

Definition src_code (s : source) : Z := match s with FromData => 0 | FromUser => 1 | Absent => 2 end.

Definition show_poly (o : poly_outcome) : Z * Z * Z * bool :=
  match o with
  | PBothArrays => (1, -1, -1, false) | PUnknownGrid => (2, -1, -1, false) | POtherGrid => (3, -1, -1, false)
  | PTooManyDims => (4, -1, -1, false)
  | PCollection a c t => (0, src_code a, src_code c, t)
  end.

Definition show_quiver (o : quiver_outcome) : Z * Z * bool :=
  match o with
  | QDimsDiffer => (1, -1, false) | QUnknownGrid => (2, -1, false) | QOtherGrid => (3, -1, false) | QTooManyDims => (4, -1, false)
  | QArrows c t => (0, src_code c, t)
  end.
