(* ugrid.py - Mesh2DTopology.has_edge_dimension / edge_dimension / face_dimension: which dimension of the file numbers the
   edges (faces).  Dimension names are numbers.  A table is present when the mesh variable names it AND the file holds it; of
   a present table only the order of its two dimensions matters here. *)
From Coq Require Import ZArith List Bool.
Import ListNotations.
Open Scope Z_scope.

Record mesh := {
  edge_dim_attr : option Z;            (* the edge_dimension attribute of the mesh variable *)
  edge_node : option (Z * Z);          (* dimensions of edge_node_connectivity as stored, if present *)
  edge_face : option (Z * Z);          (* dimensions of edge_face_connectivity as stored, if present *)
  face_dim_attr : option Z;            (* the face_dimension attribute *)
  face_node : Z * Z                    (* dimensions of face_node_connectivity as stored (required) *)
}.

Definition has_edge_dimension (m : mesh) : bool :=
  match edge_dim_attr m, edge_node m, edge_face m with
  | None, None, None => false
  | _, _, _ => true
  end.

(* None = NoEdgeDimensionException *)
Definition edge_dimension (m : mesh) : option Z :=
  match edge_dim_attr m with
  | Some d => Some d
  | None => match edge_node m with
            | Some (d, _) => Some d
            | None => match edge_face m with Some (d, _) => Some d | None => None end
            end
  end.

(* the same lookup taking the LAST present table instead of the first (seeded changes C01-o2, C10-o3) *)
Definition edge_dimension_last (m : mesh) : option Z :=
  match edge_dim_attr m with
  | Some d => Some d
  | None => match edge_face m with
            | Some (d, _) => Some d
            | None => match edge_node m with Some (d, _) => Some d | None => None end
            end
  end.

Definition face_dimension (m : mesh) : Z :=
  match face_dim_attr m with Some d => d | None => fst (face_node m) end.

(* UGRID: a table may be stored with its dimensions in either order, and the *_dimension attribute is required exactly when
   one is stored the other way round.  `e` is the dimension that really numbers the edges. *)
Definition standard_order (e : Z) (t : option (Z * Z)) : bool :=
  match t with Some (d, _) => d =? e | None => true end.

Definition valid_edges (e : Z) (m : mesh) : bool :=
  match edge_dim_attr m with
  | Some d => d =? e
  | None => standard_order e (edge_node m) && standard_order e (edge_face m)
  end.
