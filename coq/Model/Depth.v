(* C12 / C13: operations/depth.py - normalize_depth_variables, _find_ocean_floor_indexes, ocean_floor. *)
From Coq Require Import ZArith List Lia Bool.
Import ListNotations.
Open Scope Z_scope.

(* ---------------- C13: normalize_depth_variables ---------------- *)
(* the `positive` attribute: 'down', 'up', some other string, absent *)
Inductive posattr := PDown | PUp | POther | PNone.

(* one depth coordinate: attribute, values (any exact scale), optional bounds (rows of (lower, upper)) *)
Record coord := { attr : posattr; vals : list Z; bnds : option (list (Z * Z)) }.

(* everything that lives on one depth dimension: its coordinates and, per level, the data stored there
   (A is whatever the data variables hold at one level) *)
Record ddim (A : Type) := { coords : list coord; rows : list A }.
Arguments coords {A}. Arguments rows {A}.

(* no attribute: "if there are more values > 0 than not, positive is probably down" *)
Definition guess_down (v : list Z) : bool :=
  Z.of_nat (length v) <? 2 * Z.of_nat (length (filter (fun x => 0 <? x) v)).

Definition is_down (c : coord) : bool :=
  match attr c with PDown => true | PNone => guess_down (vals c) | _ => false end.

Definition set_attr (pd : option bool) (a : posattr) : posattr :=
  match pd with Some true => PDown | Some false => PUp | None => a end.

Definition neg_pair (p : Z * Z) : Z * Z := (- fst p, - snd p).

Definition negate (c : coord) : coord :=
  {| attr := attr c; vals := map Z.opp (vals c); bnds := option_map (map neg_pair) (bnds c) |}.

Definition rev_coord (c : coord) : coord :=
  {| attr := attr c; vals := rev (vals c); bnds := option_map (@rev _) (bnds c) |}.

Definition reverse_dim {A} (d : ddim A) : ddim A :=
  {| coords := map rev_coord (coords d); rows := rev (rows d) |}.

Fixpoint set_nth {B} (n : nat) (x : B) (l : list B) : list B :=
  match l, n with
  | [], _ => []
  | _ :: t, O => x :: t
  | h :: t, S k => h :: set_nth k x t
  end.

(* one iteration of the loop over depth_coordinates: coordinate number i, whose state in the INPUT dataset
   is `orig` (the code reads the attribute and guesses the sign from the input, not from the working copy).
   None = the code raises (fewer than two levels when an order is requested: `d1, d2 = values[0:2]`). *)
Definition step {A} (pd dts : option bool) (d : ddim A) (i : nat) (orig : coord) : option (ddim A) :=
  match nth_error (coords d) i with
  | None => None
  | Some cur =>
      let c1 := {| attr := set_attr pd (attr cur); vals := vals cur; bnds := bnds cur |} in
      let dpd := is_down orig in
      let '(c2, dpd2) :=
        match pd with
        | Some b => if Bool.eqb dpd b then (c1, dpd) else (negate c1, b)
        | None => (c1, dpd)
        end in
      let d2 := {| coords := set_nth i c2 (coords d); rows := rows d |} in
      match dts with
      | None => Some d2
      | Some want =>
          match vals c2 with
          | v1 :: v2 :: _ =>
              let deep_to_shallow := Bool.eqb (v2 <? v1) dpd2 in
              if Bool.eqb deep_to_shallow want then Some d2 else Some (reverse_dim d2)
          | _ => None
          end
      end
  end.

Fixpoint steps {A} (pd dts : option bool) (d : ddim A) (i : nat) (origs : list coord) : option (ddim A) :=
  match origs with
  | [] => Some d
  | o :: rest => match step pd dts d i o with
                 | Some d' => steps pd dts d' (S i) rest
                 | None => None
                 end
  end.

Definition normalize {A} (pd dts : option bool) (d : ddim A) : option (ddim A) :=
  steps pd dts d 0 (coords d).

(* ---------------- C12: ocean floor ---------------- *)
(* a water column, surface first after normalisation: None = missing *)
Definition valid {V} (o : option V) : bool := match o with Some _ => true | None => false end.

(* (data * 0 + 1).cumsum(depth) with NaN skipped: running count of valid layers *)
Fixpoint cumsum_valid {V} (acc : Z) (col : list (option V)) : list Z :=
  match col with
  | [] => []
  | o :: r => let acc' := if valid o then acc + 1 else acc in acc' :: cumsum_valid acc' r
  end.

(* argmax: first index holding the maximum; 0 for an empty list *)
Fixpoint argmax_from (best_i : nat) (best : Z) (i : nat) (l : list Z) : nat :=
  match l with
  | [] => best_i
  | x :: r => if best <? x then argmax_from i x (S i) r else argmax_from best_i best (S i) r
  end.
Definition argmax (l : list Z) : nat :=
  match l with [] => O | x :: r => argmax_from O x 1%nat r end.

Definition floor_index {V} (col : list (option V)) : nat := argmax (cumsum_valid 0 col).

Definition floor_value {V} (col : list (option V)) : option V :=
  match nth_error col (floor_index col) with Some o => o | None => None end.

(* the reduction of one variable: the floor index comes from a reference column (the group's first variable
   at index 0 of every non-spatial dimension), the value from the variable's own column *)
Definition floor_value_ref {V W} (ref : list (option W)) (col : list (option V)) : option V :=
  match nth_error col (floor_index ref) with Some o => o | None => None end.

(* a physical column (surface first, positive down) as the four encodings a file may use *)
Definition encode_col {V} (up deep_first : bool) (depths : list Z) (col : list V) : list Z * list V :=
  let ds := if up then map Z.opp depths else depths in
  if deep_first then (rev ds, rev col) else (ds, col).

(* ocean_floor on one variable of one depth dimension: normalise (positive down, shallow to deep), reduce *)
Definition ocean_floor_col {V} (c : coord) (col : list (option V)) : option (option V) :=
  match normalize (Some true) (Some false) {| coords := [c]; rows := col |} with
  | Some d => Some (floor_value (rows d))
  | None => None
  end.

(* the same with every coordinate that lives on the depth dimension, in the order they are passed *)
Definition ocean_floor_cols {V} (cs : list coord) (col : list (option V)) : option (option V) :=
  match normalize (Some true) (Some false) {| coords := cs; rows := col |} with
  | Some d => Some (floor_value (rows d))
  | None => None
  end.

(* ---------------- observations for the correspondence check ---------------- *)
Definition show_coord (c : coord) := (attr c, vals c, bnds c).
Definition show_dim {A} (o : option (ddim A)) :=
  match o with Some d => Some (map show_coord (coords d), rows d) | None => None end.
Definition twice {A} (pd dts : option bool) (d : ddim A) :=
  match normalize pd dts d with Some d' => normalize pd dts d' | None => None end.
