(* C10: ugrid.Mesh2DTopology - decoding of connectivity variables (_to_index_array, _get_start_index) and the
   relation between the five connectivity tables (make_edge_node_array, make_face_edge_array,
   make_edge_face_array, make_face_face_array). *)
From Coq Require Import ZArith List Lia Bool.
From EV Require Import Base.Index Base.ListX.
Import ListNotations.
Open Scope Z_scope.

(* ---------------- codec ---------------- *)
(* a stored entry: a number or NaN (float arrays only) *)
Inductive cell := CNum (z : Z) | CNaN.

Record encoding := {
  start_index : Z;            (* 0 or 1 *)
  is_float : bool;            (* float array with NaN for missing (xarray decoded a _FillValue) *)
  fill_attr : option Z;       (* integer array with a _FillValue attribute (mask_and_scale=False / in memory) *)
  transposed : bool           (* stored with the primary dimension second *)
}.

Definition transpose {A} (d : A) (rows : list (list A)) : list (list A) :=
  let ncols := match rows with r :: _ => length r | [] => O end in
  map (fun c => map (fun r => nth c r d) rows) (seq 0 ncols).

(* Mesh2DTopology._to_index_array: None = masked *)
Definition decode_cell (e : encoding) (c : cell) : option Z :=
  match c with
  | CNaN => None                                     (* masked_invalid (float arrays) *)
  | CNum z =>
      if is_float e then Some (z - start_index e)
      else match fill_attr e with
           | Some f => if Z.eqb z f then None else Some (z - start_index e)    (* masked_equal(values, _FillValue) *)
           | None => Some (z - start_index e)
           end
  end.

Definition to_index_array (e : encoding) (raw : list (list cell)) : list (list (option Z)) :=
  let rows := if transposed e then transpose CNaN raw else raw in
  map (map (decode_cell e)) rows.

(* .compressed() of a row *)
Definition compress (row : list (option Z)) : list Z :=
  flat_map (fun o => match o with Some z => [z] | None => [] end) row.

(* how a writer stores a ragged table of zero-based indexes under an encoding *)
Definition fill_cell (e : encoding) : cell :=
  if is_float e then CNaN else match fill_attr e with Some f => CNum f | None => CNum 0 end.

Definition encode_row (e : encoding) (width : nat) (row : list Z) : list cell :=
  map (fun z => CNum (z + start_index e)) row ++ repeat (fill_cell e) (width - length row).

Definition encode (e : encoding) (width : nat) (m : list (list Z)) : list (list cell) :=
  let rows := map (encode_row e width) m in
  if transposed e then transpose CNaN rows else rows.

(* ---------------- the relation between the tables ---------------- *)
Definition table := list (list Z).       (* compressed rows *)

Definition row (t : table) (k : Z) : list Z := nth (Z.to_nat k) t [].

(* consecutive node pairs of a face, last back to first: _face_and_node_pair_iter *)
Definition node_pairs (f : list Z) : list (Z * Z) :=
  match f with [] => [] | v :: _ => combine f (tl f ++ [v]) end.

Definition same_pair (p q : Z * Z) : bool :=
  (Z.eqb (fst p) (fst q) && Z.eqb (snd p) (snd q)) || (Z.eqb (fst p) (snd q) && Z.eqb (snd p) (fst q)).

Definition edge_pair (en : table) (e : Z) : option (Z * Z) :=
  match row en e with [a; b] => Some (a, b) | _ => None end.

Definition memz (x : Z) (l : list Z) : bool := existsb (Z.eqb x) l.

(* a face's k-th edge is the edge on its k-th consecutive node pair *)
Definition face_edges_ok (fn en fe : table) : bool :=
  (length fe =? length fn)%nat &&
  forallb (fun fr =>
    let pairs := node_pairs (fst fr) in
    (length (snd fr) =? length pairs)%nat &&
    forallb (fun pe => match edge_pair en (snd pe) with
                       | Some q => same_pair (fst pe) q
                       | None => false end)
            (combine pairs (snd fr)))
    (combine fn fe).

(* the edge list has no duplicate unordered pair and covers exactly the pairs of the faces *)
Fixpoint no_dup_pairs (ps : list (Z * Z)) : bool :=
  match ps with
  | [] => true
  | p :: r => negb (existsb (same_pair p) r) && no_dup_pairs r
  end.

Definition all_edge_pairs (en : table) : list (option (Z * Z)) :=
  map (fun r => match r with [a; b] => Some (a, b) | _ => None end) en.

Definition edge_nodes_ok (fn en : table) : bool :=
  forallb (fun o => match o with Some _ => true | None => false end) (all_edge_pairs en) &&
  let ps := flat_map (fun o => match o with Some p => [p] | None => [] end) (all_edge_pairs en) in
  no_dup_pairs ps &&
  (* every edge lies on some face *)
  forallb (fun p => existsb (fun f => existsb (same_pair p) (node_pairs f)) fn) ps &&
  (* every side of every face is an edge *)
  forallb (fun f => forallb (fun q => existsb (same_pair q) ps) (node_pairs f)) fn.

(* an edge lists exactly the faces that contain it *)
Definition edge_faces_ok (fe ef : table) (ne : Z) : bool :=
  (Z.of_nat (length ef) =? ne) &&
  forallb (fun er =>
    let e := fst er in
    forallb (fun f => memz e (row fe f)) (snd er) &&
    forallb (fun fr => if memz e (snd fr) then memz (fst fr) (snd er) else true) (enum 0 fe) &&
    negb (match snd er with [a; b] => Z.eqb a b | _ => false end))
    (enum 0 ef).

(* face adjacency means sharing an edge (and is therefore symmetric) *)
Definition shares_edge (fe : table) (f g : Z) : bool :=
  negb (Z.eqb f g) && existsb (fun e => memz e (row fe g)) (row fe f).

Definition face_faces_ok (fe ff : table) : bool :=
  (length ff =? length fe)%nat &&
  forallb (fun fr =>
    let f := fst fr in
    forallb (fun g => shares_edge fe f g) (snd fr) &&
    forallb (fun gr => if shares_edge fe f (fst gr) then memz (fst gr) (snd fr) else true) (enum 0 fe))
    (enum 0 ff).

Definition topology_okb (fn en fe ef ff : table) : bool :=
  edge_nodes_ok fn en && face_edges_ok fn en fe && edge_faces_ok fe ef (Z.of_nat (length en)) && face_faces_ok fe ff.

(* ---------------- reference derivations (an edge numbering in order of first appearance) ---------------- *)
Fixpoint dedupe_pairs (ps : list (Z * Z)) (acc : list (Z * Z)) : list (Z * Z) :=
  match ps with
  | [] => rev acc
  | p :: r => if existsb (same_pair p) acc then dedupe_pairs r acc else dedupe_pairs r (p :: acc)
  end.

Definition mk_en (fn : table) : table :=
  map (fun p => [Z.min (fst p) (snd p); Z.max (fst p) (snd p)]) (dedupe_pairs (flat_map node_pairs fn) []).

Definition find_edge (en : table) (p : Z * Z) : Z :=
  match positions_where (fun r => match r with [a; b] => same_pair p (a, b) | _ => false end) 0 en with
  | e :: _ => e | [] => -1 end.

Definition mk_fe (fn en : table) : table := map (fun f => map (find_edge en) (node_pairs f)) fn.

Definition mk_ef (fe : table) (ne : Z) : table :=
  map (fun e => positions_where (fun r => memz e r) 0 fe) (zrange 0 ne).

Definition mk_ff (fe : table) : table :=
  map (fun fr => positions_where (fun gr => shares_edge fe (fst fr) (fst gr)) 0 (enum 0 fe)) (enum 0 fe).

(* observations *)
Definition show_decoded (t : list (list (option Z))) := t.
Definition derive_all (fn : table) :=
  let en := mk_en fn in let fe := mk_fe fn en in
  let ef := mk_ef fe (Z.of_nat (length en)) in let ff := mk_ff fe in
  (en, fe, ef, ff, topology_okb fn en fe ef ff).

(* ---------------- the derivations as coded, given the tables they read ---------------- *)
(* make_face_edge_array: node_pair_to_edge_index = {frozenset(edge): index}: a later edge with the same
   unordered pair overwrites an earlier one, so the LAST matching row wins *)
Definition find_edge_last (en : table) (p : Z * Z) : Z :=
  match positions_where (fun r => match r with [a; b] => same_pair p (a, b) | _ => false end) 0 en with
  | e :: r => last r e | [] => -1 end.
Definition mk_fe_impl (fn en : table) : table := map (fun f => map (find_edge_last en) (node_pairs f)) fn.

(* make_face_face_array: for each edge with two faces, in edge order, append each face to the other's row *)
Definition append_at (t : table) (k x : Z) : table :=
  map (fun kr => if Z.eqb (fst kr) k then snd kr ++ [x] else snd kr) (enum 0 t).
Definition mk_ff_impl (nf : nat) (ef : table) : table :=
  fold_left (fun ff r => match r with [a; b] => append_at (append_at ff a b) b a | _ => ff end) ef (repeat [] nf).

(* has_edge_dimension / edge_dimension: decided from the mesh attributes and which named variables exist *)
Record mesh_attrs := {
  a_edge_dimension : option Z;        (* edge_dimension attribute: a dimension name *)
  a_edge_node : option (option Z);    (* edge_node_connectivity attribute; inner = first dim of that variable if it exists *)
  a_edge_face : option (option Z)
}.
Definition has_edge_dimension (a : mesh_attrs) : bool :=
  match a_edge_dimension a with Some _ => true | None =>
    match a_edge_node a with Some (Some _) => true | _ =>
      match a_edge_face a with Some (Some _) => true | _ => false end end end.
Definition edge_dimension (a : mesh_attrs) : option Z :=
  match a_edge_dimension a with Some d => Some d | None =>
    match a_edge_node a with Some (Some d) => Some d | _ =>
      match a_edge_face a with Some (Some d) => Some d | _ => None end end end.
