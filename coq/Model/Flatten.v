(* C03 (and the flattening half of C02): emsarray.utils.{move_dimensions_to_end, find_unused_dimension,
   ravel_dimensions, wind_dimension, splice_tuple} and DimensionConvention.{get_grid_kind, ravel, wind}.
   Errors (Python exceptions) are [None]. *)
From Coq Require Import ZArith List Lia Bool.
From EV Require Import Base.Index Base.LArr.
Import ListNotations.
Open Scope Z_scope.

Section Flatten.
  Context {A : Type}.
  Notation larr := (larr A).

  Definition others (a : larr) (G : list name) : list name := filter (fun d => negb (mem d G)) (dims a).

  (* utils.move_dimensions_to_end: ValueError when a dimension is missing (numpy: "axes don't match" when
     a dimension is repeated) *)
  Definition move_dims_to_end (G : list name) (a : larr) : option larr :=
    if forallb (fun d => mem d (dims a)) G && nodupb G
    then Some (transpose_to (others a G ++ G) a) else None.

  (* utils.find_unused_dimension(_, 'index'): names are integers; 'index' is 0, 'index_k' is -(k+1) *)
  Definition prefix_name : name := 0.
  Definition cand (k : nat) : name := - (Z.of_nat k + 1).
  Fixpoint find_cand (fuel k : nat) (ds : list name) : name :=
    match fuel with
    | O => cand k
    | S f => if mem (cand k) ds then find_cand f (S k) ds else cand k
    end.
  Definition find_unused (ds : list name) : name :=
    if mem prefix_name ds then find_cand (S (length ds)) 0 ds else prefix_name.

  (* utils.ravel_dimensions *)
  Definition ravel_dims (G : list name) (lin : option name) (a : larr) : option larr :=
    match G, move_dims_to_end G a with
    | _ :: _, Some t =>
        let o := others a G in
        let k := length o in
        let gs := map (size_of a) G in
        let l := match lin with Some l => l | None => find_unused (dims t) end in
        if mem l o then None     (* ValueError: the linear dimension collides with a remaining dimension *)
        else
        Some {| dims := o ++ [l]; sizes := map (size_of a) o ++ [prod gs];
                at_ := fun idx => at_ t (firstn k idx ++ unravel_aux gs (nth k idx 0)) |}
    | _, _ => None
    end.

  Definition ravel_or0 (s idx : list Z) : Z := match ravel s idx with Some n => n | None => 0 end.

  (* utils.wind_dimension: tuple.index raises ValueError when the linear dimension is absent,
     numpy.reshape raises ValueError when the sizes do not multiply to the linear size *)
  Definition wind_dim (G : list name) (gs : list Z) (lin : name) (y : larr) : option larr :=
    if mem lin (dims y) then
      let p := index_of lin (dims y) in
      if (size_of y lin =? prod gs) && forallb (fun s => 0 <=? s) gs && (length G =? length gs)%nat then
        Some {| dims := firstn p (dims y) ++ G ++ skipn (S p) (dims y);
                sizes := firstn p (sizes y) ++ gs ++ skipn (S p) (sizes y);
                at_ := fun idx =>
                  at_ y (firstn p idx ++ [ravel_or0 gs (firstn (length gs) (skipn p idx))]
                           ++ skipn (p + length gs) idx) |}
      else None
    else None.

  (* DimensionConvention.get_grid_kind: first kind in dict order whose dimensions are all present *)
  Definition grid_dims := list (Z * list name).
  Definition get_grid_kind (kinds : grid_dims) (a : larr) : option (Z * list name) :=
    find (fun kd => forallb (fun d => mem d (dims a)) (snd kd)) kinds.

  Definition conv_ravel (kinds : grid_dims) (lin : option name) (a : larr) : option larr :=
    match get_grid_kind kinds a with
    | Some (_, G) => ravel_dims G lin a
    | None => None                                    (* ValueError("Unknown grid kind") *)
    end.

  Fixpoint lookup_kind (k : Z) (kinds : grid_dims) : option (list name) :=
    match kinds with
    | [] => None
    | (k', G) :: r => if Z.eqb k k' then Some G else lookup_kind k r
    end.

  (* data_array.dims[axis] with Python's negative indexes *)
  Definition py_nth (l : list name) (ax : Z) : option name :=
    let n := Z.of_nat (length l) in
    if (0 <=? ax) && (ax <? n) then nth_error l (Z.to_nat ax)
    else if (- n <=? ax) && (ax <? 0) then nth_error l (Z.to_nat (n + ax))
    else None.

  (* DimensionConvention.wind; [ds_size] is dataset.sizes *)
  Definition conv_wind (kinds : grid_dims) (ds_size : name -> Z) (kind : Z)
             (axis : option Z) (lin : option name) (y : larr) : option larr :=
    let lin' := match axis with
                | Some ax => py_nth (dims y) ax
                | None => match lin with Some l => Some l | None => py_nth (dims y) (-1) end
                end in
    match lin', lookup_kind kind kinds with
    | Some l, Some G => wind_dim G (map ds_size G) l y
    | _, _ => None
    end.
End Flatten.

(* ---- instances evaluated by the correspondence check (values are integers) ---- *)
Definition mk (ds : list name) (ss : list Z) (data : list Z) : larr Z := of_list (-777) ds ss data.

Definition show (r : option (larr Z)) : option (list name * list Z * list Z) :=
  match r with Some a => Some (dims a, sizes a, to_list a) | None => None end.

Definition assoc_size (tbl : list (name * Z)) (d : name) : Z :=
  match find (fun p => Z.eqb (fst p) d) tbl with Some p => snd p | None => 0 end.

(* ravel then wind again, as one observation *)
Definition ravel_then_wind (kinds : grid_dims) (tbl : list (name * Z)) (lin : option name)
           (kind : Z) (axis : option Z) (wlin : option name) (a : larr Z) :=
  match conv_ravel kinds lin a with
  | Some r => (show (Some r), show (conv_wind kinds (assoc_size tbl) kind axis wlin r))
  | None => (None, None)
  end.

(* wind arbitrary linear data, then flatten it again *)
Definition wind_then_ravel (kinds : grid_dims) (tbl : list (name * Z))
           (kind : Z) (axis : option Z) (wlin : option name) (lin : option name) (y : larr Z) :=
  match conv_wind kinds (assoc_size tbl) kind axis wlin y with
  | Some w => (show (Some w), show (conv_ravel kinds lin w))
  | None => (None, None)
  end.
