(* C08 / C09: masking.py (calculate_grid_mask_bounds, mask_grid_dataset, mask_grid_data_array) and the UGRID side
   of apply_clip_mask (row selection per mesh dimension, update_connectivity). *)
From Coq Require Import ZArith List Lia Bool.
From EV Require Import Base.Index Base.ListX Model.Mask Model.UMask Model.Export.
Import ListNotations.
Open Scope Z_scope.

(* ---------------- grids ---------------- *)
(* next(i for i, value in enumerate(values) if value) over indexes lo, lo+1, ... (n of them) *)
Fixpoint first_true (f : Z -> bool) (lo : Z) (n : nat) : option Z :=
  match n with
  | O => None
  | S k => if f lo then Some lo else first_true f (lo + 1) k
  end.

(* next(len(values) - i for i, value in enumerate(reversed(values)) if value): one past the last True *)
Definition end_true (f : Z -> bool) (n : Z) : option Z :=
  option_map (fun r => n - r) (first_true (fun r => f (n - 1 - r)) 0 (Z.to_nat n)).

Definition row_any (k : mask) (j : Z) : bool := existsb (fun i => m k j i) (zrange 0 (ni k)).
Definition col_any (k : mask) (i : Z) : bool := existsb (fun j => m k j i) (zrange 0 (nj k)).

(* calculate_grid_mask_bounds for one mask variable: (slice for the y dimension, slice for the x dimension);
   None = ValueError("Mask ... is completely empty!") *)
Record box := { lo_j : Z; hi_j : Z; lo_i : Z; hi_i : Z }.
Definition bounds (k : mask) : option box :=
  match first_true (row_any k) 0 (Z.to_nat (nj k)), end_true (row_any k) (nj k),
        first_true (col_any k) 0 (Z.to_nat (ni k)), end_true (col_any k) (ni k) with
  | Some a, Some b, Some c, Some d => Some {| lo_j := a; hi_j := b; lo_i := c; hi_i := d |}
  | _, _, _, _ => None
  end.

(* mask.isel(bounds) *)
Definition crop (k : mask) (b : box) : mask :=
  {| nj := hi_j b - lo_j b; ni := hi_i b - lo_i b; m := fun j i => m k (j + lo_j b) (i + lo_i b) |}.

(* dataset.isel(bounds) then mask_grid_data_array: a variable over the grid, any other dimensions collected in e.
   fill = None: no fill value can be found, the variable is cropped only *)
Definition clip_var {E A} (k : mask) (b : box) (fill : option A) (v : E -> Z -> Z -> A) : E -> Z -> Z -> A :=
  fun e j i =>
    let J := j + lo_j b in let I := i + lo_i b in
    match fill with
    | Some f => if mget k J I then v e J I else f
    | None => v e J I
    end.

(* find_fill_value: which fill a variable gets.  dtype kinds: float (holds NaN) or not *)
Inductive fillsrc := FMaskedArray | FAttr (v : Z) | FNaN | FNone.
Definition find_fill (is_masked_array : bool) (fill_attr missing_attr : option Z) (is_float : bool) : fillsrc :=
  if is_masked_array then FMaskedArray
  else match fill_attr with
       | Some v => FAttr v
       | None => match missing_attr with
                 | Some v => FAttr v
                 | None => if is_float then FNaN else FNone
                 end
       end.

(* which mask a variable is masked with: the first mask, in the mask dataset's order, whose dimensions all
   occur among the variable's *)
Definition subset (a b : list Z) : bool := forallb (fun x => memz x b) a.
Definition pick_mask (masks : list (Z * list Z)) (var_dims : list Z) : option Z :=
  match filter (fun md => subset (snd md) var_dims) masks with
  | (name, _) :: _ => Some name
  | [] => None
  end.

(* observation for the correspondence check: the bounds and the cropped mask of a bit-encoded mask *)
Definition clip_plan (nj0 ni0 bits : Z) : option (Z * Z * Z * Z * Z) :=
  let k := of_bits nj0 ni0 bits in
  match bounds k with
  | Some b => Some (lo_j b, hi_j b, lo_i b, hi_i b, to_bits (crop k b))
  | None => None
  end.

(* ---------------- meshes ---------------- *)
(* values[:, ..., bool_array]: the rows of the kept elements, in order.  tab = the mask's new-index table *)
Definition select_rows {A} (tab : list (option Z)) (rows : list A) : list A := compress (map is_some tab) rows.

Definition kept_of (tab : list (option Z)) : list Z := positions_where is_some 0 tab.

(* update_connectivity: keep the rows of surviving elements; map every entry through the column table; an entry
   whose target was dropped (or that was a fill) becomes fill (None).  start_index and dtype are re-applied when
   the variable is written and are checked by the harness on the file. *)
Definition map_entry (col_tab : list (option Z)) (e : option Z) : option Z :=
  match e with Some x => nth (Z.to_nat x) col_tab None | None => None end.
Definition update_conn (row_tab col_tab : list (option Z)) (old : list (list (option Z))) : list (list (option Z)) :=
  map (map (map_entry col_tab)) (select_rows row_tab old).
