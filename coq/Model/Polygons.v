(* C02 / C06: cell polygons, validity mask, face centres and extent, per convention, as coded in
   grid.py (CFGrid1D/2D incl. bounds synthesis), arakawa_c.py, ugrid.py, utils.make_polygons_with_holes and
   Convention.polygons / mask / bounds.  Coordinates are exact rationals; NaN is [None]. *)
From Coq Require Import ZArith QArith List Bool Lia.
From EV Require Import Base.Index Base.Geom.
Import ListNotations.
Open Scope Z_scope.

Definition oq := option Q.

(* row-major enumeration of an ny x nx grid: element n = j*nx + i is [f j i] *)
Definition grid_list {A} (ny nx : Z) (f : Z -> Z -> A) : list A :=
  flat_map (fun j => map (fun i => f j i) (zrange 0 nx)) (zrange 0 ny).

(* indexing with NaN / absent outside the array *)
Definition znth {A} (l : list A) (k : Z) : option A :=
  if k <? 0 then None else nth_error l (Z.to_nat k).

Definition at1 (l : list oq) (k : Z) : oq := match znth l k with Some v => v | None => None end.
Definition at2 (l : list (list oq)) (j i : Z) : oq :=
  match znth l j with Some row => at1 row i | None => None end.
Definition at3 (l : list (list (list oq))) (j i c : Z) : oq :=
  match znth l j with Some row => match znth row i with Some cell => at1 cell c | None => None end | None => None end.

(* utils.make_polygons_with_holes: a row with any non-finite coordinate is skipped (slot stays None) *)
Fixpoint ring_of (cs : list (oq * oq)) : option ring :=
  match cs with
  | [] => Some []
  | (Some x, Some y) :: r => match ring_of r with Some t => Some ((x, y) :: t) | None => None end
  | _ => None
  end.

(* Convention.polygons: invalid polygons are replaced by None (with InvalidPolygonWarning) *)
Definition finalize (ps : list (option ring)) : list (option ring) :=
  map (fun p => match p with Some r => if ring_simple r then Some r else None | None => None end) ps.

Definition invalid_indices (ps : list (option ring)) : list Z :=
  map fst (filter (fun kp => match snd kp with Some r => negb (ring_simple r) | None => false end)
                  (combine (zrange 0 (Z.of_nat (length ps))) ps)).

(* Convention.mask *)
Definition mask_of (ps : list (option ring)) : list bool :=
  map (fun p => match p with Some _ => true | None => false end) ps.

(* ---------------- CF 1-D ---------------- *)
Open Scope Q_scope.
Definition half (q : Q) : Q := q / 2.

Fixpoint pair_means (v : list Q) : list Q :=
  match v with
  | a :: ((b :: _) as r) => half (b + a) :: pair_means r
  | _ => []
  end.

(* CFGrid1DTopology._get_or_make_bounds without stored bounds: IndexError (None) below two values *)
Definition cf1d_mid_points (v : list Q) : option (list Q) :=
  match v, rev v with
  | v0 :: v1 :: _, vn :: vm :: _ =>
      Some ([v0 - half (v1 - v0)] ++ pair_means v ++ [vn + half (vn - vm)])
  | _, _ => None
  end.

Definition cf1d_synth (v : list Q) : option (list (Q * Q)) :=
  match cf1d_mid_points v with
  | Some m => Some (combine (removelast m) (tl m))
  | None => None
  end.

(* CFGrid1D._make_polygons: corners (x0,y0) (x1,y0) (x1,y1) (x0,y1) *)
Definition rect (xb yb : Q * Q) : ring :=
  [(fst xb, fst yb); (snd xb, fst yb); (snd xb, snd yb); (fst xb, snd yb)].

Definition cf1d_raw (lonb latb : list (Q * Q)) : list (option ring) :=
  flat_map (fun yb => map (fun xb => Some (rect xb yb)) lonb) latb.

Definition cf1d_centres (lon lat : list Q) : list (Q * Q) :=
  flat_map (fun y => map (fun x => (x, y)) lon) lat.

(* ---------------- CF 2-D / SHOC simple ---------------- *)
Open Scope Z_scope.

(* stored bounds (ny, nx, 4) *)
Definition cf2d_given_cell (lonb latb : list (list (list oq))) (j i : Z) : option ring :=
  ring_of (map (fun c => (at3 lonb j i c, at3 latb j i c)) [0; 1; 2; 3]).

Definition cf2d_given_raw (ny nx : Z) (lonb latb : list (list (list oq))) : list (option ring) :=
  grid_list ny nx (cf2d_given_cell lonb latb).

(* synthesised bounds *)
Section Synth.
  Variable ny nx : Z.
  Variable c : list (list oq).

  Definition inr (j i : Z) : bool := (0 <=? j) && (j <? ny) && (0 <=? i) && (i <? nx).
  (* numpy.isnan(coordinate) padded with False *)
  Definition isnan (j i : Z) : bool :=
    if inr j i then match at2 c j i with None => true | Some _ => false end else false.
  Definition bound_by_nan (j i : Z) : bool :=
    (isnan (j - 1) i && isnan (j + 1) i) || (isnan j (i - 1) && isnan j (i + 1)).
  (* coordinate_values after the bound_by_nan rule, padded with NaN *)
  Definition cval (j i : Z) : oq :=
    if inr j i then (if bound_by_nan j i then None else at2 c j i) else None.

  (* numpy.nanmean over the four shifted paddings *)
  Definition nanmean (vs : list oq) : oq :=
    let present := flat_map (fun v => match v with Some q => [q] | None => [] end) vs in
    match present with
    | [] => None
    | _ => Some (Qred (fold_right Qplus 0%Q present / inject_Z (Z.of_nat (length present))))
    end.
  Definition corner (gj gi : Z) : oq :=
    nanmean [cval (gj - 1) (gi - 1); cval (gj - 1) gi; cval gj (gi - 1); cval gj gi].
  Definition synth_cell (j i : Z) : list oq :=
    [corner j i; corner j (i + 1); corner (j + 1) (i + 1); corner (j + 1) i].
End Synth.

Definition cf2d_synth_cell (ny nx : Z) (lon lat : list (list oq)) (j i : Z) : option ring :=
  ring_of (combine (synth_cell ny nx lon j i) (synth_cell ny nx lat j i)).

Definition cf2d_synth_raw (ny nx : Z) (lon lat : list (list oq)) : list (option ring) :=
  grid_list ny nx (cf2d_synth_cell ny nx lon lat).

(* CFGrid2DTopology._get_or_make_bounds: a stored bounds variable is used only when its dimensions are
   (y, x, <any>) and the last one has size 4; otherwise (ConventionViolationWarning) the bounds of that coordinate are
   synthesised, independently for longitude and latitude.  Dimensions are identified by numbers. *)
Inductive stored_bounds :=
| NoBounds
| Stored (dims : list Z) (last_size : Z) (vals : list (list (list oq))).

Definition cf2d_bounds_ok (ydim xdim : Z) (dims : list Z) (last_size : Z) : bool :=
  match dims with
  | [a; b; _] => (a =? ydim) && (b =? xdim) && (last_size =? 4)
  | _ => false
  end.

Definition cf2d_coord_bounds (ny nx ydim xdim : Z) (c : list (list oq)) (b : stored_bounds) (j i : Z) : list oq :=
  match b with
  | Stored dims sz vals =>
      if cf2d_bounds_ok ydim xdim dims sz then map (at3 vals j i) [0; 1; 2; 3] else synth_cell ny nx c j i
  | NoBounds => synth_cell ny nx c j i
  end.

Definition cf2d_raw (ny nx ydim xdim : Z) (lon lat : list (list oq)) (lonb latb : stored_bounds) : list (option ring) :=
  grid_list ny nx (fun j i => ring_of (combine (cf2d_coord_bounds ny nx ydim xdim lon lonb j i)
                                               (cf2d_coord_bounds ny nx ydim xdim lat latb j i))).

(* CFGrid1DTopology._get_or_make_bounds: dimensions (<the coordinate's dimension>, <any>), the last of size 2 *)
Inductive stored_bounds1 :=
| NoBounds1
| Stored1 (dims : list Z) (last_size : Z) (vals : list (Q * Q)).

Definition cf1d_bounds_ok (cdim : Z) (dims : list Z) (last_size : Z) : bool :=
  match dims with
  | [a; _] => (a =? cdim) && (last_size =? 2)
  | _ => false
  end.

Definition cf1d_coord_bounds (cdim : Z) (v : list Q) (b : stored_bounds1) : option (list (Q * Q)) :=
  match b with
  | Stored1 dims sz vals => if cf1d_bounds_ok cdim dims sz then Some vals else cf1d_synth v
  | NoBounds1 => cf1d_synth v
  end.

Definition cf1d_polys (ydim xdim : Z) (lon lat : list Q) (lonb latb : stored_bounds1) : option (list (option ring)) :=
  match cf1d_coord_bounds xdim lon lonb, cf1d_coord_bounds ydim lat latb with
  | Some xb, Some yb => Some (cf1d_raw xb yb)
  | _, _ => None
  end.

Definition cf2d_centres (ny nx : Z) (lon lat : list (list oq)) : list (oq * oq) :=
  grid_list ny nx (fun j i => (at2 lon j i, at2 lat j i)).

(* ---------------- Arakawa C / SHOC standard ---------------- *)
Definition arakawa_cell (xg yg : list (list oq)) (j i : Z) : option ring :=
  ring_of [(at2 xg j i, at2 yg j i); (at2 xg j (i + 1), at2 yg j (i + 1));
           (at2 xg (j + 1) (i + 1), at2 yg (j + 1) (i + 1)); (at2 xg (j + 1) i, at2 yg (j + 1) i)].

Definition arakawa_raw (nj ni : Z) (xg yg : list (list oq)) : list (option ring) :=
  grid_list nj ni (arakawa_cell xg yg).

(* ---------------- UGRID ---------------- *)
Definition ugrid_face (nx ny : list oq) (f : list Z) : option ring :=
  ring_of (map (fun n => (at1 nx n, at1 ny n)) f).

Definition ugrid_raw (nx ny : list oq) (faces : list (list Z)) : list (option ring) :=
  map (ugrid_face nx ny) faces.

(* ---------------- extent ---------------- *)
Definition all_vertices (ps : list (option ring)) : list pt :=
  flat_map (fun p => match p with Some r => r | None => [] end) ps.

(* Convention.bounds: the bounds of the union of the polygons = the bounding box of their vertices *)
Definition generic_bounds (ps : list (option ring)) := bbox (all_vertices ps).

Definition present (vs : list oq) : list Q := flat_map (fun v => match v with Some q => [q] | None => [] end) vs.
Definition qmin_list (l : list Q) : option Q :=
  match l with [] => None | x :: r => Some (fold_left qmin r x) end.
Definition qmax_list (l : list Q) : option Q :=
  match l with [] => None | x :: r => Some (fold_left qmax r x) end.

(* CFGrid.bounds: nanmin / nanmax of the bounds arrays;  UGrid.bounds: of node_x / node_y *)
Definition minmax_bounds (xs ys : list oq) :=
  match qmin_list (present xs), qmin_list (present ys), qmax_list (present xs), qmax_list (present ys) with
  | Some a, Some b, Some c, Some d => Some (a, b, c, d)
  | _, _, _, _ => None
  end.

(* ---------------- observations for the correspondence check ---------------- *)
(* rationals are shown as (numerator, denominator) pairs of integers *)
Definition qz (q : Q) : Z * Z := (Qnum q, Zpos (Qden q)).
Definition pt_z (p : pt) := (qz (fst p), qz (snd p)).
Definition ring_z (r : ring) := map pt_z r.
Definition show_polys (ps : list (option ring)) := map (option_map ring_z) ps.
Definition show_bounds (b : option (Q * Q * Q * Q)) :=
  option_map (fun '(a, b, c, d) => (qz a, qz b, qz c, qz d)) b.
Definition observe (raw : list (option ring)) :=
  (show_polys (finalize raw), invalid_indices raw, show_bounds (generic_bounds (finalize raw))).
