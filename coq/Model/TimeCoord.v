(* C17 (which variable is saved as the time variable): conventions/_base.py Convention.time_coordinate.
   A variable is described by what the code looks at: its name, whether xarray decoded it to datetimes
   (numpy datetime64, or cftime objects for dates outside its range), whether
   its encoding carries units of the form '... since ...', and the name its `bounds` attribute points to. *)
From Coq Require Import ZArith List Bool.
Import ListNotations.
Open Scope Z_scope.

Record tvar := { tv_name : Z; tv_datetime : bool; tv_since : bool; tv_bounds : option Z }.

Definition bounds_names (vs : list tvar) : list Z :=
  flat_map (fun v => match tv_bounds v with Some b => [b] | None => [] end) vs.

Definition is_bounds (bs : list Z) (v : tvar) : bool := existsb (Z.eqb (tv_name v)) bs.

Definition eligible (bs : list Z) (v : tvar) : bool := negb (is_bounds bs v) && tv_since v && tv_datetime v.

(* the first variable, in dataset order, that is a decoded time and not the bounds of another variable;
   None = NoSuchCoordinateError *)
Definition time_coordinate (vs : list tvar) : option tvar := find (eligible (bounds_names vs)) vs.

(* before the repair 171c774: bounds variables were not skipped *)
Definition time_coordinate_old (vs : list tvar) : option tvar := find (fun v => tv_since v && tv_datetime v) vs.

Definition show (o : option tvar) : option Z := option_map tv_name o.
