(* The fill value of integer connectivity tables (src/emsarray/conventions/ugrid.py):
   Mesh2DTopology.sensible_fill_value  -  int('9' * (len(str(max_count)) + 1))
   update_connectivity                 -  the fill is capped at the largest integer the table's stored type holds *)
From Coq Require Import ZArith List Bool.
Import ListNotations.
Open Scope Z_scope.

(* len(str(n)) for n >= 0; the fuel is the number of binary digits, which is never less than the number of decimal ones *)
Fixpoint digits_aux (fuel : nat) (n : Z) : Z :=
  match fuel with
  | O => 1
  | S f => if n <? 10 then 1 else 1 + digits_aux f (n / 10)
  end.

Definition digits (n : Z) : Z := digits_aux (Z.to_nat (Z.log2 n)) n.

Definition all_nines (k : Z) : Z := 10 ^ k - 1.

(* max_count = max(node_count, face_count * max_node_count) *)
Definition max_count (node_count face_count max_node_count : Z) : Z := Z.max node_count (face_count * max_node_count).

Definition sensible_fill (node_count face_count max_node_count : Z) : Z :=
  all_nines (digits (max_count node_count face_count max_node_count) + 1).

(* update_connectivity: integer tables keep their stored type; the fill must fit it.  A type is given by its smallest and
   largest value (int8: -128, 127; uint8: 0, 255).  A fill that does not fit is replaced by the smallest value of a signed
   type (a negative number is never an element number) and by the largest value of an unsigned one. *)
Definition capped_fill (min_representable max_representable fill : Z) : Z :=
  if max_representable <? fill then (if min_representable <? 0 then min_representable else max_representable) else fill.

(* the choice before the repair 524840a: always the largest value *)
Definition capped_fill_old (max_representable fill : Z) : Z :=
  if max_representable <? fill then max_representable else fill.

(* what an entry of the new table holds: the new number of the element it names (offset by start_index), or the fill *)
Definition new_entry (start_index fill : Z) (new_index : option Z) : Z :=
  match new_index with Some k => k + start_index | None => fill end.

(* reading the table back: the fill is missing, anything else is an element number *)
Definition read_entry (start_index fill v : Z) : option Z := if v =? fill then None else Some (v - start_index).
