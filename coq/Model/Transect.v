(* C18: transect.py - ordering of the path pieces (Transect.segments) and the pairing of data with pieces
   (prepare_data_array_for_transect).  Distances are exact rationals here (any monotone distance along the path);
   the metre values of the implementation come from map projections that are not modelled. *)
From Coq Require Import ZArith QArith List Bool Lia.
Import ListNotations.
Open Scope Q_scope.

(* one piece of the path inside a cell: the cell's linear index and the distances of its two ends along the path,
   in the order the intersection geometry lists them (either way round) *)
Record piece := { cell : Z; d1 : Q; d2 : Q }.

(* start, end = sorted(projections, key=distance) *)
Record segment := { s_cell : Z; s_start : Q; s_end : Q }.
Definition mk_segment (p : piece) : segment :=
  if Qle_bool (d1 p) (d2 p) then {| s_cell := cell p; s_start := d1 p; s_end := d2 p |}
  else {| s_cell := cell p; s_start := d2 p; s_end := d1 p |}.

(* sorted(segments, key=lambda i: (i.start_distance, i.end_distance)) - stable *)
Definition seg_le (a b : segment) : bool :=
  if Qeq_bool (s_start a) (s_start b) then Qle_bool (s_end a) (s_end b) else Qle_bool (s_start a) (s_start b).

Fixpoint insert_seg (x : segment) (l : list segment) : list segment :=
  match l with
  | [] => [x]
  | y :: r => if seg_le x y then x :: y :: r else y :: insert_seg x r
  end.
Definition sort_segs (l : list segment) : list segment := fold_right insert_seg [] l.

Definition segments (ps : list piece) : list segment := sort_segs (map mk_segment ps).

(* prepare_data_array_for_transect: ravel, move (depth, index) last, isel(index = linear_indexes):
   column k of the prepared data is the column of cell linear_indexes[k], at every depth *)
Definition prepare {A} (d : A) (columns : list A) (linear_indexes : list Z) : list A :=
  map (fun n => nth (Z.to_nat n) columns d) linear_indexes.

Definition total_length (l : list segment) : Q := fold_right (fun s acc => (s_end s - s_start s) + acc) 0 l.

(* observation *)
Definition show_segments (ps : list (Z * (Z * Z) * (Z * Z))) : list Z :=
  map s_cell (segments (map (fun t => let '(c, (n1, m1), (n2, m2)) := t in
                                      {| cell := c; d1 := n1 # Z.to_pos m1; d2 := n2 # Z.to_pos m2 |}) ps)).
