(* C04 (and the spatial-index part of C02): Convention.strtree / get_index_for_point.
   The STRtree returns the positions (= linear indexes, because holes keep their slot) of the polygons that
   intersect the query, in an unspecified order; get_index_for_point sorts them and takes the first. *)
From Coq Require Import ZArith QArith List Bool Lia Permutation.
From EV Require Import Base.Index Base.Geom.
Import ListNotations.
Open Scope Z_scope.

Section Lookup.
  (* the intersection predicate is a parameter of the model: the theorems hold for any predicate; the
     correspondence check instantiates it with Geom.pt_meets_ring / ring_meets_ring and validates it against GEOS *)
  Context {G : Type}.
  Variable meets : ring -> G -> bool.

  Definition cell_hit (g : G) (p : option ring) : bool :=
    match p with Some r => meets r g | None => false end.

  (* linear indexes of the cells that meet g, in increasing order *)
  Definition hits (ps : list (option ring)) (g : G) : list Z :=
    map fst (filter (fun kp => cell_hit g (snd kp)) (combine (zrange 0 (Z.of_nat (length ps))) ps)).

  (* numpy.sort(query_result)[0] for any order in which the tree reports the hits *)
  Definition first_of (hs : list Z) : option Z :=
    match hs with [] => None | h :: t => Some (fold_left Z.min t h) end.

  Definition lookup (ps : list (option ring)) (g : G) : option Z := first_of (hits ps g).
End Lookup.

(* instances evaluated by the correspondence check *)
Definition hits_point (ps : list (option ring)) (p : pt) : list Z := hits (fun r q => pt_meets_ring r q) ps p.
Definition lookup_point (ps : list (option ring)) (p : pt) : option Z := lookup (fun r q => pt_meets_ring r q) ps p.
Definition hits_ring (ps : list (option ring)) (s : ring) : list Z := hits (fun r q => ring_meets_ring r q) ps s.
(* a polyline: list of vertices *)
Definition ring_meets_line (r : ring) (l : list pt) : bool :=
  match l with
  | [] => false
  | [a] => pt_meets_ring r a
  | _ => existsb (fun e => ring_meets_seg r (fst e) (snd e)) (combine (removelast l) (tl l))
  end.
Definition hits_line (ps : list (option ring)) (l : list pt) : list Z := hits ring_meets_line ps l.

(* a region with a hole: an outer ring minus the open inside of a CONVEX hole ring.  A cell (a polygon that meets the outer
   ring's region) misses it exactly when it lies in the open hole, i.e. - the hole being convex - when every one of its
   vertices is strictly inside the hole. *)
Definition ring_meets_holed (r : ring) (oh : ring * ring) : bool :=
  ring_meets_ring r (fst oh) && negb (forallb (fun v => strictly_inside (snd oh) v && negb (on_boundary (snd oh) v)) r).
Definition hits_holed (ps : list (option ring)) (outer hole : ring) : list Z := hits ring_meets_holed ps (outer, hole).
