(* C20: cli/utils.py - the bounds grammar (bounds_re.fullmatch), the exit status mapping of nice_console_errors,
   export-geometry's guess_format.  Characters are their ASCII codes. *)
From Coq Require Import ZArith List Lia Bool QArith.
Import ListNotations.
Open Scope Z_scope.

Definition comma := 44. Definition underscore := 95. Definition dot := 46. Definition minus := 45.
Definition is_digit (c : Z) : bool := (48 <=? c) && (c <=? 57).
(* \s on ASCII text: \t \n \v \f \r, the separators 0x1c-0x1f, and space *)
Definition is_space (c : Z) : bool := ((9 <=? c) && (c <=? 13)) || ((28 <=? c) && (c <=? 32)).

(* NUMBER = \d+(?:_\d+)* : digits and single underscores, beginning and ending with a digit *)
Fixpoint number_from (prev_digit : bool) (s : list Z) : bool :=
  match s with
  | [] => prev_digit
  | c :: r => if is_digit c then number_from true r
              else if c =? underscore then prev_digit && number_from false r
              else false
  end.
Definition is_number (s : list Z) : bool := number_from false s.

Fixpoint split_dot (s : list Z) : list Z * option (list Z) :=
  match s with
  | [] => ([], None)
  | c :: r => if c =? dot then ([], Some r)
              else let '(a, b) := split_dot r in (c :: a, b)
  end.
Definition is_nil {A} (l : list A) : bool := match l with [] => true | _ => false end.

(* NUMBER | NUMBER\. | \.NUMBER | NUMBER\.NUMBER *)
Definition is_unsigned (s : list Z) : bool :=
  match split_dot s with
  | (a, None) => is_number a
  | (a, Some b) => (is_number a && (is_nil b || is_number b)) || (is_nil a && is_number b)
  end.
Definition is_decimal (s : list Z) : bool :=
  match s with
  | c :: r => if c =? minus then is_unsigned r else is_unsigned s
  | [] => false
  end.

Fixpoint split_on (sep : Z) (s : list Z) : list (list Z) :=
  match s with
  | [] => [[]]
  | c :: r => if c =? sep then [] :: split_on sep r
              else match split_on sep r with
                   | f :: fs => (c :: f) :: fs
                   | [] => [[c]]
                   end
  end.

Fixpoint lstrip (s : list Z) : list Z :=
  match s with c :: r => if is_space c then lstrip r else s | [] => [] end.
Definition rstrip (s : list Z) : list Z := rev (lstrip (rev s)).
Definition strip (s : list Z) : list Z := rstrip (lstrip s).

(* bounds_re.fullmatch(s) is not None: DECIMAL \s*,\s* DECIMAL \s*,\s* DECIMAL \s*,\s* DECIMAL *)
Definition fields (s : list Z) : option (list Z * list Z * list Z * list Z) :=
  match split_on comma s with
  | [f1; f2; f3; f4] => Some (rstrip f1, strip f2, strip f3, lstrip f4)
  | _ => None
  end.
Definition accepts (s : list Z) : bool :=
  match fields s with
  | Some (d1, d2, d3, d4) => is_decimal d1 && is_decimal d2 && is_decimal d3 && is_decimal d4
  | None => false
  end.

(* float(group): the decimal value, underscores ignored *)
Definition digits_of (s : list Z) : list Z := filter is_digit s.
Definition nat_value (s : list Z) : Z := fold_left (fun acc c => 10 * acc + (c - 48)) (digits_of s) 0.
Definition unsigned_value (s : list Z) : Q :=
  let '(a, b) := split_dot s in
  let fr := match b with Some x => x | None => [] end in
  (inject_Z (nat_value a) + inject_Z (nat_value fr) / inject_Z (10 ^ Z.of_nat (length (digits_of fr))))%Q.
Definition decimal_value (s : list Z) : Q :=
  match s with
  | c :: r => if c =? minus then (- unsigned_value r)%Q else unsigned_value s
  | [] => 0%Q
  end.
(* printed as (numerator, denominator) of the reduced fraction *)
Definition qpair (q : Q) : Z * Z := (Qnum (Qred q), Zpos (Qden (Qred q))).
Definition bounds_value (s : list Z) : option ((Z * Z) * (Z * Z) * (Z * Z) * (Z * Z)) :=
  if accepts s then
    match fields s with
    | Some (d1, d2, d3, d4) => Some (qpair (decimal_value d1), qpair (decimal_value d2), qpair (decimal_value d3), qpair (decimal_value d4))
    | None => None
    end
  else None.

(* nice_console_errors: how a command ends *)
Inductive outcome := Done | RaisedOSError | RaisedCommandException (code : Z) | RaisedOther | Interrupted.
Definition exit_status (o : outcome) : Z :=
  match o with
  | Done => 0
  | RaisedOSError => 2
  | RaisedCommandException c => c
  | RaisedOther => 3
  | Interrupted => 1
  end.

(* export-geometry: format guessed from the extension; None = CommandException *)
Inductive fmt := GeoJSON | WKT | WKB | Shapefile.
Definition ext_json := [46; 106; 115; 111; 110].                       (* .json *)
Definition ext_geojson := [46; 103; 101; 111; 106; 115; 111; 110].     (* .geojson *)
Definition ext_wkt := [46; 119; 107; 116].
Definition ext_wkb := [46; 119; 107; 98].
Definition ext_shp := [46; 115; 104; 112].
Definition list_eqb (a b : list Z) : bool := if list_eq_dec Z.eq_dec a b then true else false.
Definition guess_format (ext : list Z) : option fmt :=
  if list_eqb ext ext_json || list_eqb ext ext_geojson then Some GeoJSON
  else if list_eqb ext ext_wkt then Some WKT
  else if list_eqb ext ext_wkb then Some WKB
  else if list_eqb ext ext_shp then Some Shapefile
  else None.
