(* C05: Convention.select_indexes / select_index (selector_for_indexes + Dataset.isel with vectorised
   indexers), operations.point_extraction.extract_points / extract_dataframe. *)
From Coq Require Import ZArith List Lia Bool.
From EV Require Import Base.Index Base.LArr Base.ListX.
Import ListNotations.
Open Scope Z_scope.

Section Select.
  Context {A : Type}.
  Notation larr := (larr A).

  (* dims after xarray's pointwise indexing: the new dimension takes the place of the first indexed
     dimension, the other indexed dimensions disappear *)
  Fixpoint sel_dims (G : list name) (nd : name) (placed : bool) (ds : list name) : list name :=
    match ds with
    | [] => []
    | d :: r => if mem d G then (if placed then sel_dims G nd true r else nd :: sel_dims G nd true r)
                else d :: sel_dims G nd placed r
    end.

  Definition sel_size (a : larr) (nd : name) (npts : Z) (d : name) : Z :=
    if Z.eqb d nd then npts else size_of a d.

  (* DataArray.isel({g: (nd, idxs[:, col g]) for g in G}) *)
  Definition isel_points (G : list name) (idxs : list (list Z)) (nd : name) (a : larr) : larr :=
    let ds' := sel_dims G nd false (dims a) in
    {| dims := ds';
       sizes := map (sel_size a nd (Z.of_nat (length idxs))) ds';
       at_ := fun idx' =>
         let k := nth (index_of nd ds') idx' 0 in
         let row := nth (Z.to_nat k) idxs [] in
         at_ a (map (fun d => if mem d G then nth (index_of d G) row 0
                              else nth (index_of d ds') idx' 0) (dims a)) |}.

  Definition uses_any (G : list name) (a : larr) : bool := existsb (fun d => mem d G) (dims a).

  (* a dataset as far as selection is concerned: named variables in dataset order *)
  Definition dataset := list (Z * larr).

  Definition all_same (ks : list Z) : bool :=
    match ks with [] => true | k :: r => forallb (Z.eqb k) r end.

  (* every index inside its grid (numpy would wrap negative indexes; the property speaks of native indexes
     of the grid, so anything else is outside the model: None) *)
  Definition rows_in_range (shape : list Z) (rows : list (list Z)) : bool :=
    forallb (fun r => match ravel shape r with Some _ => true | None => false end) rows.

  (* Convention.select_indexes(indexes, index_dimension=nd, drop_geometry=True):
     [kinds_of] the kind of each index, [rows] their dimension indexes, [G]/[shape] the grid dimensions and
     shape of that kind, [geom] the geometry variable names *)
  Definition select_indexes (geom : list Z) (G : list name) (shape : list Z) (kinds_of : list Z)
             (rows : list (list Z)) (nd : name) (ds : dataset) : option dataset :=
    match rows with
    | [] => None                                  (* ValueError("Need at least one index to select") *)
    | _ =>
      if all_same kinds_of && rows_in_range shape rows then
        Some (map (fun nv => (fst nv, isel_points G rows nd (snd nv)))
                  (filter (fun nv => negb (mem (fst nv) geom) && uses_any G (snd nv)) ds))
      else None
    end.
End Select.

(* ---- point extraction bookkeeping: which requests hit, in which order, under which labels ---- *)
Section Extract.
  Context {I : Type}.            (* what a lookup returns for a hit *)

  Definition is_none (o : option I) : bool := match o with None => true | Some _ => false end.
  Definition is_some (o : option I) : bool := match o with None => false | Some _ => true end.

  Definition miss_positions (found : list (option I)) : list Z := positions_where is_none 0 found.
  Definition hit_positions (found : list (option I)) : list Z := positions_where is_some 0 found.

  Definition hit_values (found : list (option I)) : list I :=
    flat_map (fun o => match o with Some i => [i] | None => [] end) found.

  Inductive policy := PError | PDrop | PFill.
  Inductive outcome :=
  | ONonIntersecting (misses : list Z)        (* NonIntersectingPoints naming the missing points *)
  | ONoIndex                                  (* ValueError("Need at least one index to select") *)
  | ORows (labels : list Z) (selected : list (option I)).   (* row labels, and per row the cell or missing *)

  (* extract_points / extract_dataframe: the rows of the result and their `point` labels *)
  Definition extract (p : policy) (found : list (option I)) : outcome :=
    match p with
    | PError =>
        match miss_positions found with
        | [] => match found with [] => ONoIndex | _ => ORows (hit_positions found) (map Some (hit_values found)) end
        | ms => ONonIntersecting ms
        end
    | PDrop =>
        match hit_values found with
        | [] => ONoIndex
        | hv => ORows (hit_positions found) (map Some hv)
        end
    | PFill =>
        match hit_values found with
        | [] => ONoIndex
        | _ => ORows (zrange 0 (Z.of_nat (length found))) found      (* outer join with the table *)
        end
    end.
End Extract.

(* ---- instances evaluated by the correspondence check ---- *)
Definition mkv (ds : list name) (ss : list Z) (data : list Z) : larr Z := of_list (-777) ds ss data.

Definition show_ds (r : option (@dataset Z)) :=
  match r with
  | Some l => Some (map (fun nv => (fst nv, (dims (snd nv), sizes (snd nv), to_list (snd nv)))) l)
  | None => None
  end.

Definition show_outcome (o : @outcome Z) : Z * list Z * list (option Z) :=
  match o with
  | ONonIntersecting ms => (1, ms, [])
  | ONoIndex => (2, [], [])
  | ORows labels sel => (0, labels, sel)
  end.
