(* utils.get_bounds_name: where the name of a coordinate's bounds variable is found.  A variable carries attributes and an
   encoding; xarray's decode_coords='all' moves the `bounds` attribute from the first to the second.  Names are numbers. *)
From Coq Require Import ZArith List.
Import ListNotations.
Open Scope Z_scope.

Record variable := { attr_bounds : option Z; enc_bounds : option Z }.

Definition get_bounds_name (v : variable) : option Z :=
  match attr_bounds v with Some b => Some b | None => enc_bounds v end.

(* the lookup before the repair 8b078a0 *)
Definition get_bounds_name_old (v : variable) : option Z := attr_bounds v.

(* what decode_coords='all' does to a variable that names its bounds in an attribute *)
Definition decode_all (v : variable) : variable :=
  match attr_bounds v with
  | Some b => {| attr_bounds := None; enc_bounds := Some b |}
  | None => v
  end.

(* the bounds a grid uses: the stored ones when the name found is a variable of the dataset, else made from the centres *)
Definition uses_stored (present : Z -> bool) (v : variable) : bool :=
  match get_bounds_name v with Some b => present b | None => false end.
