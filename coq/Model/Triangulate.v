(* C14: operations/triangulate.py - fan triangulation of convex cells, ear clipping of the others,
   the vertex table and the cell tags. Coordinates are exact rationals. *)
From Coq Require Import ZArith QArith List Bool Lia.
From EV Require Import Base.Geom.
Import ListNotations.
Open Scope Q_scope.

Definition tri := (pt * pt * pt)%type.

(* ---- convex cells: _triangulate_polygons_by_length: (v0, v_k, v_k+1) for k = 1 .. n-2 ---- *)
Fixpoint fan_from (v0 : pt) (rest : ring) : list tri :=
  match rest with
  | a :: ((b :: _) as t) => (v0, a, b) :: fan_from v0 t
  | _ => []
  end.
Definition fan (r : ring) : list tri := match r with v0 :: rest => fan_from v0 rest | [] => [] end.

(* "convex" as the code decides it: the convex hull has as many vertices as the polygon, i.e. every turn has the
   same non-zero orientation (a collinear vertex is dropped by the hull and sends the cell to ear clipping) *)
Definition turns (r : ring) : list Z :=
  match r with
  | a :: b :: _ => let ext := r ++ [a; b] in
                   (fix go (l : list pt) : list Z :=
                      match l with
                      | p :: ((q :: s :: _) as t) => orient p q s :: go t
                      | _ => []
                      end) ext
  | _ => []
  end.
Definition strictly_convex (r : ring) : bool :=
  match turns r with
  | [] => false
  | t :: ts => negb (t =? 0)%Z && forallb (Z.eqb t) ts
  end.

(* ---- ear clipping: _triangulate_concave_polygon ---- *)
Definition midpoint (a c : pt) : pt := ((px a + px c) / 2, (py a + py c) / 2).

(* the boundary meets the diagonal a-c in exactly the two points a and c
   (exterior.intersection(diagonal).equals(MultiPoint([a, c]))): per edge p-q *)
Definition is_end (a c p : pt) : bool := pt_eqb p a || pt_eqb p c.
Definition edge_ok (a c : pt) (e : pt * pt) : bool :=
  let (p, q) := e in
  let o1 := orient a c p in let o2 := orient a c q in
  let o3 := orient p q a in let o4 := orient p q c in
  negb ((o1 * o2 <? 0)%Z && (o3 * o4 <? 0)%Z) &&                     (* no proper crossing *)
  (negb (on_seg a c p) || is_end a c p) &&                           (* an edge end on the diagonal is a or c *)
  (negb (on_seg a c q) || is_end a c q) &&
  negb (on_seg p q a && on_seg p q c).                               (* the diagonal does not run along the edge *)

(* diagonal.covered_by(polygon): with the boundary met only at its ends the open diagonal is inside or outside
   as a whole: decided at its midpoint *)
Definition diag_ok (r : ring) (a c : pt) : bool :=
  forallb (edge_ok a c) (edges r) && strictly_inside r (midpoint a c).

(* scan i = 0, 1, ...: the first i whose diagonal (i, i+2) is an ear; pre holds the vertices before i, reversed *)
Fixpoint find_ear (whole : ring) (pre : list pt) (rest : ring) : option (tri * ring) :=
  match rest with
  | a :: ((b :: ((c :: tail) as t2)) as t1) =>
      if diag_ok whole a c then Some ((a, b, c), rev pre ++ a :: t2)
      else find_ear whole (a :: pre) t1
  | _ => None
  end.

(* None = ValueError("Could not find interior diagonal for polygon!") *)
Fixpoint clip (fuel : nat) (r : ring) : option (list tri) :=
  match r with
  | [a; b; c] => Some [(a, b, c)]
  | _ =>
      match fuel with
      | O => None
      | S k => match find_ear r [] r with
               | Some (t, r') => option_map (cons t) (clip k r')
               | None => None
               end
      end
  end.

Definition triangulate_ring (r : ring) : option (list tri) :=
  if strictly_convex r then Some (fan r) else clip (length r) r.

(* ---- the vertex table: unique coordinates in order of first appearance over all rings (closing point included,
   which changes nothing); triangles as index triples ---- *)
Definition pt_leib_eqb (a b : pt) : bool :=
  (Qnum (px a) =? Qnum (px b))%Z && Pos.eqb (Qden (px a)) (Qden (px b)) &&
  (Qnum (py a) =? Qnum (py b))%Z && Pos.eqb (Qden (py a)) (Qden (py b)).

Fixpoint dedupe_pts (seen : list pt) (l : list pt) : list pt :=
  match l with
  | [] => rev seen
  | p :: r => if existsb (pt_leib_eqb p) seen then dedupe_pts seen r else dedupe_pts (p :: seen) r
  end.

Fixpoint index_of_pt (p : pt) (l : list pt) : option nat :=
  match l with
  | [] => None
  | q :: r => if pt_leib_eqb p q then Some O else option_map S (index_of_pt p r)
  end.

(* the whole operation over the cells of a dataset (None = no geometry): per cell, in cell order *)
Definition vertex_table (cells : list (option ring)) : list pt :=
  dedupe_pts [] (flat_map (fun o => match o with Some r => r | None => [] end) cells).

(* shapely.remove_repeated_points first (fix in /repo): a cell may list a vertex twice in a row *)
Definition triangulate_cell (r : ring) : option (list tri) := triangulate_ring (dedupe_ring r).

Definition cell_triangles (cells : list (option ring)) : list (nat * option (list tri)) :=
  flat_map (fun nc => match snd nc with Some r => [(fst nc, triangulate_cell r)] | None => [] end)
           (combine (seq 0 (length cells)) cells).

(* printed as integer pairs (numerator, denominator of the reduced fraction) *)
Definition qz (q : Q) : Z * Z := (Qnum (Qred q), Zpos (Qden (Qred q))).
Definition show_pt (p : pt) := (qz (px p), qz (py p)).
Definition show_tri (t : tri) := let '(a, b, c) := t in (show_pt a, show_pt b, show_pt c).
Definition show_cells (cells : list (option ring)) :=
  map (fun x => option_map (map show_tri) (snd x)) (cell_triangles cells).

(* ---- exact checker used on the implementation's output: triangles of one cell ---- *)
Definition tri_ring (t : tri) : ring := let '(a, b, c) := t in [a; b; c].
Definition shoelace (r : ring) : Q :=
  match r with
  | [] => 0
  | v :: _ => (fix go (l : list pt) : Q :=
                 match l with
                 | p :: ((q :: _) as t) => (px p * py q - px q * py p) + go t
                 | _ => 0
                 end) (r ++ [v])
  end.
Definition tri_area2 (t : tri) : Q := shoelace (tri_ring t).

Definition on_ring_vertices (r : ring) (t : tri) : bool :=
  let '(a, b, c) := t in existsb (pt_eqb a) r && existsb (pt_eqb b) r && existsb (pt_eqb c) r.

(* centroid strictly inside the cell, all three edge midpoints in the closed cell *)
Definition centroid (t : tri) : pt :=
  let '(a, b, c) := t in ((px a + px b + px c) / 3, (py a + py b + py c) / 3).
Definition tri_inside (r : ring) (t : tri) : bool :=
  let '(a, b, c) := t in
  strictly_inside r (centroid t) && pt_meets_ring r (midpoint a b) && pt_meets_ring r (midpoint b c) && pt_meets_ring r (midpoint c a).

(* interiors of two triangles are disjoint: no proper edge crossing, and neither centroid strictly inside the other *)
Definition proper_cross (a b c d : pt) : bool :=
  ((orient a b c * orient a b d <? 0)%Z && (orient c d a * orient c d b <? 0)%Z).
Definition tri_disjoint (s t : tri) : bool :=
  let es := edges (tri_ring s) in let et := edges (tri_ring t) in
  forallb (fun e => forallb (fun f => negb (proper_cross (fst e) (snd e) (fst f) (snd f))) et) es &&
  negb (strictly_inside (tri_ring s) (centroid t) && negb (on_boundary (tri_ring s) (centroid t))) &&
  negb (strictly_inside (tri_ring t) (centroid s) && negb (on_boundary (tri_ring t) (centroid s))).

Fixpoint pairwise {A} (p : A -> A -> bool) (l : list A) : bool :=
  match l with [] => true | x :: r => forallb (p x) r && pairwise p r end.

Definition partition_okb (r : ring) (ts : list tri) : bool :=
  let total := shoelace r in
  let s := sgn total in
  (length ts =? length r - 2)%nat &&
  forallb (fun t => (sgn (tri_area2 t) =? s)%Z && negb (s =? 0)%Z) ts &&
  forallb (on_ring_vertices r) ts &&
  forallb (tri_inside r) ts &&
  pairwise tri_disjoint ts &&
  Qeq_bool (fold_right (fun t acc => tri_area2 t + acc) 0 ts) total.
