(* C17: utils.format_time_units_for_ems - the UTC offset and the shape of the rewritten units string.
   Characters are their ASCII codes. *)
From Coq Require Import ZArith List Lia Bool.
Import ListNotations.
Open Scope Z_scope.

Definition ch_plus := 43. Definition ch_minus := 45. Definition ch_colon := 58. Definition ch_space := 32.
Definition ch_0 := 48.

Definition digit (n : Z) : Z := ch_0 + n.
(* f'{n:02d}' for 0 <= n < 100, f'{n:04d}' for 0 <= n < 10000 *)
Definition d2 (n : Z) : list Z := [digit (n / 10); digit (n mod 10)].
Definition d4 (n : Z) : list Z := [digit (n / 1000); digit ((n / 100) mod 10); digit ((n / 10) mod 10); digit (n mod 10)].

(* the code as repaired (db07e4e): sign, then divmod(abs(offset), 60), both parts padded to two digits *)
Definition format_offset (off : Z) : list Z :=
  (if off <? 0 then ch_minus else ch_plus) :: d2 (Z.abs off / 60) ++ [ch_colon] ++ d2 (Z.abs off mod 60).

(* the code as it was: floor divmod of the SIGNED offset, f'{h:+d}:{m:02d}' (hour not padded).
   Only the hours -99..99 matter; the unpadded hour prints one or two digits. *)
Definition dec_unpadded (n : Z) : list Z := if n <? 10 then [digit n] else d2 n.
Definition format_offset_old (off : Z) : list Z :=
  let h := off / 60 in let m := off mod 60 in
  (if h <? 0 then ch_minus else ch_plus) :: dec_unpadded (Z.abs h) ++ [ch_colon] ++ d2 m.

(* how cftime reads a zone designator: [+-]HH[:MM] or [+-]HHMM, hours exactly two digits; the sign applies to
   hours and minutes.  None = not recognised (cftime then takes the offset to be 0 / misreads the string). *)
Definition is_digit (c : Z) : bool := (ch_0 <=? c) && (c <=? ch_0 + 9).
Definition val2 (a b : Z) : Z := 10 * (a - ch_0) + (b - ch_0).
Definition parse_zone (s : list Z) : option Z :=
  match s with
  | sg :: h1 :: h2 :: rest =>
      if ((sg =? ch_plus) || (sg =? ch_minus)) && is_digit h1 && is_digit h2 then
        let sign := if sg =? ch_minus then -1 else 1 in
        match rest with
        | [] => Some (sign * (60 * val2 h1 h2))
        | [c; m1; m2] => if (c =? ch_colon) && is_digit m1 && is_digit m2
                         then Some (sign * (60 * val2 h1 h2 + val2 m1 m2)) else None
        | [m1; m2] => if is_digit m1 && is_digit m2 then Some (sign * (60 * val2 h1 h2 + val2 m1 m2)) else None
        | _ => None
        end
      else None
  | _ => None
  end.

(* the whole rewritten string: f'{period} since {local:%Y-%m-%d %H:%M:%S} {offset}' *)
Record fields := { year : Z; month : Z; day : Z; hour : Z; minute : Z; second : Z }.
Definition ch_dash := 45.
Definition since := [32; 115; 105; 110; 99; 101; 32].   (* " since " *)
Definition render_date (f : fields) : list Z :=
  d4 (year f) ++ [ch_dash] ++ d2 (month f) ++ [ch_dash] ++ d2 (day f) ++ [ch_space] ++
  d2 (hour f) ++ [ch_colon] ++ d2 (minute f) ++ [ch_colon] ++ d2 (second f).
Definition render (period : list Z) (f : fields) (off : Z) : list Z :=
  period ++ since ++ render_date f ++ [ch_space] ++ format_offset off.

(* recogniser of '<unit> since DDDD-DD-DD DD:DD:DD [+-]DD:DD' for the part after the unit *)
Definition shape_tail (s : list Z) : bool :=
  match s with
  | [sp1; s1; s2; s3; s4; s5; sp2; y1; y2; y3; y4; da1; m1; m2; da2; dd1; dd2; sp3; h1; h2; c1; mi1; mi2; c2; se1; se2;
     sp4; sg; o1; o2; c3; o3; o4] =>
      (sp1 =? 32) && (s1 =? 115) && (s2 =? 105) && (s3 =? 110) && (s4 =? 99) && (s5 =? 101) && (sp2 =? 32) &&
      forallb is_digit [y1; y2; y3; y4; m1; m2; dd1; dd2; h1; h2; mi1; mi2; se1; se2; o1; o2; o3; o4] &&
      (da1 =? ch_dash) && (da2 =? ch_dash) && (sp3 =? 32) && (c1 =? ch_colon) && (c2 =? ch_colon) && (sp4 =? 32) &&
      ((sg =? ch_plus) || (sg =? ch_minus)) && (c3 =? ch_colon)
  | _ => false
  end.

(* instants in minutes: the string names the local wall-clock time `local` at offset `off`; a reader that takes the
   offset to be `read_off` resolves it to UTC instant local - read_off *)
Definition utc_of (local read_off : Z) : Z := local - read_off.

(* disable_default_fill_value: `_FillValue: None` is recorded iff the dtype needs no promotion to hold a missing
   value and no fill value is recorded in the encoding or the attributes *)
Definition disable_fill (promotes has_enc_fill has_attr_fill : bool) : bool :=
  negb promotes && negb has_enc_fill && negb has_attr_fill.
