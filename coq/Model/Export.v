(* C15: operations/geometry.py - which cells are exported, in what order, with which attributes.
   C19: Convention.make_poly_collection / make_quiver - which patch and value belong together. *)
From Coq Require Import ZArith List Lia Bool.
From EV Require Import Base.Index Base.ListX Model.IndexConv.
Import ListNotations.
Open Scope Z_scope.

Definition is_some {A} (o : option A) : bool := match o with Some _ => true | None => false end.

(* for i, polygon in enumerate(polygons): if polygon is not None: (i, wind_index(i), polygon) *)
Definition export {P I} (polys : list (option P)) (wind : Z -> I) : list (Z * I * P) :=
  flat_map (fun np => match snd np with Some p => [(fst np, wind (fst np), p)] | None => [] end) (enum 0 polys).

(* the features of a dataset: native indexes from the convention's wind_index on the face grid (kind 0) *)
Definition export_dataset {P : Type} (g : grids) (polys : list (option P)) : list (Z * option native * P) :=
  @export P (option native) polys (fun n => wind_index g 0 n).

(* ---- plotting ---- *)
(* numpy boolean indexing xs[mask] *)
Definition compress {A} (mask : list bool) (xs : list A) : list A :=
  flat_map (fun mx : bool * A => if fst mx then [snd mx] else []) (combine mask xs).

(* make_poly_collection: polygons[mask] drawn with values ravel(v)[mask]; mask = polygon is not None *)
Definition poly_collection {P V} (polys : list (option P)) (values : list V) : list P * list V :=
  let mask := map is_some polys in
  (flat_map (fun o => match o with Some p => [p] | None => [] end) polys, compress mask values).

(* default colour limits: (nanmin, nanmax) of the plotted values; None = missing value *)
Definition omin (a b : option Z) : option Z :=
  match a, b with Some x, Some y => Some (Z.min x y) | Some x, None => Some x | None, o => o end.
Definition omax (a b : option Z) : option Z :=
  match a, b with Some x, Some y => Some (Z.max x y) | Some x, None => Some x | None, o => o end.
Definition clim (vs : list (option Z)) : option Z * option Z := (fold_right omin None vs, fold_right omax None vs).

(* make_quiver: arrows at face_centres with ravel(u), ravel(v): position n of all three is cell n *)
Definition quiver {C V} (centres : list C) (u v : list V) : list (C * V * V) := combine (combine centres u) v.
