(* Which variables the ocean-floor reduction touches, and what it leaves of them
   (src/emsarray/operations/depth.py: ocean_floor - the loops over depth dimensions, data variables and dimension sets,
   and the final drop_dims).  Dimensions and variable names are numbers. *)
From Coq Require Import ZArith List Bool.
Import ListNotations.
Open Scope Z_scope.

Record var := { v_name : Z; v_dims : list Z }.

Definition has (d : Z) (l : list Z) : bool := existsb (Z.eqb d) l.
Definition is_nil {A} (l : list A) : bool := match l with [] => true | _ => false end.

(* frozenset(variable.dims).difference({depth_dimension}, non_spatial_dimensions) *)
Definition spatial (dd : Z) (ns : list Z) (v : var) : list Z :=
  filter (fun d => negb (d =? dd) && negb (has d ns)) (v_dims v).

Definition subset (a b : list Z) : bool := forallb (fun x => has x b) a.
Definition same_set (a b : list Z) : bool := subset a b && subset b a.

(* the variables collected under one key of dimension_sets for the depth dimension dd; `skip` names the bounds variables of
   the depth coordinates, which describe the depth axis itself and are never grouped (repair the repair of ocean_floor: see DESIGN section 12) *)
Definition in_group (dd : Z) (ns skip sp : list Z) (v : var) : bool :=
  has dd (v_dims v) && negb (has (v_name v) skip) && negb (is_nil (spatial dd ns v)) && same_set (spatial dd ns v) sp.

(* variable_names[0]: the first variable of the group (data variables and coordinates alike, in dataset order), whose columns
   locate the floor for the whole group *)
Definition reference (dd : Z) (ns skip : list Z) (vs : list var) (v : var) : option var :=
  find (in_group dd ns skip (spatial dd ns v)) vs.

Inductive action := Untouched | Floored (dd : Z) (ref : Z) | Dropped.

(* the depth dimension of a variable (the code assumes at most one) *)
Definition depth_dim_of (dds : list Z) (v : var) : option Z := find (fun d => has d (v_dims v)) dds.

Definition action_of (dds ns skip : list Z) (vs : list var) (v : var) : action :=
  match depth_dim_of dds v with
  | None => Untouched
  | Some dd =>
      if has (v_name v) skip then Dropped           (* bounds of a depth coordinate: removed with the dimension *)
      else if is_nil (spatial dd ns v) then Dropped (* nothing but depth (and time): removed with the dimension *)
      else match reference dd ns skip vs v with
           | Some r => Floored dd (v_name r)
           | None => Dropped
           end
  end.

(* the dimensions of the variable in the result *)
Definition result_dims (dds : list Z) (v : var) : list Z := filter (fun d => negb (has d dds)) (v_dims v).

(* the plan for a dataset: per data variable its name, what happens to it, and the dimensions it is left with
   (None: the variable is not in the result) *)
Definition plan (dds ns skip : list Z) (vs : list var) : list (Z * action * option (list Z)) :=
  map (fun v => let a := action_of dds ns skip vs v in
                (v_name v, a, match a with Dropped => None | _ => Some (result_dims dds v) end)) vs.

Definition show_action (a : action) : Z * Z * Z :=
  match a with Untouched => (0, 0, 0) | Floored dd r => (1, dd, r) | Dropped => (2, 0, 0) end.
Definition show_plan (p : list (Z * action * option (list Z))) :=
  map (fun t => (fst (fst t), show_action (snd (fst t)), snd t)) p.
