From Coq Require Import ZArith List Lia Bool.
From EV Require Import Model.TimeUnits.
Import ListNotations.
Open Scope Z_scope.

Ltac Zify.zify_post_hook ::= Z.to_euclidean_division_equations.
Arguments Z.mul : simpl never.
Arguments Z.add : simpl never.
Arguments Z.opp : simpl never.
Arguments Z.sub : simpl never.
Arguments Z.div : simpl never.
Arguments Z.modulo : simpl never.

Lemma is_digit_digit n : 0 <= n <= 9 -> is_digit (digit n) = true.
Proof. intros H. unfold is_digit, digit, ch_0. apply andb_true_iff. split; [apply Z.leb_le | apply Z.leb_le]; lia. Qed.

Lemma val2_d2 n : 0 <= n < 100 -> val2 (digit (n / 10)) (digit (n mod 10)) = n.
Proof. intros H. unfold val2, digit, ch_0. pose proof (Z.div_mod n 10 ltac:(lia)). lia. Qed.

Lemma d2_digits n : 0 <= n < 100 -> is_digit (digit (n / 10)) = true /\ is_digit (digit (n mod 10)) = true.
Proof.
  intros H. pose proof (Z.mod_pos_bound n 10 ltac:(lia)).
  assert (0 <= n / 10 <= 9) by (split; [apply Z.div_pos; lia | apply Z.lt_succ_r, Z.div_lt_upper_bound; lia]).
  split; apply is_digit_digit; lia.
Qed.

(* every offset strictly between -24 h and +24 h is read back exactly *)
Theorem offset_roundtrip off : -1440 < off < 1440 -> parse_zone (format_offset off) = Some off.
Proof.
  intros H. unfold format_offset, d2. cbn [app]. unfold parse_zone.
  assert (Ha : 0 <= Z.abs off < 1440) by lia.
  assert (Eabs : off < 0 -> Z.abs off = - off) by (intros; apply Z.abs_neq; lia).
  assert (Eabs' : 0 <= off -> Z.abs off = off) by (intros; apply Z.abs_eq; lia).
  set (a := Z.abs off) in *.
  assert (Hh : 0 <= a / 60 < 100) by (split; [apply Z.div_pos; lia | apply Z.div_lt_upper_bound; lia]).
  assert (Hm : 0 <= a mod 60 < 100) by (pose proof (Z.mod_pos_bound a 60); lia).
  pose proof (Z.div_mod a 60 ltac:(lia)) as DM.
  destruct (d2_digits _ Hh) as [D1 D2]. destruct (d2_digits _ Hm) as [D3 D4].
  rewrite D1, D2, D3, D4. rewrite !val2_d2 by assumption.
  destruct (off <? 0) eqn:S.
  - apply Z.ltb_lt in S. cbn. f_equal. lia.
  - apply Z.ltb_ge in S. cbn. f_equal. lia.
Qed.

(* the offset always has the shape [+-]DD:DD *)
Theorem offset_shape off : -6000 < off < 6000 ->
  exists sg a b c d, format_offset off = [sg; a; b; ch_colon; c; d] /\
    (sg = ch_plus \/ sg = ch_minus) /\ forallb is_digit [a; b; c; d] = true.
Proof.
  intros H. unfold format_offset, d2. cbn [app].
  do 5 eexists. split; [reflexivity|]. split; [destruct (off <? 0); auto|].
  cbn [forallb]. rewrite !is_digit_digit by lia. reflexivity.
Qed.

(* the same instant: a reader that honours the rewritten offset resolves the reference time to the original UTC instant *)
Theorem same_instant utc off r : -1440 < off < 1440 ->
  parse_zone (format_offset off) = Some r -> utc_of (utc + off) r = utc.
Proof. intros H P. rewrite (offset_roundtrip off H) in P. injection P as <-. unfold utc_of. lia. Qed.

(* the whole string has the form '<unit> since YYYY-MM-DD HH:MM:SS [+-]HH:MM' *)
Theorem render_shape period f off :
  0 <= year f < 10000 -> 0 <= month f < 100 -> 0 <= day f < 100 -> 0 <= hour f < 100 ->
  0 <= minute f < 100 -> 0 <= second f < 100 -> -6000 < off < 6000 ->
  exists tail, render period f off = period ++ tail /\ shape_tail tail = true.
Proof.
  intros Hy Hmo Hd Hh Hmi Hs Ho. unfold render. eexists. split; [reflexivity|].
  unfold since, render_date, format_offset, d4, d2. cbn [app]. unfold shape_tail.
  cbn [forallb]. rewrite !is_digit_digit by lia.
  destruct (off <? 0); reflexivity.
Qed.

(* ---- the formatter as it was before the repair: documentation of the defect ---- *)
Theorem old_negative_fraction_refuted : exists off, -1440 < off < 1440 /\ parse_zone (format_offset_old off) <> Some off.
Proof. exists (-570). split; [lia|]. vm_compute. discriminate. Qed.

Theorem old_single_digit_hour_refuted : exists off, -1440 < off < 1440 /\ parse_zone (format_offset_old off) = None.
Proof. exists 300. split; [lia|]. vm_compute. reflexivity. Qed.

Theorem disable_fill_spec p e a : disable_fill p e a = true <-> p = false /\ e = false /\ a = false.
Proof. unfold disable_fill. destruct p, e, a; cbn; intuition congruence. Qed.

Example ex_format : format_offset (-570) = [45; 48; 57; 58; 51; 48] /\ format_offset 300 = [43; 48; 53; 58; 48; 48].
Proof. vm_compute. auto. Qed.
