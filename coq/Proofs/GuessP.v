(* the guessed direction of an unlabelled depth axis: decided by the number of values on each side of zero, nothing else *)
From Coq Require Import ZArith List Lia Bool Permutation.
From EV Require Import Model.Depth.
Import ListNotations.
Open Scope Z_scope.

Lemma filter_length_le {A} (f : A -> bool) l : (length (filter f l) <= length l)%nat.
Proof. induction l as [|a l IH]; simpl; [lia|]. destruct (f a); simpl; lia. Qed.

Lemma filter_all {A} (f : A -> bool) l : Forall (fun x => f x = true) l -> filter f l = l.
Proof. induction 1 as [|a l Ha _ IH]; simpl; [reflexivity|]. now rewrite Ha, IH. Qed.

Lemma filter_none {A} (f : A -> bool) l : Forall (fun x => f x = false) l -> filter f l = [].
Proof. induction 1 as [|a l Ha _ IH]; simpl; [reflexivity|]. now rewrite Ha. Qed.

(* every value below the surface written as a positive number: positive down *)
Lemma guess_all_positive : forall v, v <> [] -> Forall (fun x => 0 < x) v -> guess_down v = true.
Proof.
  intros v Hne Hall. unfold guess_down. rewrite filter_all.
  - destruct v as [|a t]; [contradiction|]. simpl length. apply Z.ltb_lt. lia.
  - revert Hall. apply Forall_impl. intros x Hx. now apply Z.ltb_lt.
Qed.

(* no value above zero: positive up *)
Lemma guess_none_positive : forall v, Forall (fun x => x <= 0) v -> guess_down v = false.
Proof.
  intros v Hall. unfold guess_down. rewrite filter_none.
  - simpl. apply Z.ltb_ge. lia.
  - revert Hall. apply Forall_impl. intros x Hx. apply Z.ltb_ge. lia.
Qed.

(* the count of positive values decides: exactly *)
Lemma guess_is_majority : forall v,
  guess_down v = true <-> (length v < 2 * length (filter (fun x => (0 <? x)%Z) v))%nat.
Proof. intros v. unfold guess_down. rewrite Z.ltb_lt. lia. Qed.

(* the order of the levels plays no part *)
Lemma filter_perm_length {A} (f : A -> bool) l l' : Permutation l l' -> length (filter f l) = length (filter f l').
Proof.
  induction 1 as [|x l l' _ IH|x y l|l l' l'' _ IH1 _ IH2]; simpl; try lia.
  - destruct (f x); simpl; lia.
  - destruct (f x), (f y); simpl; lia.
Qed.

Lemma guess_permutation : forall v w, Permutation v w -> guess_down v = guess_down w.
Proof. intros v w H. unfold guess_down. now rewrite (Permutation_length H), (filter_perm_length _ _ _ H). Qed.

(* scaling by a positive factor (another unit) plays no part *)
Lemma guess_scaled : forall k v, 0 < k -> guess_down (map (Z.mul k) v) = guess_down v.
Proof.
  intros k v Hk. unfold guess_down. rewrite map_length. f_equal. f_equal. f_equal.
  induction v as [|a t IH]; simpl; [reflexivity|].
  assert (E : (0 <? k * a) = (0 <? a)).
  { destruct (Z.ltb_spec 0 a) as [Ha|Ha]; [apply Z.ltb_lt; nia|apply Z.ltb_ge; nia]. }
  rewrite E. destruct (0 <? a); simpl; now rewrite IH.
Qed.

(* the mean of the values does not decide: most levels are above zero while the mean is below it, and the other way round
   (the axes the thirteenth round of seeded changes turned on) *)
Lemma guess_not_the_mean :
  (exists v, fold_right Z.add 0 v < 0 /\ guess_down v = true) /\
  (exists v, 0 < fold_right Z.add 0 v /\ guess_down v = false).
Proof. split; [exists [-996; 16; 32; 48]|exists [996; -16; -32; -48]]; split; reflexivity. Qed.
