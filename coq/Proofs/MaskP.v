From Coq Require Import ZArith List Lia Bool Sorted.
From EV Require Import Base.Index Base.ListX Model.Mask Model.UMask.
Import ListNotations.
Open Scope Z_scope.

Lemma inr_spec k j i : inr k j i = true <-> 0 <= j < nj k /\ 0 <= i < ni k.
Proof.
  unfold inr. rewrite !andb_true_iff, !Z.leb_le, !Z.ltb_lt. lia.
Qed.

Lemma mget_true k j i : mget k j i = true <-> inr k j i = true /\ m k j i = true.
Proof.
  unfold mget. destruct (inr k j i).
  - tauto.
  - split; [discriminate | intros [H _]; discriminate].
Qed.

(* blur_mask as coded = dilation by the Chebyshev ball of radius size (the eight directions, size rings) *)
Theorem blur_spec k s j i : 0 <= s -> inr k j i = true ->
  (blur_at k s j i = true <->
   exists j' i', inr k j' i' = true /\ Z.abs (j - j') <= s /\ Z.abs (i - i') <= s /\ m k j' i' = true).
Proof.
  intros Hs Hin. unfold blur_at. rewrite orb_true_iff. split.
  - intros [H|H].
    + exists j, i. repeat split; auto; lia.
    + apply existsb_exists in H as [j2 [Hj2 H]]. apply existsb_exists in H as [i2 [Hi2 H]].
      apply in_zrange in Hj2, Hi2. unfold padded in H. apply mget_true in H as [H1 H2].
      exists (j2 - s), (i2 - s). repeat split; auto; lia.
  - intros [j' [i' (H1 & H2 & H3 & H4)]]. right.
    apply existsb_exists. exists (j' + s). split; [apply in_zrange; lia|].
    apply existsb_exists. exists (i' + s). split; [apply in_zrange; lia|].
    unfold padded. replace (j' + s - s) with j' by lia. replace (i' + s - s) with i' by lia.
    apply mget_true. auto.
Qed.

(* enlarging the mask or the buffer never unmarks a cell *)
Theorem blur_monotone k k' s s' j i :
  nj k = nj k' -> ni k = ni k' -> (forall a b, inr k a b = true -> m k a b = true -> m k' a b = true) ->
  0 <= s <= s' -> inr k j i = true -> blur_at k s j i = true -> blur_at k' s' j i = true.
Proof.
  intros Ej Ei Hm Hs Hin H.
  assert (Hin' : inr k' j i = true) by (apply inr_spec; apply inr_spec in Hin; lia).
  apply (blur_spec k s j i) in H; [|lia|auto]. destruct H as [j' [i' (H1 & H2 & H3 & H4)]].
  apply (blur_spec k' s' j i); [lia|auto|].
  exists j', i'. repeat split; try lia.
  - apply inr_spec. apply inr_spec in H1. lia.
  - now apply Hm.
Qed.

Lemma blur_zero k j i : inr k j i = true -> blur_at k 0 j i = m k j i.
Proof.
  intros Hin. destruct (blur_at k 0 j i) eqn:E.
  - apply blur_spec in E; [|lia|auto]. destruct E as [j' [i' (H1 & H2 & H3 & H4)]].
    assert (j' = j) by lia. assert (i' = i) by lia. subst. auto.
  - destruct (m k j i) eqn:M; auto. unfold blur_at in E. rewrite M in E. discriminate.
Qed.

(* growing by s+1 rings = growing by s rings and then by one more *)
Theorem blur_rings k s j i : 0 <= s -> inr k j i = true ->
  blur_at k (s + 1) j i = blur_at (blur k s) 1 j i.
Proof.
  intros Hs Hin.
  assert (Hin' : inr (blur k s) j i = true) by exact Hin.
  apply eq_true_iff_eq. rewrite (blur_spec k (s + 1)) by (auto; lia).
  rewrite (blur_spec (blur k s) 1) by (auto; lia). split.
  - intros [j' [i' (H1 & H2 & H3 & H4)]].
    (* step one cell towards (j', i') *)
    set (j1 := j + Z.sgn (j' - j) * Z.min 1 (Z.abs (j' - j))).
    set (i1 := i + Z.sgn (i' - i) * Z.min 1 (Z.abs (i' - i))).
    apply inr_spec in Hin, H1.
    assert (Hj1 : Z.abs (j - j1) <= 1 /\ Z.abs (j1 - j') <= s /\ 0 <= j1 < nj k) by (unfold j1; lia).
    assert (Hi1 : Z.abs (i - i1) <= 1 /\ Z.abs (i1 - i') <= s /\ 0 <= i1 < ni k) by (unfold i1; lia).
    exists j1, i1. repeat split; try tauto.
    + apply inr_spec. cbn [nj ni blur]. lia.
    + cbn [m blur]. apply blur_spec; [lia | apply inr_spec; lia|].
      exists j', i'. repeat split; try tauto; try lia. apply inr_spec; lia.
  - intros [j1 [i1 (H1 & H2 & H3 & H4)]]. cbn [m blur] in H4.
    assert (H1' : inr k j1 i1 = true) by exact H1.
    apply blur_spec in H4; [|lia|auto]. destruct H4 as [j' [i' (G1 & G2 & G3 & G4)]].
    exists j', i'. repeat split; auto; lia.
Qed.

(* smear_mask: an edge / node is marked iff one of the faces it belongs to is marked *)
Theorem smear_spec k pj pi j i :
  m (smear k pj pi) j i = true <->
  exists dj di, In dj (shifts pj) /\ In di (shifts pi) /\ inr k (j - dj) (i - di) = true /\ m k (j - dj) (i - di) = true.
Proof.
  cbn [m smear]. split.
  - intros H. apply existsb_exists in H as [dj [Hdj H]]. apply existsb_exists in H as [di [Hdi H]].
    apply mget_true in H as [H1 H2]. eauto 8.
  - intros [dj [di (H1 & H2 & H3 & H4)]].
    apply existsb_exists. exists dj. split; auto. apply existsb_exists. exists di. split; auto.
    apply mget_true. auto.
Qed.

(* concretely: left edge (j,i) <- faces (j,i-1), (j,i); back edge (j,i) <- faces (j-1,i), (j,i);
   node (j,i) <- the four faces around it; with the shapes (nj, ni+1), (nj+1, ni), (nj+1, ni+1) *)
Theorem c_mask_shapes k :
  (nj (left_mask k), ni (left_mask k)) = (nj k, ni k + 1) /\
  (nj (back_mask k), ni (back_mask k)) = (nj k + 1, ni k) /\
  (nj (node_mask k), ni (node_mask k)) = (nj k + 1, ni k + 1).
Proof. cbn. repeat split; f_equal; lia. Qed.

Theorem left_mask_spec k j i : m (left_mask k) j i = mget k j (i - 1) || mget k j i.
Proof. cbn. rewrite !Z.sub_0_r, !orb_false_r. reflexivity. Qed.

Theorem back_mask_spec k j i : m (back_mask k) j i = mget k (j - 1) i || mget k j i.
Proof. cbn. rewrite !Z.sub_0_r, !orb_false_r. reflexivity. Qed.

Theorem node_mask_spec k j i :
  m (node_mask k) j i = mget k (j - 1) (i - 1) || mget k (j - 1) i || mget k j (i - 1) || mget k j i.
Proof. cbn. rewrite !Z.sub_0_r, !orb_false_r. now rewrite !orb_assoc. Qed.

(* grid clip mask: a cell is marked iff it lies within `buffer` steps of a cell hit by the geometry *)
Lemma memz_In x l : memz x l = true <-> In x l.
Proof.
  unfold memz. rewrite existsb_exists. split.
  - intros [y [H E]]. apply Z.eqb_eq in E. now subst.
  - intros H. exists x. split; auto. apply Z.eqb_refl.
Qed.

Theorem grid_clip_mask_spec ny nx hits b j i : 0 <= b -> 0 <= j < ny -> 0 <= i < nx ->
  (m (grid_clip_mask ny nx hits b) j i = true <->
   exists j' i', 0 <= j' < ny /\ 0 <= i' < nx /\ Z.abs (j - j') <= b /\ Z.abs (i - i') <= b /\
                 In (j' * nx + i') hits).
Proof.
  intros Hb Hj Hi. unfold grid_clip_mask.
  set (k := mask_of_hits ny nx hits).
  assert (Hin : inr k j i = true) by (apply inr_spec; cbn; lia).
  destruct (0 <? b) eqn:E.
  - cbn [m blur]. rewrite blur_spec by (auto; lia). split.
    + intros [j' [i' (H1 & H2 & H3 & H4)]]. apply inr_spec in H1. cbn in H1, H4.
      exists j', i'. repeat split; try lia. now apply memz_In.
    + intros [j' [i' (H1 & H2 & H3 & H4 & H5)]]. exists j', i'. repeat split; auto.
      * apply inr_spec. cbn. lia.
      * cbn. now apply memz_In.
  - apply Z.ltb_ge in E. assert (b = 0) by lia. subst b. cbn [m k mask_of_hits]. split.
    + intros H. exists j, i. repeat split; try lia. now apply memz_In.
    + intros [j' [i' (H1 & H2 & H3 & H4 & H5)]]. assert (j' = j) by lia. assert (i' = i) by lia. subst.
      now apply memz_In.
Qed.

(* ---------------- meshes ---------------- *)

Lemma nth_error_enum_gen {A} (l : list A) : forall lo n x, nth_error (enum lo l) n = Some x ->
  fst x = lo + Z.of_nat n /\ nth_error l n = Some (snd x).
Proof.
  induction l as [|a l IH]; intros lo n x H.
  - destruct n; discriminate.
  - rewrite enum_cons in H. destruct n as [|n].
    + cbn in H. injection H as <-. cbn. split; [lia | reflexivity].
    + cbn [nth_error] in H. apply IH in H as [H1 H2]. split; [lia | exact H2].
Qed.

Lemma nth_error_enum {A} (l : list A) n x : nth_error (enum 0 l) n = Some x ->
  x = (Z.of_nat n, nth n l (snd x)) /\ (n < length l)%nat.
Proof.
  intros H. apply nth_error_enum_gen in H as [H1 H2]. destruct x as [k a]. cbn [fst snd] in *. split.
  - f_equal; [lia|]. symmetry. now apply nth_error_nth.
  - apply nth_error_Some. congruence.
Qed.

(* buffer_faces: f is in the result iff it is a face of the mesh and is selected or shares a node with a
   selected face; the result is in face order *)
Theorem buffer_faces_spec fn sel f :
  In f (buffer_faces fn sel) <->
  0 <= f < Z.of_nat (length fn) /\
  (In f sel \/ exists n, In n (nth (Z.to_nat f) fn []) /\ In n (nodes_of fn sel)).
Proof.
  unfold buffer_faces. rewrite in_positions_where, Z.sub_0_r. split.
  - intros [H0 [[k row] [Hn Hp]]].
    apply nth_error_enum in Hn as [Hx Hlt]. cbn [snd fst] in *. injection Hx as Hk Hrow.
    split; [lia|]. assert (Ek : k = f) by lia. rewrite Ek in Hp. clear Ek Hk.
    apply orb_true_iff in Hp as [Hp|Hp].
    + left. now apply memz_In in Hp.
    + right. unfold shares in Hp. apply existsb_exists in Hp as [n [Hn1 Hn2]]. exists n.
      split; [|now apply memz_In].
      rewrite Hrow in Hn1. rewrite nth_indep with (d' := row) by exact Hlt. exact Hn1.
  - intros [Hf H]. split; [lia|].
    exists (f, nth (Z.to_nat f) fn []). split.
    + assert (Hin : In (f, nth (Z.to_nat f) fn []) (enum 0 fn)).
      { apply in_enum. rewrite Z.sub_0_r. split; [lia|]. apply nth_error_nth'. lia. }
      apply In_nth_error in Hin as [p Hp]. pose proof Hp as Hp'.
      apply nth_error_enum in Hp' as [Hx _]. injection Hx as Hk _.
      assert (p = Z.to_nat f) by lia. subst p. exact Hp.
    + cbn [fst snd]. apply orb_true_iff. destruct H as [H|[n [H1 H2]]].
      * left. now apply memz_In.
      * right. unfold shares. apply existsb_exists. exists n. split; auto. now apply memz_In.
Qed.

Theorem buffer_faces_sorted fn sel : StronglySorted Z.lt (buffer_faces fn sel).
Proof. apply positions_where_sorted. Qed.

(* the buffer never drops a selected face, and a larger selection gives a larger buffer *)
Theorem buffer_faces_superset fn sel f : 0 <= f < Z.of_nat (length fn) -> In f sel -> In f (buffer_faces fn sel).
Proof. intros Hf H. apply buffer_faces_spec. auto. Qed.

Lemma nodes_of_mono fn sel sel' n : incl sel sel' -> In n (nodes_of fn sel) -> In n (nodes_of fn sel').
Proof.
  unfold nodes_of. intros Hi H. apply in_flat_map in H as [f [Hf Hn]]. apply in_flat_map. eauto.
Qed.

Theorem buffer_faces_monotone fn sel sel' f : incl sel sel' -> In f (buffer_faces fn sel) -> In f (buffer_faces fn sel').
Proof.
  intros Hi H. apply buffer_faces_spec in H as [Hf H]. apply buffer_faces_spec. split; auto.
  destruct H as [H|[n [H1 H2]]]; [left; auto | right; exists n; split; auto].
  eapply nodes_of_mono; eauto.
Qed.

(* sort_unique: the distinct members, increasing *)
Theorem sort_unique_spec size xs x : In x (sort_unique size xs) <-> 0 <= x < size /\ In x xs.
Proof. unfold sort_unique. rewrite filter_In, in_zrange, memz_In. rewrite Z.add_0_l. tauto. Qed.

Lemma zrange_sorted lo n : StronglySorted Z.lt (zrange lo n).
Proof.
  unfold zrange. generalize (Z.to_nat n) as k. intros k. revert lo.
  assert (H : forall s lo, StronglySorted Z.lt (map (fun d => lo + Z.of_nat d) (seq s k))).
  { induction k as [|k IH]; intros s lo; cbn [seq map]; constructor; [apply IH|].
    apply Forall_forall. intros y Hy. apply in_map_iff in Hy as [d [<- Hd]]. apply in_seq in Hd. lia. }
  intros lo. apply H.
Qed.

Lemma filter_sorted (p : Z -> bool) l : StronglySorted Z.lt l -> StronglySorted Z.lt (filter p l).
Proof.
  induction 1 as [|x l Hs IH Hf]; cbn [filter]; [constructor|].
  destruct (p x); auto. constructor; auto.
  rewrite Forall_forall in *. intros y Hy. apply filter_In in Hy as [Hy _]. auto.
Qed.

Theorem sort_unique_sorted size xs : StronglySorted Z.lt (sort_unique size xs).
Proof. unfold sort_unique. apply filter_sorted, zrange_sorted. Qed.

(* renumbering: for a strictly increasing list of kept elements the old -> new table sends the k-th kept
   element to k and every other element to "dropped": contiguous, in original order *)
Lemma positions_eq_sorted l : StronglySorted Z.lt l -> forall lo k x,
  nth_error l k = Some x -> positions_where (Z.eqb x) lo l = [lo + Z.of_nat k].
Proof.
  induction 1 as [|a l Hs IH Hf]; intros lo k x Hk; [destruct k; discriminate|].
  rewrite positions_where_cons. destruct k as [|k].
  - cbn in Hk. injection Hk as ->. rewrite Z.eqb_refl.
    assert (E : positions_where (Z.eqb x) (lo + 1) l = []).
    { destruct (positions_where (Z.eqb x) (lo + 1) l) as [|p r] eqn:P; auto. exfalso.
      assert (Hin : In p (positions_where (Z.eqb x) (lo + 1) l)) by (rewrite P; left; reflexivity).
      apply in_positions_where in Hin as [_ [y [Hy Hxy]]]. apply Z.eqb_eq in Hxy. subst y.
      apply nth_error_In in Hy. rewrite Forall_forall in Hf. specialize (Hf _ Hy). lia. }
    rewrite E. f_equal. lia.
  - cbn in Hk. assert (Hx : In x l) by (eapply nth_error_In; eauto).
    rewrite Forall_forall in Hf. specialize (Hf _ Hx).
    replace (x =? a) with false by (symmetry; apply Z.eqb_neq; lia).
    rewrite (IH (lo + 1) k x Hk). f_equal. lia.
Qed.

Theorem renumber_sorted kept : StronglySorted Z.lt kept ->
  (forall k x, nth_error kept k = Some x -> position_in x kept = Some (Z.of_nat k)) /\
  (forall x, ~ In x kept -> position_in x kept = None).
Proof.
  intros Hs. split.
  - intros k x Hk. unfold position_in. rewrite (positions_eq_sorted kept Hs 0 k x Hk). cbn. f_equal; lia.
  - intros x Hx. unfold position_in.
    destruct (positions_where (Z.eqb x) 0 kept) as [|p r] eqn:P; auto. exfalso.
    assert (Hin : In p (positions_where (Z.eqb x) 0 kept)) by (rewrite P; left; reflexivity).
    apply in_positions_where in Hin as [_ [y [Hy Hxy]]]. apply Z.eqb_eq in Hxy. subst y.
    apply Hx. eapply nth_error_In; eauto.
Qed.

(* the code before the fix numbered faces in the spatial index's order when buffer = 0: not monotone *)
Theorem renumber_unsorted_refuted : exists kept, new_index_table 2 kept = [Some 1; Some 0].
Proof. exists [1; 0]. vm_compute. reflexivity. Qed.

Example ex_blur : blur_bits 3 4 1 1 = 51 /\ smear_bits 2 2 true true 1 = 27.
Proof. vm_compute. split; reflexivity. Qed.
