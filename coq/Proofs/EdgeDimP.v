From Coq Require Import ZArith List Bool Lia.
From EV Require Import Model.EdgeDim.
Import ListNotations.
Open Scope Z_scope.

Lemma edge_dimension_defined_iff : forall m, has_edge_dimension m = true <-> edge_dimension m <> None.
Proof.
  intros [a [[d1 x1]|] [[d2 x2]|] fa fn]; destruct a; unfold has_edge_dimension, edge_dimension; simpl; split; congruence.
Qed.

(* on a valid mesh the dimension found is the one that numbers the edges *)
Lemma edge_dimension_correct : forall e m, valid_edges e m = true -> has_edge_dimension m = true -> edge_dimension m = Some e.
Proof.
  intros e [a en ef fa fn]. unfold valid_edges, has_edge_dimension, edge_dimension. simpl.
  destruct a as [d|]; [intros H _; apply Z.eqb_eq in H; now subst|].
  destruct en as [[d1 x1]|]; destruct ef as [[d2 x2]|]; simpl; intros H Hh;
    try (apply andb_prop in H; destruct H as [H1 H2]); try discriminate;
    repeat match goal with H : (_ =? _) = true |- _ => apply Z.eqb_eq in H; subst end; reflexivity.
Qed.

(* ... and so is the one found by looking at the tables in the other order: on valid meshes the order of the lookup plays no
   part (why the seeded changes C01-o2 and C10-o3 do not break the property) *)
Lemma lookup_order_irrelevant_when_valid : forall e m, valid_edges e m = true -> edge_dimension_last m = edge_dimension m.
Proof.
  intros e [a en ef fa fn]. unfold valid_edges, edge_dimension_last, edge_dimension. simpl.
  destruct a as [d|]; [reflexivity|].
  destruct en as [[d1 x1]|]; destruct ef as [[d2 x2]|]; simpl; intros H;
    try (apply andb_prop in H; destruct H as [H1 H2]);
    repeat match goal with H : (_ =? _) = true |- _ => apply Z.eqb_eq in H; subst end; reflexivity.
Qed.

(* they part ways only on a file UGRID does not allow: a table stored the other way round without the attribute *)
Lemma lookup_order_matters_only_when_invalid :
  exists m, edge_dimension_last m <> edge_dimension m /\ forall e, valid_edges e m = false.
Proof.
  exists {| edge_dim_attr := None; edge_node := Some (5, 2); edge_face := Some (2, 5); face_dim_attr := None; face_node := (7, 8) |}.
  split; [vm_compute; discriminate|]. intros e. unfold valid_edges, standard_order. cbn [edge_dim_attr edge_node edge_face].
  destruct (Z.eqb_spec 5 e) as [H5|H5]; destruct (Z.eqb_spec 2 e) as [H2|H2]; cbn [andb]; try reflexivity; exfalso; lia.
Qed.

(* the face dimension: the attribute when there is one, else the first dimension of the face-node table *)
Lemma face_dimension_attr_wins : forall m d, face_dim_attr m = Some d -> face_dimension m = d.
Proof. intros m d H. unfold face_dimension. now rewrite H. Qed.

Lemma face_dimension_transposed_needs_attr : forall f x,
  face_dimension {| edge_dim_attr := None; edge_node := None; edge_face := None; face_dim_attr := Some f; face_node := (x, f) |} = f /\
  (x <> f -> face_dimension {| edge_dim_attr := None; edge_node := None; edge_face := None; face_dim_attr := None; face_node := (x, f) |} <> f).
Proof. intros f x. split; [reflexivity|]. simpl. auto. Qed.
