(* regions with a hole (used by the clip masks of C07): which cells meet an outer ring minus the open inside of a hole *)
From Coq Require Import ZArith QArith List Bool Lia.
From EV Require Import Base.Index Base.Geom Model.Lookup Proofs.LookupP.
Import ListNotations.
Open Scope Z_scope.

Definition in_open_hole (h : ring) (v : pt) : bool := strictly_inside h v && negb (on_boundary h v).

Lemma forallb_false_witness : forall (A : Type) (p : A -> bool) l, forallb p l = false -> exists x, In x l /\ p x = false.
Proof.
  intros A p l. induction l as [|a l IH]; simpl; [discriminate|].
  destruct (p a) eqn:E; simpl.
  - intros H. destruct (IH H) as [x [Hx Hp]]. exists x. split; [now right|exact Hp].
  - intros _. exists a. split; [now left|exact E].
Qed.

(* a cell is hit exactly when it has geometry, meets the outer ring, and has a vertex that is not in the open hole *)
Lemma hits_holed_spec : forall ps outer hole n,
  In n (hits_holed ps outer hole) <->
  0 <= n /\ exists r, nth_error ps (Z.to_nat n) = Some (Some r) /\ ring_meets_ring r outer = true /\
                      exists v, In v r /\ in_open_hole hole v = false.
Proof.
  intros ps outer hole n. unfold hits_holed. rewrite hits_spec. split.
  - intros [Hn [r [Hr Hm]]]. split; [exact Hn|]. exists r. split; [exact Hr|].
    unfold ring_meets_holed in Hm. simpl in Hm. apply andb_true_iff in Hm. destruct Hm as [Ho Hh]. split; [exact Ho|].
    apply negb_true_iff in Hh.
    destruct (forallb_false_witness _ _ r Hh) as [v [Hv Hf]]. exists v. split; [exact Hv|exact Hf].
  - intros [Hn [r [Hr [Ho [v [Hv Hf]]]]]]. split; [exact Hn|]. exists r. split; [exact Hr|].
    unfold ring_meets_holed. simpl. rewrite Ho. simpl. apply negb_true_iff.
    destruct (forallb (fun v0 => strictly_inside hole v0 && negb (on_boundary hole v0)) r) eqn:E; [|reflexivity].
    rewrite forallb_forall in E. specialize (E v Hv). unfold in_open_hole in Hf. congruence.
Qed.

(* cutting a hole never adds cells *)
Lemma hits_holed_subset : forall ps outer hole n, In n (hits_holed ps outer hole) -> In n (hits_ring ps outer).
Proof.
  intros ps outer hole n H. apply hits_holed_spec in H. destruct H as [Hn [r [Hr [Ho _]]]].
  unfold hits_ring. apply hits_spec. split; [exact Hn|]. exists r. now split.
Qed.

(* a cell lying in the open hole (every vertex strictly inside it) is not hit *)
Lemma in_hole_not_hit : forall ps outer hole n r, nth_error ps (Z.to_nat n) = Some (Some r) ->
  forallb (in_open_hole hole) r = true -> ~ In n (hits_holed ps outer hole).
Proof.
  intros ps outer hole n r Hr Hall H. apply hits_holed_spec in H. destruct H as [_ [r' [Hr' [_ [v [Hv Hf]]]]]].
  assert (E : Some (Some r) = Some (Some r')) by (rewrite <- Hr, <- Hr'; reflexivity).
  inversion E; subst. rewrite forallb_forall in Hall. rewrite (Hall v Hv) in Hf. discriminate.
Qed.
