From Coq Require Import ZArith List Lia Bool.
From EV Require Import Base.Index Base.LArr Model.Flatten.
Import ListNotations.
Open Scope Z_scope.

(* ---------- find_unused_dimension returns a fresh name ---------- *)

Lemma cand_inj j k : cand j = cand k -> j = k.
Proof. unfold cand. lia. Qed.

Lemma cand_ne_prefix k : cand k <> prefix_name.
Proof. unfold cand, prefix_name. lia. Qed.

Lemma find_cand_fresh ds : forall fuel k,
  (exists j, (k <= j < k + fuel)%nat /\ ~ In (cand j) ds) -> ~ In (find_cand fuel k ds) ds.
Proof.
  induction fuel as [|f IH]; intros k [j [Hj Hn]]; [lia|].
  cbn [find_cand]. destruct (mem (cand k) ds) eqn:M.
  - apply IH. exists j. split; auto.
    assert (j <> k) by (intros ->; apply mem_In in M; contradiction). lia.
  - now apply mem_false.
Qed.

Lemma pigeon ds : exists j, (0 <= j < 0 + S (length ds))%nat /\ ~ In (cand j) ds.
Proof.
  set (cs := map cand (seq 0 (S (length ds)))).
  assert (ND : NoDup cs).
  { apply FinFun.Injective_map_NoDup; [intros a b; apply cand_inj | apply seq_NoDup]. }
  destruct (existsb (fun c => negb (mem c ds)) cs) eqn:E.
  - apply existsb_exists in E as [c [Hc Hm]]. apply in_map_iff in Hc as [j [<- Hj]].
    apply in_seq in Hj. exists j. split; [lia|]. apply mem_false. now apply negb_true_iff.
  - exfalso.
    assert (I : incl cs ds).
    { intros c Hc. apply mem_In. destruct (mem c ds) eqn:M; auto.
      assert (existsb (fun c => negb (mem c ds)) cs = true)
        by (apply existsb_exists; exists c; rewrite M; auto). congruence. }
    pose proof (NoDup_incl_length ND I) as L. unfold cs in L. rewrite map_length, seq_length in L. lia.
Qed.

Lemma find_unused_fresh ds : ~ In (find_unused ds) ds.
Proof.
  unfold find_unused. destruct (mem prefix_name ds) eqn:M.
  - apply find_cand_fresh, pigeon.
  - now apply mem_false.
Qed.

(* ---------- labelled indexes ---------- *)

Lemma in_box_env (env : name -> Z) : forall ds ss, NoDup ds -> length ss = length ds ->
  in_box ss (map env ds) -> forall d, In d ds -> 0 <= env d < nth (index_of d ds) ss 1.
Proof.
  induction ds as [|x xs IH]; intros [|s ss] ND L B d Hd; simpl in *; try tauto; try discriminate.
  inversion B as [|? ? ? ? Hi Hb]; subst. inversion ND as [|? ? Hx ND']; subst.
  destruct (Z.eqb_spec d x) as [->|N]; [exact Hi|].
  destruct Hd as [->|Hd]; [congruence|]. apply IH; auto.
Qed.

Lemma env_in_box (env : name -> Z) (sz : name -> Z) : forall G,
  (forall d, In d G -> 0 <= env d < sz d) -> in_box (map sz G) (map env G).
Proof.
  induction G as [|g G IH]; intros H; simpl; constructor.
  - apply H; simpl; auto.
  - apply IH. intros d Hd. apply H; simpl; auto.
Qed.

Lemma size_of_pos {A} (a : larr A) d : wf a -> In d (dims a) -> 0 < size_of a d.
Proof.
  intros (ND & L & P) Hd. unfold size_of.
  assert (Hin : In (nth (index_of d (dims a)) (sizes a) 1) (sizes a)).
  { apply nth_In. rewrite L. now apply index_of_lt. }
  unfold pos_shape in P. rewrite Forall_forall in P. now apply P.
Qed.

Lemma index_of_app_fresh l (o : list name) : ~ In l o -> index_of l (o ++ [l]) = length o.
Proof.
  induction o as [|x xs IH]; intros H; simpl.
  - now rewrite Z.eqb_refl.
  - destruct (Z.eqb_spec l x) as [->|N]; [exfalso; apply H; simpl; auto|].
    f_equal. apply IH. intros Hin. apply H; simpl; auto.
Qed.

Section Thms.
  Context {A : Type}.
  Notation larr := (larr A).

  Lemma others_spec (a : larr) G d : In d (others a G) <-> In d (dims a) /\ ~ In d G.
  Proof.
    unfold others. rewrite filter_In, negb_true_iff, mem_false. tauto.
  Qed.

  Lemma incl_dims_others (a : larr) G : incl (dims a) (others a G ++ G).
  Proof.
    intros d Hd. apply in_or_app. destruct (mem d G) eqn:E.
    - right; now apply mem_In.
    - left. apply others_spec. split; auto. now apply mem_false.
  Qed.

  (* what a successful ravel_dims tells us *)
  Lemma ravel_dims_inv (a : larr) G lin r : ravel_dims G lin a = Some r ->
    G <> [] /\ incl G (dims a) /\ NoDup G /\
    exists l, ~ In l (others a G) /\ (forall l', lin = Some l' -> l = l') /\
      dims r = others a G ++ [l] /\
      sizes r = map (size_of a) (others a G) ++ [prod (map (size_of a) G)] /\
      forall idx, at_ r idx =
        at_ (transpose_to (others a G ++ G) a)
            (firstn (length (others a G)) idx ++
             unravel_aux (map (size_of a) G) (nth (length (others a G)) idx 0)).
  Proof.
    unfold ravel_dims, move_dims_to_end. destruct G as [|g G']; [discriminate|].
    set (G := g :: G') in *.
    destruct (forallb (fun d => mem d (dims a)) G && nodupb G) eqn:E; [|discriminate].
    apply andb_true_iff in E as [E1 E2].
    set (l := match lin with Some l => l | None => find_unused _ end).
    destruct (mem l (others a G)) eqn:M; [discriminate|]. intros [= <-].
    split; [discriminate|]. split.
    { intros d Hd. rewrite forallb_forall in E1. apply mem_In. now apply E1. }
    split; [now apply nodupb_NoDup|].
    exists l. split; [now apply mem_false|]. split.
    { intros l' ->. reflexivity. }
    cbn [dims sizes at_]. repeat split; reflexivity.
  Qed.

  (* the value at a labelling of the flattened array is the value of the original array at the labelling
     whose grid indexes are the unravelled linear index *)
  Definition env_of (a : larr) (G : list name) (l : name) (env' : name -> Z) : name -> Z :=
    fun d => if mem d G then nth (index_of d G) (unravel_aux (map (size_of a) G) (env' l)) 0 else env' d.

  Theorem ravel_get (a : larr) G lin r env' : ravel_dims G lin a = Some r ->
    get r env' = get a (env_of a G (last (dims r) 0) env').
  Proof.
    intros H. apply ravel_dims_inv in H as (HG & Hincl & ND & l & Hl & _ & Hd & _ & Hat).
    rewrite Hd, last_last. unfold get at 1. rewrite Hat, Hd.
    set (o := others a G). set (gs := map (size_of a) G).
    rewrite map_app. cbn [map].
    rewrite firstn_app, firstn_all2 by (rewrite map_length; lia).
    replace (length o - length (map env' o))%nat with 0%nat by (rewrite map_length; lia).
    cbn [firstn]. rewrite app_nil_r.
    rewrite app_nth2 by (rewrite map_length; lia).
    replace (length o - length (map env' o))%nat with 0%nat by (rewrite map_length; lia).
    cbn [nth].
    rewrite <- (transpose_get a (o ++ G) (env_of a G l env')) by apply incl_dims_others.
    unfold get. cbn [transpose_to dims]. f_equal. rewrite map_app. f_equal.
    - apply map_ext_in. intros d Hdo. apply others_spec in Hdo as [_ Hdo].
      unfold env_of. apply mem_false in Hdo. now rewrite Hdo.
    - symmetry. erewrite map_ext_in.
      2:{ intros d Hdg. unfold env_of. apply mem_In in Hdg. rewrite Hdg. reflexivity. }
      apply map_nth_index_of; auto. rewrite unravel_aux_length. unfold gs. apply map_length.
  Qed.

  (* flatten, then wind with the same grid: the original values under the original labels, grid dimensions
     restored in the convention's order after the untouched other dimensions *)
  Theorem wind_ravel (a : larr) G lin r : wf a -> ravel_dims G lin a = Some r ->
    exists w, wind_dim G (map (size_of a) G) (last (dims r) 0) r = Some w /\
      dims w = others a G ++ G /\
      sizes w = map (size_of a) (others a G ++ G) /\
      forall env, env_in a env -> get w env = get a env.
  Proof.
    intros W H. pose proof H as Hinv.
    apply ravel_dims_inv in Hinv as (HG & Hincl & ND & l & Hl & _ & Hd & Hs & Hat).
    destruct W as (NDa & La & Pa).
    set (o := others a G) in *. set (gs := map (size_of a) G) in *.
    rewrite Hd, last_last. unfold wind_dim.
    assert (M : mem l (dims r) = true) by (apply mem_In; rewrite Hd; apply in_or_app; right; simpl; auto).
    rewrite M. rewrite Hd, (index_of_app_fresh l o Hl).
    assert (Hsz : size_of r l = prod gs).
    { unfold size_of. rewrite Hd, Hs, (index_of_app_fresh l o Hl).
      rewrite app_nth2 by (rewrite map_length; lia). rewrite map_length, Nat.sub_diag. reflexivity. }
    assert (Pgs : pos_shape gs).
    { unfold gs, pos_shape. apply Forall_forall. intros s Hsin. apply in_map_iff in Hsin as [d [<- Hdg]].
      apply size_of_pos; [repeat split; auto | now apply Hincl]. }
    assert (Hnn : forallb (fun s => 0 <=? s) gs = true).
    { apply forallb_forall. intros s Hsin. unfold pos_shape in Pgs. rewrite Forall_forall in Pgs.
      apply Z.leb_le. specialize (Pgs s Hsin). lia. }
    rewrite Hsz, Z.eqb_refl, Hnn. unfold gs at 1. rewrite map_length, Nat.eqb_refl. cbn [andb].
    eexists. split; [reflexivity|]. cbn [dims sizes].
    assert (Lo : length (map (size_of a) o) = length o) by apply map_length.
    split; [|split].
    - rewrite firstn_app, firstn_all, Nat.sub_diag. cbn [firstn]. rewrite app_nil_r.
      replace (S (length o)) with (length (o ++ [l])) by (rewrite app_length; simpl; lia).
      now rewrite skipn_all, app_nil_r.
    - rewrite Hs, map_app. rewrite firstn_app, firstn_all2 by lia.
      replace (length o - length (map (size_of a) o))%nat with 0%nat by lia.
      cbn [firstn]. rewrite app_nil_r.
      replace (S (length o)) with (length (map (size_of a) o ++ [prod gs])) by (rewrite app_length; simpl; lia).
      now rewrite skipn_all, app_nil_r.
    - intros env Henv. unfold get at 1. cbn [dims at_].
      rewrite firstn_app, firstn_all, Nat.sub_diag. cbn [firstn]. rewrite app_nil_r.
      replace (S (length o)) with (length (o ++ [l])) by (rewrite app_length; simpl; lia).
      rewrite skipn_all, app_nil_r.
      rewrite map_app.
      rewrite firstn_app, firstn_all2 by (rewrite map_length; lia).
      replace (length o - length (map env o))%nat with 0%nat by (rewrite map_length; lia).
      cbn [firstn]. rewrite app_nil_r.
      rewrite skipn_app, skipn_all2 by (rewrite map_length; lia).
      replace (length o - length (map env o))%nat with 0%nat by (rewrite map_length; lia).
      cbn [skipn app].
      rewrite firstn_all2 by (unfold gs; rewrite !map_length; lia).
      rewrite skipn_all2 by (rewrite app_length; unfold gs; rewrite !map_length; lia).
      (* the grid indexes are in range, so they ravel to some n *)
      assert (B : in_box gs (map env G)).
      { unfold gs. apply env_in_box. intros d Hdg.
        apply (in_box_env env (dims a) (sizes a)); auto. }
      destruct (proj2 (ravel_some_iff gs (map env G)) B) as [n Hn].
      unfold ravel_or0. rewrite Hn.
      rewrite Hat. fold o. fold gs.
      rewrite firstn_app, firstn_all2 by (rewrite map_length; lia).
      replace (length o - length (map env o))%nat with 0%nat by (rewrite map_length; lia).
      cbn [firstn]. rewrite app_nil_r.
      rewrite app_nth2 by (rewrite map_length; lia).
      replace (length o - length (map env o))%nat with 0%nat by (rewrite map_length; lia).
      cbn [nth].
      pose proof (unravel_ravel gs Pgs _ _ Hn) as U. unfold unravel in U.
      destruct ((0 <=? n) && (n <? prod gs)); [|discriminate]. injection U as U. rewrite U.
      rewrite <- map_app. change (at_ (transpose_to (o ++ G) a) (map env (o ++ G)))
        with (get (transpose_to (o ++ G) a) env).
      apply transpose_get, incl_dims_others.
  Qed.

  (* a variable that carries the dimensions of no grid kind is refused *)
  Theorem unknown_grid_refused (kinds : grid_dims) lin (a : larr) :
    (forall k G, In (k, G) kinds -> ~ incl G (dims a)) -> conv_ravel kinds lin a = None.
  Proof.
    intros H. unfold conv_ravel, get_grid_kind.
    destruct (find _ kinds) as [[k G]|] eqn:F; [|reflexivity].
    apply find_some in F as [Hin Hall]. cbn [snd] in Hall. exfalso. apply (H k G Hin).
    intros d Hd. rewrite forallb_forall in Hall. apply mem_In. now apply Hall.
  Qed.

  (* the kind used for flattening is the first one, in the convention's order, whose dimensions are present *)
  Theorem grid_kind_first (kinds : grid_dims) (a : larr) k G :
    get_grid_kind kinds a = Some (k, G) -> In (k, G) kinds /\ incl G (dims a).
  Proof.
    unfold get_grid_kind. intros F. apply find_some in F as [Hin Hall]. split; auto.
    intros d Hd. cbn [snd] in Hall. rewrite forallb_forall in Hall. apply mem_In. now apply Hall.
  Qed.

  (* the flattened array keeps the other dimensions in their order and gets one new, unused, dimension *)
  Theorem ravel_dims_shape (a : larr) G lin r : ravel_dims G lin a = Some r ->
    exists l, dims r = others a G ++ [l] /\ ~ In l (others a G) /\
      sizes r = map (size_of a) (others a G) ++ [prod (map (size_of a) G)].
  Proof.
    intros H. apply ravel_dims_inv in H as (_ & _ & _ & l & Hl & _ & Hd & Hs & _). eauto.
  Qed.
End Thms.

(* non-vacuity: a (t, y, x) variable, grid (y, x), flattened and wound again *)
Example ex_roundtrip :
  let a := mk [5; 1; 2] [2; 2; 3] [1; 2; 3; 4; 5; 6; 7; 8; 9; 10; 11; 12] in
  ravel_then_wind [(0, [1; 2])] [(1, 2); (2, 3); (5, 2)] None 0 None None (transpose_to [2; 5; 1] a)
  = (Some ([5; 0], [2; 6], [1; 2; 3; 4; 5; 6; 7; 8; 9; 10; 11; 12]),
     Some ([5; 1; 2], [2; 2; 3], [1; 2; 3; 4; 5; 6; 7; 8; 9; 10; 11; 12])).
Proof. vm_compute. reflexivity. Qed.
