(* C06: which stored bounds variables the CF grid conventions accept, and what the polygons are in either case *)
From Coq Require Import ZArith QArith List Bool Lia.
From EV Require Import Base.Geom Model.Polygons.
Import ListNotations.
Open Scope Z_scope.

Lemma cf2d_bounds_ok_iff : forall ydim xdim dims sz,
  cf2d_bounds_ok ydim xdim dims sz = true <-> (exists d, dims = [ydim; xdim; d]) /\ sz = 4.
Proof.
  intros ydim xdim dims sz. unfold cf2d_bounds_ok. split.
  - destruct dims as [|a [|b [|c [|e r]]]]; try discriminate.
    intros H. apply andb_true_iff in H. destruct H as [H H3]. apply andb_true_iff in H. destruct H as [H1 H2].
    apply Z.eqb_eq in H1, H2, H3. subst. split; [now exists c|reflexivity].
  - intros [[d ->] ->]. now rewrite !Z.eqb_refl.
Qed.

Lemma cf1d_bounds_ok_iff : forall cdim dims sz,
  cf1d_bounds_ok cdim dims sz = true <-> (exists d, dims = [cdim; d]) /\ sz = 2.
Proof.
  intros cdim dims sz. unfold cf1d_bounds_ok. split.
  - destruct dims as [|a [|b [|c r]]]; try discriminate.
    intros H. apply andb_true_iff in H. destruct H as [H1 H2]. apply Z.eqb_eq in H1, H2. subst. split; [now exists b|reflexivity].
  - intros [[d ->] ->]. now rewrite !Z.eqb_refl.
Qed.

Lemma grid_list_ext : forall (A : Type) ny nx (f g : Z -> Z -> A),
  (forall j i, f j i = g j i) -> grid_list ny nx f = grid_list ny nx g.
Proof.
  intros A ny nx f g H. unfold grid_list. apply flat_map_ext. intros j. apply map_ext. intros i. apply H.
Qed.

Definition refused2 (ydim xdim : Z) (b : stored_bounds) : Prop :=
  match b with NoBounds => True | Stored dims sz _ => cf2d_bounds_ok ydim xdim dims sz = false end.
Definition accepted2 (ydim xdim : Z) (b : stored_bounds) (vals : list (list (list oq))) : Prop :=
  exists dims sz, b = Stored dims sz vals /\ cf2d_bounds_ok ydim xdim dims sz = true.

(* a bounds variable in any other layout plays no part: the polygons are those synthesised from the centres *)
Lemma cf2d_refused_ignored : forall ny nx ydim xdim lon lat lonb latb,
  refused2 ydim xdim lonb -> refused2 ydim xdim latb ->
  cf2d_raw ny nx ydim xdim lon lat lonb latb = cf2d_synth_raw ny nx lon lat.
Proof.
  intros ny nx ydim xdim lon lat lonb latb Hx Hy. unfold cf2d_raw, cf2d_synth_raw, cf2d_synth_cell.
  assert (E : forall c b, refused2 ydim xdim b -> forall j i, cf2d_coord_bounds ny nx ydim xdim c b j i = synth_cell ny nx c j i).
  { intros c b Hb j i. unfold cf2d_coord_bounds. destruct b as [|dims sz vals]; [reflexivity|]. simpl in Hb. now rewrite Hb. }
  apply grid_list_ext. intros j i. now rewrite (E lon lonb Hx), (E lat latb Hy).
Qed.

(* accepted bounds are used as stored *)
Lemma cf2d_accepted_used : forall ny nx ydim xdim lon lat lonb latb vx vy,
  accepted2 ydim xdim lonb vx -> accepted2 ydim xdim latb vy ->
  cf2d_raw ny nx ydim xdim lon lat lonb latb = cf2d_given_raw ny nx vx vy.
Proof.
  intros ny nx ydim xdim lon lat lonb latb vx vy [dx [sx [-> Hx]]] [dy [sy [-> Hy]]].
  unfold cf2d_raw, cf2d_given_raw, cf2d_given_cell. apply grid_list_ext. intros j i.
  unfold cf2d_coord_bounds. rewrite Hx, Hy. simpl. reflexivity.
Qed.

(* the two coordinates are decided independently: refusing one variable does not discard the other *)
Lemma cf2d_mixed : forall ny nx ydim xdim lon lat lonb latb vx j i,
  accepted2 ydim xdim lonb vx -> refused2 ydim xdim latb ->
  cf2d_coord_bounds ny nx ydim xdim lon lonb j i = map (at3 vx j i) [0; 1; 2; 3] /\
  cf2d_coord_bounds ny nx ydim xdim lat latb j i = synth_cell ny nx lat j i.
Proof.
  intros ny nx ydim xdim lon lat lonb latb vx j i [dx [sx [-> Hx]]] Hy. unfold cf2d_coord_bounds. rewrite Hx. split; [reflexivity|].
  destruct latb as [|dims sz vals]; [reflexivity|]. simpl in Hy. now rewrite Hy.
Qed.

Definition refused1 (cdim : Z) (b : stored_bounds1) : Prop :=
  match b with NoBounds1 => True | Stored1 dims sz _ => cf1d_bounds_ok cdim dims sz = false end.

Lemma cf1d_refused_ignored : forall ydim xdim lon lat lonb latb,
  refused1 xdim lonb -> refused1 ydim latb ->
  cf1d_polys ydim xdim lon lat lonb latb =
  match cf1d_synth lon, cf1d_synth lat with Some xb, Some yb => Some (cf1d_raw xb yb) | _, _ => None end.
Proof.
  intros ydim xdim lon lat lonb latb Hx Hy. unfold cf1d_polys, cf1d_coord_bounds.
  destruct lonb as [|dx sx vx]; destruct latb as [|dy sy vy]; simpl in Hx, Hy; rewrite ?Hx, ?Hy; reflexivity.
Qed.

Lemma cf1d_accepted_used : forall ydim xdim lon lat dx sx vx dy sy vy,
  cf1d_bounds_ok xdim dx sx = true -> cf1d_bounds_ok ydim dy sy = true ->
  cf1d_polys ydim xdim lon lat (Stored1 dx sx vx) (Stored1 dy sy vy) = Some (cf1d_raw vx vy).
Proof. intros. unfold cf1d_polys, cf1d_coord_bounds. now rewrite H, H0. Qed.

Example refused_layouts :
  cf2d_bounds_ok 0 1 [1; 0; 2] 4 = false /\ cf2d_bounds_ok 0 1 [2; 0; 1] 3 = false /\ cf2d_bounds_ok 0 1 [0; 1; 2] 5 = false /\
  cf2d_bounds_ok 0 1 [0; 1; 2] 4 = true /\ cf1d_bounds_ok 0 [2; 0] 3 = false /\ cf1d_bounds_ok 0 [0; 2] 3 = false /\
  cf1d_bounds_ok 0 [0; 2] 2 = true.
Proof. vm_compute. repeat split. Qed.
