From Coq Require Import ZArith QArith List Bool Lia Permutation.
From EV Require Import Base.Index Base.Geom Model.Lookup.
Import ListNotations.
Open Scope Z_scope.

Section LookupP.
  Context {G : Type}.
  Variable meets : ring -> G -> bool.
  Notation hits := (hits meets).
  Notation lookup := (lookup meets).
  Notation cell_hit := (cell_hit meets).

  Lemma in_combine_zrange {A} (l : list A) : forall lo n x,
    In (n, x) (combine (zrange lo (Z.of_nat (length l))) l) <->
    lo <= n /\ nth_error l (Z.to_nat (n - lo)) = Some x.
  Proof.
    induction l as [|a l IH]; intros lo n x.
    - simpl. split; [tauto|]. intros [_ H]. destruct (Z.to_nat (n - lo)); discriminate.
    - replace (zrange lo (Z.of_nat (length (a :: l)))) with (lo :: zrange (lo + 1) (Z.of_nat (length l))).
      2:{ unfold zrange. cbn [length]. rewrite Nat2Z.id. rewrite !Nat2Z.id.
          cbn [seq map]. f_equal; [lia|]. rewrite <- seq_shift, map_map. apply map_ext. intros; lia. }
      cbn [combine In]. rewrite IH. split.
      + intros [[= <- <-]|[H1 H2]].
        * split; [lia|]. now rewrite Z.sub_diag.
        * split; [lia|]. replace (Z.to_nat (n - lo)) with (S (Z.to_nat (n - (lo + 1)))) by lia. exact H2.
      + intros [H1 H2]. destruct (Z.eq_dec n lo) as [->|N].
        * left. rewrite Z.sub_diag in H2. cbn in H2. congruence.
        * right. split; [lia|].
          replace (Z.to_nat (n - lo)) with (S (Z.to_nat (n - (lo + 1)))) in H2 by lia. exact H2.
  Qed.

  (* the hits are exactly the positions of the polygons that meet the query; a hole is never a hit *)
  Lemma hits_spec ps g n :
    In n (hits ps g) <-> 0 <= n /\ exists r, nth_error ps (Z.to_nat n) = Some (Some r) /\ meets r g = true.
  Proof.
    unfold Lookup.hits. rewrite in_map_iff. split.
    - intros [[k p] [<- H]]. apply filter_In in H as [Hin Hc]. cbn [fst snd] in *.
      apply in_combine_zrange in Hin as [H0 Hn]. rewrite Z.sub_0_r in Hn.
      split; auto. destruct p as [r|]; [|discriminate]. eauto.
    - intros [H0 [r [Hn Hm]]]. exists (n, Some r). split; auto.
      apply filter_In. split; [|exact Hm]. apply in_combine_zrange. rewrite Z.sub_0_r. auto.
  Qed.

  Lemma fold_min_le t : forall h, fold_left Z.min t h <= h /\ forall m, In m t -> fold_left Z.min t h <= m.
  Proof.
    induction t as [|x t IH]; intros h; cbn [fold_left]; [split; [lia | intros m []]|].
    destruct (IH (Z.min h x)) as [H1 H2]. split; [lia|].
    intros m [<-|Hm]; [lia | auto].
  Qed.

  Lemma fold_min_in t : forall h, fold_left Z.min t h = h \/ In (fold_left Z.min t h) t.
  Proof.
    induction t as [|x t IH]; intros h; cbn [fold_left]; [auto|].
    destruct (IH (Z.min h x)) as [E|Hin]; [|right; right; exact Hin].
    rewrite E. destruct (Z.min_spec h x) as [[_ ->]|[_ ->]]; [left|right; left]; reflexivity.
  Qed.

  (* sort-and-take-first returns the least element, whatever the order of the hits *)
  Lemma first_of_min hs n : first_of hs = Some n <-> In n hs /\ forall m, In m hs -> n <= m.
  Proof.
    destruct hs as [|h t]; cbn [first_of].
    - split; [discriminate | intros [[] _]].
    - split.
      + intros [= <-]. destruct (fold_min_le t h) as [H1 H2]. split.
        * destruct (fold_min_in t h) as [->|Hin]; [left; reflexivity | right; exact Hin].
        * intros m [<-|Hm]; auto.
      + intros [Hin Hmin]. f_equal.
        destruct (fold_min_le t h) as [H1 H2].
        assert (Hf : In (fold_left Z.min t h) (h :: t)).
        { destruct (fold_min_in t h) as [->|H]; [left; reflexivity | right; exact H]. }
        specialize (Hmin _ Hf).
        destruct Hin as [<-|Hin]; [lia|]. specialize (H2 _ Hin). lia.
  Qed.

  Lemma first_of_perm hs hs' : Permutation hs hs' -> first_of hs = first_of hs'.
  Proof.
    intros P. destruct (first_of hs) as [n|] eqn:E.
    - symmetry. apply first_of_min. apply first_of_min in E as [Hin Hmin]. split.
      + eapply Permutation_in; eauto.
      + intros m Hm. apply Hmin. eapply Permutation_in; [apply Permutation_sym|]; eauto.
    - destruct hs; [|discriminate]. apply Permutation_nil in P. now subst.
  Qed.

  (* C04: whatever order the spatial index reports its hits in, the cell returned is the intersecting cell
     with the lowest linear index; it has geometry; nothing is returned iff no cell meets the point *)
  Theorem lookup_any_order ps g hs n : Permutation hs (hits ps g) -> first_of hs = Some n ->
    0 <= n /\
    (exists r, nth_error ps (Z.to_nat n) = Some (Some r) /\ meets r g = true) /\
    (forall m r, 0 <= m < n -> nth_error ps (Z.to_nat m) = Some (Some r) -> meets r g = false).
  Proof.
    intros P E. apply first_of_min in E as [Hin Hmin].
    assert (Hn : In n (hits ps g)) by (eapply Permutation_in; eauto).
    apply hits_spec in Hn as [H0 Hr]. split; auto. split; auto.
    intros m r Hm Hnth. destruct (meets r g) eqn:M; auto.
    assert (Him : In m hs).
    { eapply Permutation_in; [apply Permutation_sym; eauto|]. apply hits_spec. split; [lia|]. eauto. }
    specialize (Hmin _ Him). lia.
  Qed.

  Theorem lookup_none_iff ps g hs : Permutation hs (hits ps g) ->
    (first_of hs = None <->
     forall n r, 0 <= n -> nth_error ps (Z.to_nat n) = Some (Some r) -> meets r g = false).
  Proof.
    intros P. split.
    - intros E n r H0 Hn. destruct (meets r g) eqn:M; auto.
      assert (Hin : In n hs).
      { eapply Permutation_in; [apply Permutation_sym; eauto|]. apply hits_spec. eauto. }
      destruct hs; [destruct Hin | discriminate].
    - intros H. destruct hs as [|h t]; auto. exfalso.
      assert (Hin : In h (hits ps g)) by (eapply Permutation_in; eauto; left; reflexivity).
      apply hits_spec in Hin as [H0 [r [Hn Hm]]]. rewrite (H _ _ H0 Hn) in Hm. discriminate.
  Qed.

  Theorem lookup_is_first_of_hits ps g hs : Permutation hs (hits ps g) -> first_of hs = lookup ps g.
  Proof. intros P. unfold Lookup.lookup. now apply first_of_perm. Qed.
End LookupP.

(* non-vacuity: two unit squares sharing an edge; a point on the shared edge belongs to the lower index,
   a hole between them keeps its slot *)
Definition sq (x : Z) : ring :=
  [(inject_Z x, 0%Q); (inject_Z (x + 1), 0%Q); (inject_Z (x + 1), 1%Q); (inject_Z x, 1%Q)].
Example ex_lookup :
  lookup_point [Some (sq 0); None; Some (sq 1); Some (sq 2)] (1%Q, Qmake 1 2) = Some 0 /\
  hits_point [Some (sq 0); None; Some (sq 1); Some (sq 2)] (2%Q, 1%Q) = [2; 3] /\
  lookup_point [Some (sq 0); None; Some (sq 1)] (Qmake 5 2, 0%Q) = None.
Proof. vm_compute. repeat split. Qed.
