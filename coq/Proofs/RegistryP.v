From Coq Require Import ZArith List Lia Bool.
From EV Require Import Model.Registry.
Import ListNotations.
Open Scope Z_scope.

(* ================= the registry ================= *)
Fixpoint best (l : list (Z * Z)) : option (Z * Z) :=
  match l with
  | [] => None
  | x :: r => match best r with
              | Some b => if snd x <? snd b then Some b else Some x
              | None => Some x
              end
  end.

Lemma hd_insert_desc x l :
  hd_error (insert_desc x l) = match hd_error l with
                               | Some y => if snd x <? snd y then Some y else Some x
                               | None => Some x end.
Proof. destruct l as [|y r]; cbn; [reflexivity|]. destruct (snd x <? snd y); reflexivity. Qed.

Lemma hd_sort_desc l : hd_error (sort_desc l) = best l.
Proof.
  induction l as [|x r IH]; [reflexivity|]. cbn [sort_desc fold_right best].
  rewrite hd_insert_desc. fold (sort_desc r). rewrite IH. reflexivity.
Qed.

Lemma best_spec l b : best l = Some b ->
  (forall y, In y l -> snd y <= snd b) /\
  exists l1 l2, l = l1 ++ b :: l2 /\ forall y, In y l1 -> snd y < snd b.
Proof.
  revert b. induction l as [|x r IH]; intros b H; [discriminate|]. cbn [best] in H.
  destruct (best r) as [b'|] eqn:B.
  - destruct (IH b' eq_refl) as (Hmax & l1 & l2 & E & Hlt).
    destruct (snd x <? snd b') eqn:C; injection H as <-.
    + apply Z.ltb_lt in C. split.
      * intros y [<-|Hy]; [lia | auto].
      * exists (x :: l1), l2. split; [cbn; now rewrite E|]. intros y [<-|Hy]; auto.
    + apply Z.ltb_ge in C. split.
      * intros y [<-|Hy]; [lia|]. specialize (Hmax y Hy). lia.
      * exists [], r. split; [reflexivity|]. intros y [].
  - injection H as <-. destruct r; [|cbn in B; destruct (best r); [destruct (snd p <? snd p0)|]; discriminate].
    split; [intros y [<-|[]]; lia|]. exists [], []. split; [reflexivity|intros y []].
Qed.

Lemma best_none l : best l = None <-> l = [].
Proof.
  destruct l as [|x r]; cbn; [tauto|]. split; [|discriminate].
  destruct (best r); [destruct (snd x <? snd p)|]; discriminate.
Qed.

Lemma in_matches check convs c s : In (c, s) (matches check convs) <-> In c convs /\ check c = Some s.
Proof.
  unfold matches. rewrite in_flat_map. split.
  - intros (x & Hx & H). destruct (check x) as [sx|] eqn:E; [|destruct H]. destruct H as [[= <- <-]|[]]. auto.
  - intros [H1 H2]. exists c. split; [exact H1|]. rewrite H2. now left.
Qed.

Lemma matches_split check : forall convs m1 c s m2, matches check convs = m1 ++ (c, s) :: m2 ->
  exists l1 l2, convs = l1 ++ c :: l2 /\ matches check l1 = m1 /\ check c = Some s.
Proof.
  induction convs as [|x r IH]; intros m1 c s m2 H; [destruct m1; discriminate|].
  unfold matches in H. cbn [flat_map] in H. fold (matches check r) in H.
  destruct (check x) as [sx|] eqn:E.
  - cbn [app] in H. destruct m1 as [|y m1'].
    + injection H as <- <- _. exists [], r. auto.
    + injection H as <- H. destruct (IH _ _ _ _ H) as (l1 & l2 & E1 & E2 & E3).
      exists (x :: l1), l2. split; [cbn; now rewrite E1|]. split; [|exact E3].
      unfold matches. cbn [flat_map]. rewrite E. cbn [app]. f_equal. exact E2.
  - cbn [app] in H. destruct (IH _ _ _ _ H) as (l1 & l2 & E1 & E2 & E3).
    exists (x :: l1), l2. split; [cbn; now rewrite E1|]. split; [|exact E3].
    unfold matches. cbn [flat_map]. rewrite E. exact E2.
Qed.

Lemma guess_best check convs : guess check convs = option_map fst (best (matches check convs)).
Proof.
  unfold guess, match_conventions. rewrite <- hd_sort_desc.
  destruct (sort_desc (matches check convs)) as [|[c s] r]; reflexivity.
Qed.

(* the chosen class matches, no matching class is more specific, and every class listed before it is strictly less
   specific: the earliest of the most specific matches *)
Theorem guess_spec check convs c : guess check convs = Some c ->
  exists s l1 l2, check c = Some s /\ convs = l1 ++ c :: l2 /\
    (forall c' s', In c' convs -> check c' = Some s' -> s' <= s) /\
    (forall c' s', In c' l1 -> check c' = Some s' -> s' < s).
Proof.
  rewrite guess_best. destruct (best (matches check convs)) as [[c0 s]|] eqn:B; [|discriminate].
  intros [= <-]. destruct (best_spec _ _ B) as (Hmax & m1 & m2 & E & Hlt).
  destruct (matches_split check convs m1 c0 s m2 E) as (l1 & l2 & E1 & E2 & E3).
  exists s, l1, l2. repeat split; auto.
  - intros c' s' Hin Hc. apply (Hmax (c', s')). now apply in_matches.
  - intros c' s' Hin Hc. apply (Hlt (c', s')). rewrite <- E2. now apply in_matches.
Qed.

Theorem guess_none_iff check convs : guess check convs = None <-> forall c, In c convs -> check c = None.
Proof.
  rewrite guess_best. split.
  - intros H c Hc. destruct (best (matches check convs)) as [b|] eqn:B; [discriminate|].
    apply best_none in B. destruct (check c) as [s|] eqn:E; [|reflexivity].
    assert (Hin : In (c, s) (matches check convs)) by (now apply in_matches). rewrite B in Hin. destruct Hin.
  - intros H. destruct (best (matches check convs)) as [[c s]|] eqn:B; [|reflexivity]. exfalso.
    destruct (best_spec _ _ B) as (_ & m1 & m2 & E & _).
    assert (Hin : In (c, s) (matches check convs)) by (rewrite E; apply in_or_app; right; now left).
    apply in_matches in Hin as [Hc Hs]. rewrite (H c Hc) in Hs. discriminate.
Qed.

(* ---- registered conventions come first ---- *)
Lemma memz_In x l : memz x l = true <-> In x l.
Proof.
  unfold memz. rewrite existsb_exists. split.
  - intros (y & Hy & E). apply Z.eqb_eq in E. now subst.
  - intros H. exists x. split; [exact H|apply Z.eqb_refl].
Qed.

Lemma dedupe_in seen l x : In x (dedupe seen l) -> In x l /\ ~ In x seen.
Proof.
  revert seen. induction l as [|y r IH]; intros seen H; [destruct H|]. cbn [dedupe] in H.
  destruct (memz y seen) eqn:M.
  - destruct (IH _ H). split; [now right|assumption].
  - destruct H as [<-|H].
    + split; [now left|]. intros Hin. apply memz_In in Hin. congruence.
    + destruct (IH _ H) as [H1 H2]. split; [now right|]. intros Hin. apply H2. now right.
Qed.

Lemma dedupe_complete seen l x : In x l -> ~ In x seen -> In x (dedupe seen l).
Proof.
  revert seen. induction l as [|y r IH]; intros seen H N; [destruct H|]. cbn [dedupe].
  destruct (Z.eq_dec y x) as [->|Ne].
  - replace (memz x seen) with false by (symmetry; apply not_true_is_false; rewrite memz_In; exact N). now left.
  - destruct H as [->|H]; [congruence|]. destruct (memz y seen).
    + now apply IH.
    + right. apply IH; [exact H|]. intros [E|Hs]; [congruence|auto].
Qed.

Lemma dedupe_ext s1 s2 l : (forall x, In x s1 <-> In x s2) -> dedupe s1 l = dedupe s2 l.
Proof.
  revert s1 s2. induction l as [|y r IH]; intros s1 s2 H; [reflexivity|]. cbn [dedupe].
  assert (E : memz y s1 = memz y s2).
  { apply eq_true_iff_eq. rewrite !memz_In. apply H. }
  rewrite E. destruct (memz y s2); [now apply IH|]. f_equal. apply IH. intros x. cbn. rewrite H. tauto.
Qed.

Lemma dedupe_app seen a b : dedupe seen (a ++ b) = dedupe seen a ++ dedupe (a ++ seen) b.
Proof.
  revert seen. induction a as [|y r IH]; intros seen; [reflexivity|]. cbn [app dedupe].
  destruct (memz y seen) eqn:M.
  - rewrite IH. f_equal. apply dedupe_ext. intros x. cbn [In]. rewrite !in_app_iff.
    apply memz_In in M. split; [tauto|]. intros [<-|[H|H]]; auto.
  - cbn [app]. f_equal. rewrite IH. f_equal. apply dedupe_ext. intros x. cbn [In]. rewrite !in_app_iff. cbn [In]. tauto.
Qed.

Lemma app_split_before {A} (a b l1 l2 : list A) e : a ++ b = l1 ++ e :: l2 -> ~ In e a -> exists l1', l1 = a ++ l1'.
Proof.
  revert l1. induction a as [|x a IH]; intros l1 H N; [now exists l1|].
  destruct l1 as [|y l1]; cbn in H.
  - injection H as -> _. exfalso. apply N. now left.
  - injection H as <- H. destruct (IH l1 H) as [l1' ->]; [intros Hin; apply N; now right|]. now exists l1'.
Qed.

(* a manually registered class wins a tie against a class that only comes from the entry points *)
Theorem registered_wins_ties check registered eps r e sr se :
  In r registered -> ~ In e registered -> check r = Some sr -> check e = Some se -> se <= sr ->
  guess check (conventions registered eps) <> Some e.
Proof.
  intros Hr He Cr Ce Hle G. destruct (guess_spec _ _ _ G) as (s & l1 & l2 & Cs & E & _ & Hlt).
  rewrite Ce in Cs. injection Cs as <-.
  unfold conventions in E. rewrite dedupe_app in E.
  assert (NA : ~ In e (dedupe [] registered)) by (intros Hin; apply dedupe_in in Hin as [Hin _]; auto).
  destruct (app_split_before _ _ _ _ _ E NA) as [l1' ->].
  assert (Hin : In r (dedupe [] registered ++ l1')).
  { apply in_or_app. left. apply dedupe_complete; [exact Hr|intros []]. }
  specialize (Hlt r sr Hin Cr). lia.
Qed.

(* ---- the built-in classes ---- *)
Definition builtin := [ArakawaC; CFGrid1D; CFGrid2D; ShocSimple; ShocStandard; UGrid].

Theorem ugrid_needs_marker_and_mesh f convs :
  guess (check_builtin f) convs = Some UGrid -> ugrid_marker f = true /\ mesh_var f = true /\ topo_dim2 f = true.
Proof.
  intros G. destruct (guess_spec _ _ _ G) as (s & _ & _ & Cs & _). unfold check_builtin in Cs. cbn in Cs.
  destruct (ugrid_marker f), (mesh_var f), (topo_dim2 f); cbn in Cs; try discriminate. auto.
Qed.

Theorem shoc_over_cf f convs c :
  In ShocSimple convs -> ems_version f = true -> has_ji f = true ->
  guess (check_builtin f) convs = Some c -> c <> CFGrid1D /\ c <> CFGrid2D.
Proof.
  intros Hin E J G. destruct (guess_spec _ _ _ G) as (s & _ & _ & Cs & _ & Hmax & _).
  assert (Cshoc : check_builtin f ShocSimple = Some HIGH) by (unfold check_builtin; cbn; now rewrite E, J).
  specialize (Hmax _ _ Hin Cshoc). unfold HIGH in Hmax.
  split; intros ->; unfold check_builtin in Cs; cbn in Cs.
  - destruct (both f 1); [injection Cs as <-; unfold LOW in Hmax; lia | discriminate].
  - destruct (both f 2); [injection Cs as <-; unfold LOW in Hmax; lia | discriminate].
Qed.

Theorem shoc_standard_over_cf f convs c :
  In ShocStandard convs -> shoc_coords f = true ->
  guess (check_builtin f) convs = Some c -> c <> CFGrid1D /\ c <> CFGrid2D.
Proof.
  intros Hin E G. destruct (guess_spec _ _ _ G) as (s & _ & _ & Cs & _ & Hmax & _).
  assert (Cshoc : check_builtin f ShocStandard = Some HIGH) by (unfold check_builtin; cbn; now rewrite E).
  specialize (Hmax _ _ Hin Cshoc). unfold HIGH in Hmax.
  split; intros ->; unfold check_builtin in Cs; cbn in Cs.
  - destruct (both f 1); [injection Cs as <-; unfold LOW in Hmax; lia | discriminate].
  - destruct (both f 2); [injection Cs as <-; unfold LOW in Hmax; lia | discriminate].
Qed.

(* ================= binding ================= *)
Section B.
  Variable g : Z -> option Z.

  Lemma step_bound_stable s o d ob : lookup d (bound s) = Some ob -> lookup d (bound (fst (step g s o))) = Some ob.
  Proof.
    intros H. destruct o as [d'|d' c|d']; cbn [step].
    - destruct (lookup d' (bound s)) eqn:L; [exact H|].
      destruct (lookup d' (content s)); [|exact H]. destruct (g z); [|exact H]. cbn.
      destruct (d' =? d) eqn:E; [apply Z.eqb_eq in E; subst; congruence | exact H].
    - destruct (lookup d' (content s)); [|exact H].
      destruct (lookup d' (bound s)) eqn:L; cbn; [exact H|].
      destruct (d' =? d) eqn:E; [apply Z.eqb_eq in E; subst; congruence | exact H].
    - destruct (lookup d' (content s)); exact H.
  Qed.

  (* once a convention is attached it stays attached, whatever happens next *)
  Theorem bound_stable ops : forall s d ob, lookup d (bound s) = Some ob -> lookup d (bound (fst (run g s ops))) = Some ob.
  Proof.
    induction ops as [|o r IH]; intros s d ob H; [exact H|]. cbn [run].
    pose proof (step_bound_stable s o d ob H) as H1. destruct (step g s o) as [s1 x]. cbn [fst] in H1.
    specialize (IH s1 d ob H1). destruct (run g s1 r) as [s2 xs]. exact IH.
  Qed.

  (* every later access returns that same object and changes nothing *)
  Theorem access_returns_bound s d ob : lookup d (bound s) = Some ob ->
    exists c, step g s (Access d) = (s, OObj ob c).
  Proof. intros H. cbn [step]. rewrite H. eauto. Qed.

  (* a second attachment is refused and leaves the binding alone *)
  Theorem rebind_refused s d ob c ct : lookup d (bound s) = Some ob -> lookup d (content s) = Some ct ->
    snd (step g s (Bind d c)) = ORefused /\ bound (fst (step g s (Bind d c))) = bound s.
  Proof. intros H C. cbn [step]. rewrite C, H. auto. Qed.

  (* well-formed states: identifiers in use are below the counters, no object is bound to two datasets *)
  Definition wf (s : st) : Prop :=
    (forall d ob, lookup d (bound s) = Some ob -> d < next_ds s /\ ob < next_obj s) /\
    (forall d ct, lookup d (content s) = Some ct -> d < next_ds s) /\
    (forall d1 d2 ob, lookup d1 (bound s) = Some ob -> lookup d2 (bound s) = Some ob -> d1 = d2).

  Lemma wf_init ct : wf (init ct).
  Proof.
    unfold wf, init. cbn [bound content next_ds next_obj lookup]. repeat split; try discriminate.
    intros d c H. destruct (0 =? d) eqn:E; [apply Z.eqb_eq in E; lia | discriminate].
  Qed.

  Lemma wf_bind s d ob (c : Z) ct : wf s -> lookup d (bound s) = None -> lookup d (content s) = Some ct -> ob = next_obj s ->
    wf {| bound := (d, ob) :: bound s; cls_of := (ob, c) :: cls_of s; content := content s;
          next_ds := next_ds s; next_obj := ob + 1 |}.
  Proof.
    intros (W1 & W2 & W3) L C ->. unfold wf. cbn. split; [|split].
    - intros d0 ob H. destruct (d =? d0) eqn:E.
      + apply Z.eqb_eq in E. subst d0. injection H as <-. split; [eapply W2; eauto | lia].
      + destruct (W1 _ _ H). split; lia.
    - exact W2.
    - intros d1 d2 ob. destruct (d =? d1) eqn:E1, (d =? d2) eqn:E2.
      + apply Z.eqb_eq in E1, E2. congruence.
      + intros [= <-] H. destruct (W1 _ _ H). lia.
      + intros H [= <-]. destruct (W1 _ _ H). lia.
      + apply W3.
  Qed.

  Lemma wf_step s o : wf s -> wf (fst (step g s o)).
  Proof.
    intros W. pose proof W as (W1 & W2 & W3). destruct o as [d|d c|d]; cbn [step].
    - destruct (lookup d (bound s)) eqn:L; [exact W|].
      destruct (lookup d (content s)) eqn:C; [|exact W]. destruct (g z); [|exact W].
      cbn [fst]. eapply wf_bind; eauto.
    - destruct (lookup d (content s)) eqn:C; [|exact W].
      destruct (lookup d (bound s)) eqn:L; cbn [fst].
      + unfold wf. cbn. split; [|split]; auto.
        intros d0 ob H. destruct (W1 _ _ H). split; lia.
      + eapply wf_bind; eauto.
    - destruct (lookup d (content s)) eqn:C; [|exact W]. unfold wf. cbn. split; [|split].
      + intros d0 ob H. destruct (W1 _ _ H). split; lia.
      + intros d' ct. destruct (next_ds s =? d') eqn:E; [apply Z.eqb_eq in E; intros _; lia|].
        intros H. specialize (W2 _ _ H). lia.
      + exact W3.
  Qed.

  Theorem wf_run ops : forall s, wf s -> wf (fst (run g s ops)).
  Proof.
    induction ops as [|o r IH]; intros s W; [exact W|]. cbn [run].
    pose proof (wf_step s o W) as W1. destruct (step g s o) as [s1 x]. cbn [fst] in W1.
    specialize (IH s1 W1). destruct (run g s1 r) as [s2 xs]. exact IH.
  Qed.

  (* a copy is a new dataset with the same content and nothing attached; the original keeps its binding *)
  Theorem copy_fresh s d s' d' : wf s -> step g s (Copy d) = (s', ONewDataset d') ->
    lookup d' (bound s') = None /\ lookup d' (content s') = lookup d (content s) /\ bound s' = bound s.
  Proof.
    intros (W1 & W2 & W3). cbn [step]. destruct (lookup d (content s)) eqn:C; [|discriminate].
    intros [= <- <-]. cbn. rewrite Z.eqb_refl. repeat split; auto.
    destruct (lookup (next_ds s) (bound s)) eqn:L; [|reflexivity]. destruct (W1 _ _ L). lia.
  Qed.

  (* two datasets never share a convention object *)
  Theorem objects_not_shared ops ct d1 d2 ob :
    let s := fst (run g (init ct) ops) in
    lookup d1 (bound s) = Some ob -> lookup d2 (bound s) = Some ob -> d1 = d2.
  Proof. cbv zeta. intros H1 H2. destruct (wf_run ops (init ct) (wf_init ct)) as (_ & _ & W3). eapply W3; eauto. Qed.
End B.

(* non-vacuity: access, refused re-bind, copy, access on the copy gives another object *)
Example ex_history :
  snd (run (fun _ => Some CFGrid2D) (init 7) [Access 0; Bind 0 UGrid; Copy 0; Access 1; Access 0]) =
  [OObj 0 CFGrid2D; ORefused; ONewDataset 1; OObj 2 CFGrid2D; OObj 0 CFGrid2D].
Proof. vm_compute. reflexivity. Qed.

Example ex_guess :
  guess (check_builtin {| lat_dims := Some 2; lon_dims := Some 2; ems_version := true; has_ji := true;
                          shoc_coords := false; ugrid_marker := false; mesh_var := false; topo_dim2 := false |})
        (conventions [] builtin) = Some ShocSimple.
Proof. vm_compute. reflexivity. Qed.
