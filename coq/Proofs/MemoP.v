From Coq Require Import List Bool.
From EV Require Import Model.Memo.
Import ListNotations.

Section MemoP.
  Variables X K V : Type.
  Variable key : X -> K.
  Variable f : X -> V.
  Variable keq : K -> K -> bool.
  Hypothesis keq_spec : forall a b, keq a b = true <-> a = b.

  Notation lookup := (lookup K V keq).
  Notation ask := (ask X K V key f keq).
  Notation run := (run X K V key f keq).
  Notation Inv := (Inv X K V key f keq).

  Lemma keq_refl : forall a, keq a a = true.
  Proof. intros a. apply keq_spec. reflexivity. Qed.

  Lemma inv_nil : Inv [].
  Proof. intros k v H. discriminate. Qed.

  (* the key separates requests that are answered differently *)
  Definition separates : Prop := forall x y, key x = key y -> f x = f y.

  Lemma ask_sound : separates -> forall c x, Inv c -> snd (ask c x) = f x /\ Inv (fst (ask c x)).
  Proof.
    intros Hsep c x Hc. unfold Memo.ask. destruct (lookup (key x) c) as [v|] eqn:E.
    - simpl. split; [|exact Hc]. destruct (Hc _ _ E) as [y [Hk Hv]]. rewrite <- Hv. apply Hsep. exact Hk.
    - simpl. split; [reflexivity|]. intros k v H. simpl in H. destruct (keq k (key x)) eqn:Ek.
      + injection H as <-. exists x. split; [|reflexivity]. symmetry. now apply keq_spec.
      + now apply Hc.
  Qed.

  (* with such a key every request of every session is answered as if nothing had been asked before *)
  Lemma run_sound : separates -> forall xs c, Inv c -> snd (run c xs) = map f xs /\ Inv (fst (run c xs)).
  Proof.
    intros Hsep xs. induction xs as [|x r IH]; intros c Hc.
    - simpl. split; [reflexivity|exact Hc].
    - simpl. destruct (ask c x) as [c1 v] eqn:Ea. destruct (ask_sound Hsep c x Hc) as [Hv Hc1]. rewrite Ea in Hv, Hc1. simpl in Hv, Hc1.
      destruct (run c1 r) as [c2 vs] eqn:Er. destruct (IH c1 Hc1) as [Hvs Hc2]. rewrite Er in Hvs, Hc2. simpl in *.
      split; [now rewrite Hv, Hvs|exact Hc2].
  Qed.

  Lemma session_sound : separates -> forall xs, snd (run [] xs) = map f xs.
  Proof. intros Hsep xs. apply run_sound; [exact Hsep|apply inv_nil]. Qed.

  (* a key that is too coarse: two requests with one key and different answers - asked one after the other, the second gets
     the answer of the first *)
  Lemma coarse_key_refuted : forall x y, key x = key y -> f x <> f y -> snd (run [] [x; y]) <> map f [x; y].
  Proof.
    intros x y Hk Hne. simpl. unfold Memo.ask at 1. simpl.
    unfold Memo.ask. simpl. rewrite <- Hk, keq_refl. simpl. intros H. injection H as H. apply Hne. exact H.
  Qed.

  (* the answers of a session do not depend on the order of its requests iff ... at least: under a separating key any two
     orders give each request the same answer *)
  Lemma order_irrelevant : separates -> forall xs ys, snd (run [] (xs ++ ys)) = map f xs ++ map f ys.
  Proof. intros Hsep xs ys. rewrite session_sound by exact Hsep. apply map_app. Qed.
End MemoP.
