From Coq Require Import ZArith List Lia Bool Sorted.
From EV Require Import Base.Index Base.ListX Model.Mask Model.UMask Model.Export Model.Clip Proofs.MaskP Proofs.ExportP.
Import ListNotations.
Open Scope Z_scope.

(* ================= grids ================= *)
Lemma first_true_spec f : forall n lo x, first_true f lo n = Some x ->
  lo <= x < lo + Z.of_nat n /\ f x = true /\ forall y, lo <= y < x -> f y = false.
Proof.
  induction n as [|n IH]; intros lo x H; [discriminate|]. cbn [first_true] in H.
  destruct (f lo) eqn:E.
  - injection H as <-. repeat split; try lia; auto.
  - destruct (IH _ _ H) as (R & Fx & Hb). repeat split; try lia; auto.
    intros y Hy. destruct (Z.eq_dec y lo) as [->|N]; [exact E | apply Hb; lia].
Qed.

Lemma first_true_none f : forall n lo, first_true f lo n = None -> forall y, lo <= y < lo + Z.of_nat n -> f y = false.
Proof.
  induction n as [|n IH]; intros lo H y Hy; [lia|]. cbn [first_true] in H.
  destruct (f lo) eqn:E; [discriminate|]. destruct (Z.eq_dec y lo) as [->|N]; [exact E|]. apply (IH (lo + 1)); [exact H|lia].
Qed.

Lemma end_true_spec f n e : 0 <= n -> end_true f n = Some e ->
  0 < e <= n /\ f (e - 1) = true /\ forall y, e <= y < n -> f y = false.
Proof.
  intros Hn H. unfold end_true in H.
  destruct (first_true (fun r => f (n - 1 - r)) 0 (Z.to_nat n)) as [r|] eqn:F; [|discriminate].
  injection H as <-. apply first_true_spec in F as (R & Fx & Hb). rewrite Z2Nat.id in R by lia.
  repeat split; try lia.
  - replace (n - r - 1) with (n - 1 - r) by lia. exact Fx.
  - intros y Hy. specialize (Hb (n - 1 - y) ltac:(lia)). cbn in Hb. now replace (n - 1 - (n - 1 - y)) with y in Hb by lia.
Qed.

Lemma row_any_spec k j : row_any k j = true <-> exists i, 0 <= i < ni k /\ m k j i = true.
Proof.
  unfold row_any. rewrite existsb_exists. split.
  - intros (i & Hi & Hm). apply in_zrange in Hi. exists i. split; [lia|auto].
  - intros (i & Hi & Hm). exists i. split; [apply in_zrange; lia|auto].
Qed.
Lemma col_any_spec k i : col_any k i = true <-> exists j, 0 <= j < nj k /\ m k j i = true.
Proof.
  unfold col_any. rewrite existsb_exists. split.
  - intros (j & Hj & Hm). apply in_zrange in Hj. exists j. split; [lia|auto].
  - intros (j & Hj & Hm). exists j. split; [apply in_zrange; lia|auto].
Qed.

(* the crop box contains every selected cell, and each of its four sides touches one *)
Theorem bounds_spec k b : 0 <= nj k -> 0 <= ni k -> bounds k = Some b ->
  (forall j i, inr k j i = true -> m k j i = true -> lo_j b <= j < hi_j b /\ lo_i b <= i < hi_i b) /\
  0 <= lo_j b < hi_j b /\ hi_j b <= nj k /\ 0 <= lo_i b < hi_i b /\ hi_i b <= ni k /\
  row_any k (lo_j b) = true /\ row_any k (hi_j b - 1) = true /\ col_any k (lo_i b) = true /\ col_any k (hi_i b - 1) = true.
Proof.
  intros Hj Hi H. unfold bounds in H.
  destruct (first_true (row_any k) 0 (Z.to_nat (nj k))) as [a|] eqn:A; [|discriminate].
  destruct (end_true (row_any k) (nj k)) as [bj|] eqn:B; [|discriminate].
  destruct (first_true (col_any k) 0 (Z.to_nat (ni k))) as [c|] eqn:C; [|discriminate].
  destruct (end_true (col_any k) (ni k)) as [d|] eqn:D; [|discriminate].
  injection H as <-. cbn [lo_j hi_j lo_i hi_i].
  apply first_true_spec in A as (RA & FA & BA). apply first_true_spec in C as (RC & FC & BC).
  apply end_true_spec in B as (RB & FB & BB); [|lia]. apply end_true_spec in D as (RD & FD & BD); [|lia].
  rewrite Z2Nat.id in RA, RC by lia.
  assert (In1 : forall j i, inr k j i = true -> m k j i = true -> a <= j < bj /\ c <= i < d).
  { intros j i R M. apply inr_spec in R as [Rj Ri].
    assert (Hr : row_any k j = true) by (apply row_any_spec; eauto).
    assert (Hc : col_any k i = true) by (apply col_any_spec; eauto).
    repeat split.
    - destruct (Z_lt_ge_dec j a) as [L|]; [|lia]. rewrite (BA j) in Hr by lia. discriminate.
    - destruct (Z_lt_ge_dec j bj) as [|G]; [lia|]. rewrite (BB j) in Hr by lia. discriminate.
    - destruct (Z_lt_ge_dec i c) as [L|]; [|lia]. rewrite (BC i) in Hc by lia. discriminate.
    - destruct (Z_lt_ge_dec i d) as [|G]; [lia|]. rewrite (BD i) in Hc by lia. discriminate. }
  split; [exact In1|].
  (* non-emptiness of the box: the first selected row lies before the end *)
  apply row_any_spec in FA as Ha. destruct Ha as (i0 & Hi0 & M0).
  destruct (In1 a i0) as [X Y]; [apply inr_spec; lia | exact M0|].
  repeat split; auto; lia.
Qed.

(* every selected cell is still present, at its index minus the crop offset, with its value unchanged *)
Theorem selected_kept {E A} k b (fill : option A) (v : E -> Z -> Z -> A) e j i :
  0 <= nj k -> 0 <= ni k -> bounds k = Some b -> inr k j i = true -> m k j i = true ->
  inr (crop k b) (j - lo_j b) (i - lo_i b) = true /\ clip_var k b fill v e (j - lo_j b) (i - lo_i b) = v e j i.
Proof.
  intros Hj Hi B R M. destruct (bounds_spec k b Hj Hi B) as (In1 & _). destruct (In1 j i R M) as [X Y]. split.
  - apply inr_spec. cbn [crop nj ni]. lia.
  - unfold clip_var. replace (j - lo_j b + lo_j b) with j by lia. replace (i - lo_i b + lo_i b) with i by lia.
    destruct fill; [|reflexivity]. assert (G : mget k j i = true) by (apply mget_true; auto). now rewrite G.
Qed.

(* every remaining cell that was not selected holds the fill value *)
Theorem unselected_blank {E A} k b (f : A) (v : E -> Z -> Z -> A) e j i :
  m k (j + lo_j b) (i + lo_i b) = false -> clip_var k b (Some f) v e j i = f.
Proof.
  intros M. unfold clip_var. unfold mget. rewrite M. now destruct (inr k _ _).
Qed.

(* a variable that cannot represent a missing value is cropped, never altered *)
Theorem unmaskable_cropped {E A} k b (v : E -> Z -> Z -> A) e j i :
  clip_var k b None v e j i = v e (j + lo_j b) (i + lo_i b).
Proof. reflexivity. Qed.

(* the cropped mask is the mask, shifted: relative order of cells is preserved *)
Theorem crop_shift k b j i : m (crop k b) j i = m k (j + lo_j b) (i + lo_i b).
Proof. reflexivity. Qed.

(* ================= meshes ================= *)
Lemma select_rows_gen {A} (d : A) : forall (tab : list (option Z)) (rows : list A) lo,
  length rows = length tab ->
  compress (map is_some tab) rows = map (fun n => nth (Z.to_nat (n - lo)) rows d) (positions_where is_some lo tab).
Proof.
  induction tab as [|t tab IH]; intros [|r rows] lo L; try discriminate; [reflexivity|].
  cbn [map]. rewrite compress_cons, positions_where_cons. cbn in L.
  assert (E : map (fun n => nth (Z.to_nat (n - lo)) (r :: rows) d) (positions_where is_some (lo + 1) tab) =
              map (fun n => nth (Z.to_nat (n - (lo + 1))) rows d) (positions_where is_some (lo + 1) tab)).
  { apply map_ext_in. intros n Hn. apply positions_where_lb in Hn.
    replace (Z.to_nat (n - lo)) with (S (Z.to_nat (n - (lo + 1)))) by lia. reflexivity. }
  destruct (is_some t); cbn [app map].
  - rewrite E, Z.sub_diag. cbn [Z.to_nat nth]. f_equal. apply IH. lia.
  - rewrite E. apply IH. lia.
Qed.

(* row k of a clipped variable is the row of the k-th kept element: values only move, in their original order *)
Theorem select_rows_spec {A} (d : A) (tab : list (option Z)) (rows : list A) :
  length rows = length tab ->
  select_rows tab rows = map (fun n => nth (Z.to_nat n) rows d) (kept_of tab).
Proof.
  intros L. unfold select_rows, kept_of. rewrite (select_rows_gen d tab rows 0 L).
  apply map_ext. intros n. now rewrite Z.sub_0_r.
Qed.

Theorem kept_sorted tab : StronglySorted Z.lt (kept_of tab).
Proof. apply positions_where_sorted. Qed.

Theorem kept_spec tab n : In n (kept_of tab) <-> 0 <= n /\ exists x, nth_error tab (Z.to_nat n) = Some (Some x).
Proof.
  unfold kept_of. rewrite in_positions_where. rewrite Z.sub_0_r. split.
  - intros (H0 & o & Hn & Ho). split; [exact H0|]. destruct o; [eauto|discriminate].
  - intros (H0 & x & Hn). split; [exact H0|]. exists (Some x). auto.
Qed.

(* every reference in an updated table points to a surviving element under the new numbering, or is fill *)
Theorem update_conn_refs row_tab col_tab old count :
  (forall x y, nth x col_tab None = Some y -> 0 <= y < count) ->
  forall r e, In r (update_conn row_tab col_tab old) -> In (Some e) r -> 0 <= e < count.
Proof.
  intros Hc r e Hr He. unfold update_conn in Hr. apply in_map_iff in Hr as (r0 & <- & _).
  apply in_map_iff in He as (e0 & He0 & _). destruct e0 as [x|]; [|discriminate]. cbn in He0. eauto.
Qed.

(* the rows of an updated table are the rows of the kept elements, entry by entry mapped through the column table *)
Theorem update_conn_rows row_tab col_tab old : length old = length row_tab ->
  update_conn row_tab col_tab old =
  map (fun n => map (map_entry col_tab) (nth (Z.to_nat n) old [])) (kept_of row_tab).
Proof.
  intros L. unfold update_conn. rewrite (select_rows_spec [] row_tab old L), map_map. reflexivity.
Qed.

(* geometry of a kept face: a node renumbered through the table, looked up in the kept nodes' coordinates, has its
   original coordinates - each selected face keeps exactly its polygon, and nothing else is created *)
Theorem node_coordinates_preserved {C} (d : C) (coords : list C) (kept : list Z) n :
  StronglySorted Z.lt kept -> In n kept ->
  exists p, position_in n kept = Some p /\
            nth_error (map (fun x => nth (Z.to_nat x) coords d) kept) (Z.to_nat p) = Some (nth (Z.to_nat n) coords d).
Proof.
  intros Hs Hin. apply In_nth_error in Hin as [k Hk].
  destruct (renumber_sorted kept Hs) as [R _]. exists (Z.of_nat k). split; [now apply R|].
  rewrite Nat2Z.id, nth_error_map, Hk. reflexivity.
Qed.

Corollary face_polygon_preserved {C} (d : C) (coords : list C) (kept : list Z) (face : list Z) :
  StronglySorted Z.lt kept -> (forall n, In n face -> In n kept) ->
  let new_coords := map (fun x => nth (Z.to_nat x) coords d) kept in
  map (fun n => match position_in n kept with Some p => nth (Z.to_nat p) new_coords d | None => d end) face =
  map (fun n => nth (Z.to_nat n) coords d) face.
Proof.
  intros Hs Hf. cbv zeta. apply map_ext_in. intros n Hn.
  destruct (node_coordinates_preserved d coords kept n Hs (Hf n Hn)) as (p & -> & E).
  now apply nth_error_nth.
Qed.

(* a dropped element has no new index: no polygon appears that the original did not have *)
Theorem dropped_has_no_index kept x : ~ In x kept -> position_in x kept = None.
Proof.
  intros N. unfold position_in. destruct (positions_where (Z.eqb x) 0 kept) as [|q r] eqn:P; [reflexivity|]. exfalso.
  assert (Hin : In q (positions_where (Z.eqb x) 0 kept)) by (rewrite P; now left).
  apply in_positions_where in Hin as (_ & y & Hy & Ey). apply Z.eqb_eq in Ey. subst y. apply N. eapply nth_error_In; eauto.
Qed.

(* which fill value a variable gets: exactly the documented cases *)
Theorem find_fill_none a b c d : find_fill a b c d = FNone <-> a = false /\ b = None /\ c = None /\ d = false.
Proof. unfold find_fill. destruct a, b, c, d; cbn; intuition congruence. Qed.

Example ex_plan : clip_plan 3 4 (Z.lor (Z.shiftl 1 5) (Z.shiftl 1 10)) = Some (1, 3, 1, 3, 9).
Proof. vm_compute. reflexivity. Qed.
Example ex_update : update_conn [Some 0; None; Some 1] [None; Some 0; Some 1; Some 2] [[Some 1; Some 2; None]; [Some 0; Some 1; Some 2]; [Some 3; Some 0; Some 2]]
                    = [[Some 0; Some 1; None]; [Some 2; None; Some 1]].
Proof. vm_compute. reflexivity. Qed.
