From Coq Require Import ZArith List Bool Lia.
From EV Require Import Model.DepthCoord Model.PlotArgs Proofs.DepthCoordP.
Import ListNotations.
Open Scope Z_scope.

Lemma leftover_nil : forall gd dims, leftover gd dims = [] <-> forall x, In x dims -> In x gd.
Proof.
  intros gd dims. unfold leftover. split.
  - intros H x Hx. destruct (memz x gd) eqn:E; [now apply memz_spec|]. exfalso.
    assert (In x (filter (fun d => negb (memz d gd)) dims)) by (apply filter_In; split; [exact Hx|now rewrite E]).
    rewrite H in H0. exact H0.
  - intros H. induction dims as [|d r IH]; simpl; [reflexivity|].
    assert (memz d gd = true) by (apply memz_spec, H; now left). rewrite H0. simpl. apply IH. intros x Hx. apply H. now right.
Qed.

Lemma is_nil_spec : forall (A : Type) (l : list A), is_nil l = true <-> l = [].
Proof. intros A l. destruct l; simpl; split; congruence. Qed.

Lemma list_eqb_spec : forall a b, list_eqb a b = true <-> a = b.
Proof.
  induction a as [|x a IH]; intros [|y b]; simpl; split; try congruence; try reflexivity.
  - intros H. apply andb_true_iff in H. destruct H as [H1 H2]. apply Z.eqb_eq in H1. apply IH in H2. congruence.
  - intros H. inversion H; subst. rewrite Z.eqb_refl. simpl. now apply IH.
Qed.

(* values taken from a variable colour the patches only when the variable lies on the grid of the cells - the first kind
   whose dimensions it has is the default kind - and has no other dimension *)
Lemma poly_from_data : forall grids default dims ha hc ht c t,
  make_poly_collection grids default (Some dims) ha hc ht = PCollection FromData c t ->
  ha = false /\ grid_kind grids dims = Some default /\ (forall x, In x dims -> In x (dims_of grids default)) /\ t = ht
  /\ c = (if hc then FromUser else FromData).
Proof.
  intros grids default dims ha hc ht c t H. unfold make_poly_collection in H.
  destruct ha; [discriminate|]. destruct (grid_kind grids dims) as [k|] eqn:G; [|discriminate].
  destruct (Z.eqb k default) eqn:E; simpl in H; [|discriminate]. apply Z.eqb_eq in E. subst k.
  destruct (is_nil (leftover (dims_of grids default) dims)) eqn:N; [|discriminate].
  inversion H; subst. rewrite is_nil_spec in N; rewrite leftover_nil in N. repeat split; exact N.
Qed.

(* a variable with a dimension that is not a dimension of the cells' grid is refused *)
Lemma poly_leftover_refused : forall grids default dims ha hc ht d,
  In d dims -> ~ In d (dims_of grids default) ->
  forall a c t, make_poly_collection grids default (Some dims) ha hc ht <> PCollection a c t.
Proof.
  intros grids default dims ha hc ht d Hd Hn a c t H. unfold make_poly_collection in H.
  destruct ha; [discriminate|]. destruct (grid_kind grids dims) as [k|] eqn:G; [|discriminate].
  destruct (Z.eqb k default) eqn:E; simpl in H; [|discriminate]. apply Z.eqb_eq in E. subst k.
  destruct (is_nil (leftover (dims_of grids default) dims)) eqn:N; [|discriminate].
  rewrite is_nil_spec in N; rewrite leftover_nil in N. apply Hn, N, Hd.
Qed.

(* a variable whose grid kind is another one than the cells' is refused, however many locations that grid has *)
Lemma poly_other_grid_refused : forall grids default dims hc ht k,
  grid_kind grids dims = Some k -> k <> default ->
  make_poly_collection grids default (Some dims) false hc ht = POtherGrid.
Proof.
  intros grids default dims hc ht k G Hk. unfold make_poly_collection. rewrite G.
  assert (Z.eqb k default = false) by now apply Z.eqb_neq. now rewrite H.
Qed.

(* what the caller supplies is used as given: array only without a variable, clim and transform always *)
Lemma poly_user_overrides : forall grids default arg ha hc ht a c t,
  make_poly_collection grids default arg ha hc ht = PCollection a c t ->
  t = ht /\ (hc = true -> c = FromUser) /\ (a = FromUser <-> (arg = None /\ ha = true))
  /\ (hc = false -> c = FromData -> a = FromData).
Proof.
  intros grids default arg ha hc ht a c t H. unfold make_poly_collection in H. destruct arg as [dims|].
  - destruct ha; [discriminate|]. destruct (grid_kind grids dims) as [k|]; [|discriminate].
    destruct (negb (Z.eqb k default)); [discriminate|].
    destruct (is_nil _); [|discriminate]. inversion H; subst.
    split; [reflexivity|]. split; [intros ->; reflexivity|].
    split; [split; [discriminate|intros [E _]; discriminate]|]. intros _ _. reflexivity.
  - inversion H; subst. split; [reflexivity|]. split; [intros ->; reflexivity|]. split.
    + destruct ha; split; auto; try discriminate. intros [_ E]; discriminate.
    + intros ->. destruct ha; discriminate.
Qed.

(* arrows carry components only when both are given with identical dimensions, on the cells' grid, nothing left over *)
Lemma quiver_from_data : forall grids default u v ht c t,
  make_quiver grids default u v ht = QArrows c t ->
  t = ht /\ (c = FromData -> exists d, u = Some d /\ v = Some d /\ grid_kind grids d = Some default
                                     /\ forall x, In x d -> In x (dims_of grids default))
  /\ (c <> FromData -> c = Absent /\ (u = None \/ v = None)).
Proof.
  intros grids default u v ht c t H. unfold make_quiver in H.
  destruct u as [du|]; [destruct v as [dv|]|].
  - destruct (list_eqb du dv) eqn:E; simpl in H; [|discriminate]. apply list_eqb_spec in E. subst dv.
    destruct (grid_kind grids du) as [k|] eqn:G; [|discriminate].
    destruct (Z.eqb k default) eqn:K; simpl in H; [|discriminate]. apply Z.eqb_eq in K. subst k.
    destruct (is_nil _) eqn:N; [|discriminate]. inversion H; subst. rewrite is_nil_spec in N; rewrite leftover_nil in N.
    split; [reflexivity|]. split.
    + intros _. exists du. repeat split; [exact G|exact N].
    + intros Hc. exfalso. now apply Hc.
  - inversion H; subst. split; [reflexivity|]. split; [discriminate|]. intros _. split; [reflexivity|now right].
  - inversion H; subst. split; [reflexivity|]. split; [discriminate|]. intros _. split; [reflexivity|now left].
Qed.

Lemma quiver_other_grid_refused : forall grids default d ht k,
  grid_kind grids d = Some k -> k <> default -> make_quiver grids default (Some d) (Some d) ht = QOtherGrid.
Proof.
  intros grids default d ht k G Hk. unfold make_quiver.
  assert (list_eqb d d = true) by now apply list_eqb_spec. rewrite H. simpl. rewrite G.
  assert (Z.eqb k default = false) by now apply Z.eqb_neq. now rewrite H0.
Qed.

(* non-vacuity: a mesh with node (0), edge (1) and face (2) grids; faces are the cells *)
Definition ex_grids : list (Z * list Z) := [(0, [10]); (1, [11]); (2, [12])].
Example ex_plot :
  map (fun a => show_poly (make_poly_collection ex_grids 2 a false false true)) [Some [12]; Some [10]; Some [12; 20]; Some [20]; None]
  = [(0, 0, 0, true); (3, -1, -1, false); (4, -1, -1, false); (2, -1, -1, false); (0, 2, 2, true)]
  /\ show_poly (make_poly_collection ex_grids 2 (Some [12]) true false false) = (1, -1, -1, false)
  /\ map (fun uv => show_quiver (make_quiver ex_grids 2 (fst uv) (snd uv) false))
         [(Some [12], Some [12]); (Some [10], Some [10]); (Some [12], Some [12; 20]); (None, Some [12]); (Some [20; 12], Some [20; 12])]
     = [(0, 0, false); (3, -1, false); (1, -1, false); (0, 2, false); (4, -1, false)].
Proof. vm_compute. repeat split. Qed.
