From Coq Require Import ZArith List Lia Bool.
From EV Require Import Model.CliArgs.
Import ListNotations.
Open Scope Z_scope.

(* ---------------- characters of a decimal ---------------- *)
Definition okchar (c : Z) : bool := is_digit c || (c =? underscore) || (c =? dot) || (c =? minus).

Lemma okchar_not_space c : okchar c = true -> is_space c = false /\ c <> comma.
Proof.
  unfold okchar, is_digit, is_space, underscore, dot, minus, comma. intros H.
  repeat (apply orb_true_iff in H as [H|H]).
  - apply andb_true_iff in H as [H1 H2]. apply Z.leb_le in H1. apply Z.leb_le in H2.
    split; [|lia]. apply orb_false_iff. split; apply andb_false_iff; right; apply Z.leb_gt; lia.
  - apply Z.eqb_eq in H. subst. split; [reflexivity|lia].
  - apply Z.eqb_eq in H. subst. split; [reflexivity|lia].
  - apply Z.eqb_eq in H. subst. split; [reflexivity|lia].
Qed.

Lemma number_from_chars s : forall p, number_from p s = true -> forallb okchar s = true.
Proof.
  induction s as [|c r IH]; intros p H; [reflexivity|]. cbn [number_from] in H. cbn [forallb].
  unfold okchar at 1. destruct (is_digit c) eqn:D; [cbn; eauto|].
  destruct (c =? underscore) eqn:U; [|discriminate]. apply andb_true_iff in H as [_ H]. cbn. eauto.
Qed.

Lemma split_dot_spec s : forall a ob, split_dot s = (a, ob) ->
  s = a ++ match ob with Some b => dot :: b | None => [] end.
Proof.
  induction s as [|c r IH]; intros a ob H; cbn [split_dot] in H.
  - injection H as <- <-. reflexivity.
  - destruct (c =? dot) eqn:E.
    + injection H as <- <-. apply Z.eqb_eq in E. now subst.
    + destruct (split_dot r) as [a' b'] eqn:S. injection H as <- <-. cbn. f_equal. now apply IH.
Qed.

Lemma forallb_app_true {A} (p : A -> bool) a b : forallb p a = true -> forallb p b = true -> forallb p (a ++ b) = true.
Proof. intros. rewrite forallb_app. now apply andb_true_iff. Qed.

Lemma unsigned_chars s : is_unsigned s = true -> forallb okchar s = true /\ s <> [].
Proof.
  unfold is_unsigned. destruct (split_dot s) as [a ob] eqn:S. apply split_dot_spec in S. intros H.
  destruct ob as [b|].
  - subst s. split; [|destruct a; discriminate].
    assert (Hd : okchar dot = true) by reflexivity.
    apply orb_true_iff in H as [H|H]; apply andb_true_iff in H as [H1 H2].
    + apply forallb_app_true; [eapply number_from_chars; eauto|]. cbn [forallb]. rewrite Hd. cbn.
      apply orb_true_iff in H2 as [H2|H2]; [destruct b; [reflexivity|discriminate] | eapply number_from_chars; eauto].
    + destruct a; [|discriminate]. cbn [app forallb]. rewrite Hd. cbn. eapply number_from_chars; eauto.
  - rewrite app_nil_r in S. subst a. split; [eapply number_from_chars; eauto|].
    intros ->. discriminate.
Qed.

Lemma decimal_chars d : is_decimal d = true -> forallb okchar d = true /\ d <> [].
Proof.
  destruct d as [|c r]; [discriminate|]. cbn [is_decimal]. destruct (c =? minus) eqn:M; intros H.
  - split; [|discriminate]. cbn [forallb]. apply unsigned_chars in H as [H _]. rewrite H.
    unfold okchar. rewrite M. now rewrite !orb_true_r.
  - now apply unsigned_chars in H.
Qed.

Lemma decimal_no_space d : is_decimal d = true ->
  d <> [] /\ forall c, In c d -> is_space c = false /\ c <> comma.
Proof.
  intros H. apply decimal_chars in H as [H N]. split; [exact N|]. intros c Hc.
  rewrite forallb_forall in H. apply okchar_not_space. now apply H.
Qed.

(* ---------------- splitting on commas ---------------- *)
Lemma split_on_nonempty sep s : split_on sep s <> [].
Proof. induction s as [|c r IH]; cbn; [discriminate|]. destruct (c =? sep); [discriminate|]. destruct (split_on sep r); discriminate. Qed.

Lemma split_on_nosep sep x : (forall c, In c x -> c <> sep) -> split_on sep x = [x].
Proof.
  induction x as [|c r IH]; intros H; [reflexivity|]. cbn [split_on].
  replace (c =? sep) with false by (symmetry; apply Z.eqb_neq; apply H; now left).
  rewrite IH by (intros; apply H; now right). reflexivity.
Qed.

Lemma split_on_app_sep sep x y : (forall c, In c x -> c <> sep) -> split_on sep (x ++ sep :: y) = x :: split_on sep y.
Proof.
  induction x as [|c r IH]; intros H; cbn [app split_on].
  - now rewrite Z.eqb_refl.
  - replace (c =? sep) with false by (symmetry; apply Z.eqb_neq; apply H; now left).
    rewrite IH by (intros; apply H; now right). reflexivity.
Qed.

Fixpoint join (sep : Z) (fs : list (list Z)) : list Z :=
  match fs with
  | [] => []
  | [f] => f
  | f :: rest => f ++ sep :: join sep rest
  end.

Lemma join_split sep s : join sep (split_on sep s) = s.
Proof.
  induction s as [|c r IH]; [reflexivity|]. cbn [split_on]. destruct (c =? sep) eqn:E.
  - apply Z.eqb_eq in E. subst c. cbn [join]. destruct (split_on sep r) eqn:S.
    + now destruct (split_on_nonempty sep r).
    + cbn [app]. now rewrite IH.
  - destruct (split_on sep r) as [|f fs] eqn:S; [now destruct (split_on_nonempty sep r)|].
    cbn [join] in *. destruct fs; cbn [app]; now rewrite <- IH.
Qed.

(* ---------------- stripping white space ---------------- *)
Definition head_nonspace (s : list Z) : Prop := match s with c :: _ => is_space c = false | [] => True end.

Lemma lstrip_spec s : exists ws, s = ws ++ lstrip s /\ forallb is_space ws = true /\ head_nonspace (lstrip s).
Proof.
  induction s as [|c r IH]; [exists []; cbn; auto|]. cbn [lstrip]. destruct (is_space c) eqn:E.
  - destruct IH as (ws & H1 & H2 & H3). exists (c :: ws). cbn. rewrite E, H2. split; [f_equal; exact H1|auto].
  - exists []. cbn. auto.
Qed.

Lemma lstrip_app ws d : forallb is_space ws = true -> head_nonspace d -> lstrip (ws ++ d) = d.
Proof.
  induction ws as [|c r IH]; intros H Hd; cbn [app].
  - destruct d as [|x d]; [reflexivity|]. cbn in *. now rewrite Hd.
  - cbn in H. apply andb_true_iff in H as [H1 H2]. cbn [lstrip]. rewrite H1. auto.
Qed.

Definition last_nonspace (s : list Z) : Prop := head_nonspace (rev s).

Lemma rstrip_spec s : exists ws, s = rstrip s ++ ws /\ forallb is_space ws = true /\ last_nonspace (rstrip s).
Proof.
  unfold rstrip, last_nonspace. destruct (lstrip_spec (rev s)) as (ws & H1 & H2 & H3).
  exists (rev ws). split; [|split].
  - rewrite <- rev_app_distr, <- H1. now rewrite rev_involutive.
  - rewrite forallb_forall in *. intros x Hx. apply H2. now apply in_rev.
  - now rewrite rev_involutive.
Qed.

Lemma rstrip_app d ws : forallb is_space ws = true -> last_nonspace d -> rstrip (d ++ ws) = d.
Proof.
  intros H Hd. unfold rstrip. rewrite rev_app_distr, lstrip_app; [apply rev_involutive| |exact Hd].
  rewrite forallb_forall in *. intros x Hx. apply H. now apply in_rev.
Qed.

Lemma nospace_ends d : d <> [] -> (forall c, In c d -> is_space c = false) -> head_nonspace d /\ last_nonspace d.
Proof.
  intros N H. split.
  - destruct d; [congruence|]. cbn. apply H. now left.
  - unfold last_nonspace. destruct (rev d) as [|x r] eqn:E; [exact I|]. cbn. apply H. apply in_rev. rewrite E. now left.
Qed.

Lemma strip_app a d b : forallb is_space a = true -> forallb is_space b = true ->
  d <> [] -> (forall c, In c d -> is_space c = false) -> strip (a ++ d ++ b) = d.
Proof.
  intros Ha Hb N H. destruct (nospace_ends d N H) as [Hh Hl]. unfold strip.
  rewrite lstrip_app; [now apply rstrip_app|exact Ha|]. destruct d; [congruence|]. exact Hh.
Qed.

Lemma space_not_comma c : is_space c = true -> c <> comma.
Proof.
  unfold is_space, comma. intros H ->. cbn in H. discriminate.
Qed.

(* ---------------- the grammar, declaratively ---------------- *)
Definition Bounds (s : list Z) : Prop :=
  exists d1 d2 d3 d4 a1 b1 a2 b2 a3 b3,
    s = d1 ++ a1 ++ comma :: b1 ++ d2 ++ a2 ++ comma :: b2 ++ d3 ++ a3 ++ comma :: b3 ++ d4 /\
    forallb is_space (a1 ++ b1 ++ a2 ++ b2 ++ a3 ++ b3) = true /\
    is_decimal d1 = true /\ is_decimal d2 = true /\ is_decimal d3 = true /\ is_decimal d4 = true.

Lemma no_comma_mix (d : list Z) a b : (forall c, In c d -> is_space c = false /\ c <> comma) ->
  forallb is_space a = true -> forallb is_space b = true -> forall c, In c (a ++ d ++ b) -> c <> comma.
Proof.
  intros Hd Ha Hb c Hc. rewrite forallb_forall in Ha, Hb.
  apply in_app_or in Hc as [Hc|Hc]; [apply space_not_comma; auto|].
  apply in_app_or in Hc as [Hc|Hc]; [now apply Hd | apply space_not_comma; auto].
Qed.

Theorem accepts_sound s : accepts s = true -> Bounds s.
Proof.
  unfold accepts, fields. destruct (split_on comma s) as [|f1 [|f2 [|f3 [|f4 [|]]]]] eqn:S; try discriminate.
  intros H. apply andb_true_iff in H as [H D4]. apply andb_true_iff in H as [H D3]. apply andb_true_iff in H as [D1 D2].
  pose proof (join_split comma s) as J. rewrite S in J. cbn [join] in J.
  destruct (rstrip_spec f1) as (a1 & E1 & A1 & _).
  destruct (lstrip_spec f2) as (b1 & E2 & B1 & _). destruct (rstrip_spec (lstrip f2)) as (a2 & E2' & A2 & _).
  destruct (lstrip_spec f3) as (b2 & E3 & B2 & _). destruct (rstrip_spec (lstrip f3)) as (a3 & E3' & A3 & _).
  destruct (lstrip_spec f4) as (b3 & E4 & B3 & _).
  exists (rstrip f1), (strip f2), (strip f3), (lstrip f4), a1, b1, a2, b2, a3, b3.
  split.
  - rewrite <- J. rewrite E1 at 1. rewrite E2 at 1. rewrite E2' at 1. rewrite E3 at 1. rewrite E3' at 1. rewrite E4 at 1.
    unfold strip. repeat (rewrite <- app_assoc; cbn [app]). reflexivity.
  - split; [|auto]. rewrite !forallb_app, A1, B1, A2, B2, A3, B3. reflexivity.
Qed.

Theorem accepts_complete s : Bounds s -> accepts s = true.
Proof.
  intros (d1 & d2 & d3 & d4 & a1 & b1 & a2 & b2 & a3 & b3 & E & W & D1 & D2 & D3 & D4).
  rewrite !forallb_app in W. repeat (apply andb_true_iff in W as [? W]).
  destruct (decimal_no_space d1 D1) as [N1 C1]. destruct (decimal_no_space d2 D2) as [N2 C2].
  destruct (decimal_no_space d3 D3) as [N3 C3]. destruct (decimal_no_space d4 D4) as [N4 C4].
  assert (S : split_on comma s = [d1 ++ a1; b1 ++ d2 ++ a2; b2 ++ d3 ++ a3; b3 ++ d4]).
  { subst s.
    replace (d1 ++ a1 ++ comma :: b1 ++ d2 ++ a2 ++ comma :: b2 ++ d3 ++ a3 ++ comma :: b3 ++ d4)
      with ((d1 ++ a1) ++ comma :: ((b1 ++ d2 ++ a2) ++ comma :: ((b2 ++ d3 ++ a3) ++ comma :: (b3 ++ d4))))
      by (repeat (rewrite <- app_assoc; cbn [app]); reflexivity).
    rewrite split_on_app_sep.
    2:{ intros c Hc. apply (no_comma_mix d1 [] a1 C1 eq_refl ltac:(assumption) c). exact Hc. }
    f_equal. rewrite split_on_app_sep by (apply no_comma_mix; assumption).
    f_equal. rewrite split_on_app_sep by (apply no_comma_mix; assumption).
    f_equal. apply split_on_nosep. intros c Hc.
    apply (no_comma_mix d4 b3 [] C4 ltac:(assumption) eq_refl c). now rewrite app_nil_r. }
  unfold accepts, fields. rewrite S.
  assert (NS : forall d, (forall c, In c d -> is_space c = false /\ c <> comma) -> forall c, In c d -> is_space c = false)
    by (intros d Hd c Hc; now apply Hd).
  destruct (nospace_ends d1 N1 (NS d1 C1)) as [_ L1]. destruct (nospace_ends d4 N4 (NS d4 C4)) as [H4 _].
  rewrite rstrip_app by assumption. rewrite !strip_app by (try assumption; apply NS; assumption).
  rewrite lstrip_app by assumption. now rewrite D1, D2, D3, D4.
Qed.

Theorem accepts_iff s : accepts s = true <-> Bounds s.
Proof. split; [apply accepts_sound | apply accepts_complete]. Qed.

(* exactly three commas: a fifth field or a missing field is never bounds *)
Fixpoint count (sep : Z) (s : list Z) : nat :=
  match s with [] => O | c :: r => ((if Z.eqb c sep then 1 else 0) + count sep r)%nat end.

Lemma split_on_length sep s : length (split_on sep s) = S (count sep s).
Proof.
  induction s as [|c r IH]; [reflexivity|]. cbn [split_on count]. destruct (c =? sep).
  - cbn [length]. rewrite IH. lia.
  - destruct (split_on sep r) as [|f fs] eqn:E; [now destruct (split_on_nonempty sep r)|]. cbn [length] in *. lia.
Qed.

Lemma count_app sep a b : count sep (a ++ b) = (count sep a + count sep b)%nat.
Proof. induction a as [|c r IH]; [reflexivity|]. cbn [app count]. rewrite IH. lia. Qed.

Theorem accepts_three_commas s : accepts s = true -> count comma s = 3%nat.
Proof.
  unfold accepts, fields. intros H. pose proof (split_on_length comma s) as L.
  destruct (split_on comma s) as [|f1 [|f2 [|f3 [|f4 [|]]]]]; try discriminate. cbn in L. lia.
Qed.

Theorem extra_field_rejected s x : accepts s = true -> accepts (s ++ comma :: x) = false.
Proof.
  intros H. apply accepts_three_commas in H. unfold accepts, fields.
  pose proof (split_on_length comma (s ++ comma :: x)) as L. rewrite count_app in L. cbn [count] in L.
  rewrite Z.eqb_refl, H in L.
  destruct (split_on comma (s ++ comma :: x)) as [|f1 [|f2 [|f3 [|f4 [|f5 r]]]]]; cbn in L; try lia; reflexivity.
Qed.

(* every character of an accepted string is a digit, '_', '.', '-', ',' or white space: trailing text is never bounds *)
Theorem accepts_chars s : accepts s = true ->
  forall c, In c s -> okchar c = true \/ c = comma \/ is_space c = true.
Proof.
  intros H. apply accepts_sound in H as (d1 & d2 & d3 & d4 & a1 & b1 & a2 & b2 & a3 & b3 & E & W & D1 & D2 & D3 & D4).
  rewrite !forallb_app in W. repeat (apply andb_true_iff in W as [? W]).
  apply decimal_chars in D1 as [D1 _]. apply decimal_chars in D2 as [D2 _].
  apply decimal_chars in D3 as [D3 _]. apply decimal_chars in D4 as [D4 _].
  rewrite forallb_forall in *. subst s. intros c Hc.
  repeat (apply in_app_or in Hc as [Hc|Hc]; [auto|]; try (destruct Hc as [<-|Hc]; [auto|])). auto.
Qed.

(* ---------------- exit status ---------------- *)
Theorem failures_nonzero o : o <> Done -> (forall c, o = RaisedCommandException c -> c <> 0) -> exit_status o <> 0.
Proof. destruct o; cbn; intros H1 H2; try congruence; try lia. now apply (H2 code). Qed.

Theorem success_zero : exit_status Done = 0.
Proof. reflexivity. Qed.

Theorem guess_format_spec :
  guess_format ext_json = Some GeoJSON /\ guess_format ext_geojson = Some GeoJSON /\ guess_format ext_wkt = Some WKT /\
  guess_format ext_wkb = Some WKB /\ guess_format ext_shp = Some Shapefile /\
  forall e, e <> ext_json -> e <> ext_geojson -> e <> ext_wkt -> e <> ext_wkb -> e <> ext_shp -> guess_format e = None.
Proof.
  repeat split; try reflexivity. intros e H1 H2 H3 H4 H5. unfold guess_format, list_eqb.
  repeat (destruct (list_eq_dec Z.eq_dec e _); [congruence|]). reflexivity.
Qed.

(* examples / non-vacuity: "1.5 , -.2 , 3.,4" is bounds; "1,2,3,4,5" and "1,2,3,4x" are not *)
Example ex_accept : accepts [49;46;53;32;44;32;45;46;50;32;44;32;51;46;44;52] = true.
Proof. vm_compute. reflexivity. Qed.
Example ex_reject5 : accepts [49;44;50;44;51;44;52;44;53] = false.
Proof. vm_compute. reflexivity. Qed.
Example ex_rejectx : accepts [49;44;50;44;51;44;52;120] = false.
Proof. vm_compute. reflexivity. Qed.
