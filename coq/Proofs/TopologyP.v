From Coq Require Import ZArith List Lia Bool.
From EV Require Import Base.Index Base.ListX Model.Topology.
Import ListNotations.
Open Scope Z_scope.

(* ---------------- codec round trip ---------------- *)

Lemma compress_app a b : compress (a ++ b) = compress a ++ compress b.
Proof. unfold compress. apply flat_map_app. Qed.

Lemma compress_nones n : compress (repeat None n) = [].
Proof. induction n; cbn; auto. Qed.

Lemma map_repeat {A B} (f : A -> B) x n : map f (repeat x n) = repeat (f x) n.
Proof. induction n; cbn; congruence. Qed.

Lemma decode_fill e : (is_float e = false -> fill_attr e <> None) -> decode_cell e (fill_cell e) = None.
Proof.
  unfold fill_cell, decode_cell. destruct (is_float e) eqn:F; auto. intros H.
  destruct (fill_attr e) as [f|]; [now rewrite Z.eqb_refl | exfalso; now apply H].
Qed.

Lemma decode_row e width r :
  (is_float e = false -> forall f, fill_attr e = Some f -> forall z, In z r -> z + start_index e <> f) ->
  (is_float e = false -> fill_attr e = None -> length r = width) ->
  compress (map (decode_cell e) (encode_row e width r)) = r.
Proof.
  intros Hf Hn. unfold encode_row. rewrite map_app, compress_app.
  assert (E1 : compress (map (decode_cell e) (map (fun z => CNum (z + start_index e)) r)) = r).
  { clear Hn. induction r as [|z r IH]; [reflexivity|]. cbn [map].
    assert (D : decode_cell e (CNum (z + start_index e)) = Some z).
    { unfold decode_cell. destruct (is_float e) eqn:F; [f_equal; lia|].
      destruct (fill_attr e) as [f|] eqn:A; [|f_equal; lia].
      specialize (Hf eq_refl f eq_refl z (or_introl eq_refl)).
      replace (z + start_index e =? f) with false by (symmetry; apply Z.eqb_neq; auto). f_equal; lia. }
    unfold compress. cbn [flat_map]. rewrite D. cbn [app]. f_equal.
    apply IH. intros F f A z' Hz'. apply (Hf F f A). now right. }
  rewrite E1.
  destruct (is_float e) eqn:F.
  - rewrite map_repeat, decode_fill by (rewrite F; discriminate). now rewrite compress_nones, app_nil_r.
  - destruct (fill_attr e) as [f|] eqn:A.
    + rewrite map_repeat, decode_fill by (rewrite A; discriminate). now rewrite compress_nones, app_nil_r.
    + rewrite (Hn eq_refl eq_refl), Nat.sub_diag. cbn. now rewrite app_nil_r.
Qed.

Lemma encode_row_length e width r : (length r <= width)%nat -> length (encode_row e width r) = width.
Proof. intros H. unfold encode_row. rewrite app_length, map_length, repeat_length. lia. Qed.

(* transposing a rectangular table twice gives it back *)
Lemma map_nth_seq {A} (l : list A) d : map (fun k => nth k l d) (seq 0 (length l)) = l.
Proof.
  induction l as [|x l IH]; [reflexivity|]. cbn [length seq map nth]. f_equal.
  rewrite <- seq_shift, map_map. exact IH.
Qed.

Lemma transpose_involutive {A} (d : A) (rows : list (list A)) w :
  (0 < w)%nat -> rows <> [] -> (forall r, In r rows -> length r = w) -> transpose d (transpose d rows) = rows.
Proof.
  intros Hw Hne Hrect.
  assert (T : transpose d rows = map (fun c => map (fun r => nth c r d) rows) (seq 0 w)).
  { unfold transpose. destruct rows as [|r0 rest]; [congruence|].
    rewrite (Hrect r0) by (left; reflexivity). reflexivity. }
  rewrite T. destruct w as [|w']; [lia|].
  set (T0 := map (fun c => map (fun r => nth c r d) rows) (seq 0 (S w'))).
  unfold transpose.
  assert (NC : match T0 with r :: _ => length r | [] => 0%nat end = length rows)
    by (unfold T0; cbn [seq map]; apply map_length).
  rewrite NC. unfold T0.
  rewrite <- (map_nth_seq rows []) at 2.
  apply map_ext_in. intros c' Hc'. apply in_seq in Hc'.
  rewrite map_map.
  erewrite map_ext.
  2:{ intros c. rewrite (map_nth_d (fun r => nth c r d) rows c' d []) by (destruct c; reflexivity). reflexivity. }
  assert (L : length (nth c' rows []) = S w') by (apply Hrect, nth_In; lia).
  rewrite <- L. apply map_nth_seq.
Qed.

Lemma transpose_rect {A} (d : A) (rows : list (list A)) w :
  (0 < w)%nat -> rows <> [] -> (forall r, In r rows -> length r = w) ->
  transpose d rows <> [] /\ forall t, In t (transpose d rows) -> length t = length rows.
Proof.
  intros Hw Hne Hrect. unfold transpose. destruct rows as [|r0 rest] eqn:E; [congruence|].
  rewrite (Hrect r0) by (left; reflexivity). rewrite <- E. split.
  - destruct w; [lia|]. cbn. discriminate.
  - intros t Ht. apply in_map_iff in Ht as [c [<- _]]. apply map_length.
Qed.

(* C10: whatever the encoding - 0- or 1-based, NaN / _FillValue attribute / no fill needed, either dimension
   first - decoding what a writer stored gives back the faces *)
Theorem decode_encode e width m :
  (0 < width)%nat -> m <> [] ->
  (forall r, In r m -> (length r <= width)%nat) ->
  (is_float e = false -> forall f, fill_attr e = Some f -> forall r z, In r m -> In z r -> z + start_index e <> f) ->
  (is_float e = false -> fill_attr e = None -> forall r, In r m -> length r = width) ->
  map compress (to_index_array e (encode e width m)) = m.
Proof.
  intros Hw Hne Hlen Hf Hn. unfold to_index_array, encode.
  set (rows := map (encode_row e width) m).
  assert (Hrect : forall r, In r rows -> length r = width).
  { intros r Hr. apply in_map_iff in Hr as [r' [<- Hr']]. apply encode_row_length. auto. }
  assert (Hrne : rows <> []) by (unfold rows; destruct m; [congruence | discriminate]).
  assert (E : (if transposed e then transpose CNaN (if transposed e then transpose CNaN rows else rows)
               else (if transposed e then transpose CNaN rows else rows)) = rows).
  { destruct (transposed e); auto. now apply (transpose_involutive CNaN rows width). }
  rewrite E. unfold rows. rewrite !map_map.
  rewrite <- (map_id m) at 2. apply map_ext_in. intros r Hr.
  apply decode_row.
  - intros F f A z Hz. apply (Hf F f A r z); auto.
  - intros F A. apply Hn; auto.
Qed.

(* two files that encode the same faces differently decode to the same faces *)
Corollary encoding_independent e1 e2 w1 w2 m :
  map compress (to_index_array e1 (encode e1 w1 m)) = m ->
  map compress (to_index_array e2 (encode e2 w2 m)) = m ->
  map compress (to_index_array e1 (encode e1 w1 m)) = map compress (to_index_array e2 (encode e2 w2 m)).
Proof. congruence. Qed.

(* ---------------- the checker is sound ---------------- *)

Lemma memz_In x l : memz x l = true <-> In x l.
Proof.
  unfold memz. rewrite existsb_exists. split.
  - intros [y [H E]]. apply Z.eqb_eq in E. now subst.
  - intros H. exists x. split; auto. apply Z.eqb_refl.
Qed.

Lemma same_pair_sym p q : same_pair p q = same_pair q p.
Proof.
  unfold same_pair. rewrite (Z.eqb_sym (fst p) (fst q)), (Z.eqb_sym (snd p) (snd q)),
    (Z.eqb_sym (fst p) (snd q)), (Z.eqb_sym (snd p) (fst q)).
  f_equal. apply andb_comm.
Qed.

Lemma in_combine_nth {A B} (l : list A) (l' : list B) k a b :
  nth_error l k = Some a -> nth_error l' k = Some b -> In (a, b) (combine l l').
Proof.
  revert l' k. induction l as [|x l IH]; intros [|y l'] [|k]; cbn; try discriminate.
  - intros [= ->] [= ->]. now left.
  - intros H1 H2. right. eauto.
Qed.

(* a face's k-th edge lies on its k-th consecutive node pair *)
Theorem face_edges_sound fn en fe : face_edges_ok fn en fe = true ->
  forall f nodes es k p e, nth_error fn f = Some nodes -> nth_error fe f = Some es ->
    nth_error (node_pairs nodes) k = Some p -> nth_error es k = Some e ->
    exists q, edge_pair en e = Some q /\ same_pair p q = true.
Proof.
  unfold face_edges_ok. intros H f nodes es k p e Hf He Hp Hk.
  apply andb_true_iff in H as [_ H]. rewrite forallb_forall in H.
  specialize (H (nodes, es) (in_combine_nth _ _ _ _ _ Hf He)). cbn [fst snd] in H.
  apply andb_true_iff in H as [_ H]. rewrite forallb_forall in H.
  specialize (H (p, e) (in_combine_nth _ _ _ _ _ Hp Hk)). cbn [fst snd] in H.
  destruct (edge_pair en e) as [q|]; [eauto | discriminate].
Qed.

Theorem face_edges_count fn en fe : face_edges_ok fn en fe = true ->
  length fe = length fn /\
  forall f nodes es, nth_error fn f = Some nodes -> nth_error fe f = Some es -> length es = length (node_pairs nodes).
Proof.
  unfold face_edges_ok. intros H. apply andb_true_iff in H as [L H]. apply Nat.eqb_eq in L. split; auto.
  intros f nodes es Hf He. rewrite forallb_forall in H.
  specialize (H (nodes, es) (in_combine_nth _ _ _ _ _ Hf He)). cbn [fst snd] in H.
  apply andb_true_iff in H as [H _]. now apply Nat.eqb_eq in H.
Qed.

(* an edge lists exactly the faces that contain it *)
Theorem edge_faces_sound fe ef ne : edge_faces_ok fe ef ne = true ->
  forall e faces, 0 <= e -> nth_error ef (Z.to_nat e) = Some faces ->
    forall f es, 0 <= f -> nth_error fe (Z.to_nat f) = Some es -> (In f faces <-> In e es).
Proof.
  unfold edge_faces_ok. intros H e faces He0 He f es Hf0 Hf.
  apply andb_true_iff in H as [_ H]. rewrite forallb_forall in H.
  assert (Hin : In (e, faces) (enum 0 ef)) by (apply in_enum; rewrite Z.sub_0_r; auto).
  specialize (H _ Hin). cbn [fst snd] in H.
  apply andb_true_iff in H as [H _]. apply andb_true_iff in H as [H1 H2].
  rewrite forallb_forall in H1, H2. split.
  - intros Hff. specialize (H1 _ Hff). apply memz_In in H1. unfold row in H1.
    erewrite nth_error_nth in H1 by eauto. exact H1.
  - intros Hee. assert (Hinf : In (f, es) (enum 0 fe)) by (apply in_enum; rewrite Z.sub_0_r; auto).
    specialize (H2 _ Hinf). cbn [fst snd] in H2.
    apply memz_In in Hee. rewrite Hee in H2. now apply memz_In.
Qed.

(* face adjacency is exactly "shares an edge" and is symmetric *)
Theorem face_faces_sound fe ff : face_faces_ok fe ff = true ->
  forall f nb, 0 <= f -> nth_error ff (Z.to_nat f) = Some nb ->
    forall g es, 0 <= g -> nth_error fe (Z.to_nat g) = Some es -> (In g nb <-> shares_edge fe f g = true).
Proof.
  unfold face_faces_ok. intros H f nb Hf0 Hf g es Hg0 Hg.
  apply andb_true_iff in H as [_ H]. rewrite forallb_forall in H.
  assert (Hin : In (f, nb) (enum 0 ff)) by (apply in_enum; rewrite Z.sub_0_r; auto).
  specialize (H _ Hin). cbn [fst snd] in H. apply andb_true_iff in H as [H1 H2].
  rewrite forallb_forall in H1, H2. split.
  - intros Hgn. now apply H1.
  - intros Hs. assert (Hing : In (g, es) (enum 0 fe)) by (apply in_enum; rewrite Z.sub_0_r; auto).
    specialize (H2 _ Hing). cbn [fst snd] in H2. rewrite Hs in H2. now apply memz_In.
Qed.

Theorem shares_edge_sym fe f g : shares_edge fe f g = shares_edge fe g f.
Proof.
  unfold shares_edge. rewrite (Z.eqb_sym f g). f_equal.
  apply eq_true_iff_eq. rewrite !existsb_exists. split; intros [e [H1 H2]]; exists e;
    split; try (apply memz_In in H2; exact H2); apply memz_In; exact H1.
Qed.

(* the edge list: every entry is a node pair, no unordered pair twice, exactly the sides of the faces *)
Lemma no_dup_pairs_spec ps : no_dup_pairs ps = true ->
  forall i j p q, (i < j)%nat -> nth_error ps i = Some p -> nth_error ps j = Some q -> same_pair p q = false.
Proof.
  induction ps as [|x r IH]; intros H i j p q Hij Hi Hj; [destruct i; discriminate|].
  cbn [no_dup_pairs] in H. apply andb_true_iff in H as [H1 H2]. apply negb_true_iff in H1.
  destruct i as [|i].
  - cbn in Hi. injection Hi as ->. destruct j as [|j]; [lia|]. cbn in Hj.
    destruct (same_pair p q) eqn:E; auto.
    assert (existsb (same_pair p) r = true) by (apply existsb_exists; exists q; split; auto; eapply nth_error_In; eauto).
    congruence.
  - destruct j as [|j]; [lia|]. cbn in Hi, Hj. apply (IH H2 i j); auto; lia.
Qed.

Theorem edge_nodes_sound fn en : edge_nodes_ok fn en = true ->
  let ps := flat_map (fun o => match o with Some p => [p] | None => [] end) (all_edge_pairs en) in
  (forall r, In r en -> exists a b, r = [a; b]) /\
  (forall i j p q, (i < j)%nat -> nth_error ps i = Some p -> nth_error ps j = Some q -> same_pair p q = false) /\
  (forall p, In p ps -> exists f q, In f fn /\ In q (node_pairs f) /\ same_pair p q = true) /\
  (forall f q, In f fn -> In q (node_pairs f) -> exists p, In p ps /\ same_pair q p = true).
Proof.
  unfold edge_nodes_ok. intros H. cbv zeta in *.
  set (ps := flat_map (fun o => match o with Some p => [p] | None => [] end) (all_edge_pairs en)) in *.
  apply andb_true_iff in H as [H1 H]. apply andb_true_iff in H as [H H4]. apply andb_true_iff in H as [H2 H3].
  rewrite forallb_forall in H1, H3, H4. repeat split.
  - intros r Hr. specialize (H1 (match r with [a; b] => Some (a, b) | _ => None end)).
    assert (Hin : In (match r with [a; b] => Some (a, b) | _ => None end) (all_edge_pairs en))
      by (unfold all_edge_pairs; apply in_map_iff; eauto).
    specialize (H1 Hin). destruct r as [|a [|b [|c r]]]; try discriminate. eauto.
  - now apply no_dup_pairs_spec.
  - intros p Hp. specialize (H3 _ Hp). apply existsb_exists in H3 as [f [Hf H3]].
    apply existsb_exists in H3 as [q [Hq H3]]. eauto.
  - intros f q Hf Hq. specialize (H4 _ Hf). rewrite forallb_forall in H4. specialize (H4 _ Hq).
    apply existsb_exists in H4 as [p [Hp H4]]. eauto.
Qed.

Theorem checker_sound fn en fe ef ff : topology_okb fn en fe ef ff = true ->
  edge_nodes_ok fn en = true /\ face_edges_ok fn en fe = true /\
  edge_faces_ok fe ef (Z.of_nat (length en)) = true /\ face_faces_ok fe ff = true.
Proof.
  unfold topology_okb. intros H. apply andb_true_iff in H as [H H4]. apply andb_true_iff in H as [H H3].
  apply andb_true_iff in H as [H1 H2]. auto.
Qed.

(* non-vacuity: two triangles sharing an edge, stored one-based, transposed, with NaN fill for a padded quad slot *)
Example ex_codec :
  let e := {| start_index := 1; is_float := true; fill_attr := None; transposed := true |} in
  map compress (to_index_array e (encode e 4 [[0; 1; 2]; [1; 3; 2; 4]])) = [[0; 1; 2]; [1; 3; 2; 4]].
Proof. vm_compute. reflexivity. Qed.

Example ex_derive : snd (derive_all [[0; 1; 2]; [1; 3; 2]]) = true.
Proof. vm_compute. reflexivity. Qed.
