From Coq Require Import ZArith List Bool Lia.
From EV Require Import Model.FloorPlan.
Import ListNotations.
Open Scope Z_scope.

Lemma has_In : forall d l, has d l = true <-> In d l.
Proof.
  intros d l. unfold has. rewrite existsb_exists. split.
  - intros [x [Hx He]]. apply Z.eqb_eq in He. now subst.
  - intros H. exists d. split; [exact H|apply Z.eqb_refl].
Qed.

Lemma subset_spec : forall a b, subset a b = true <-> (forall x, In x a -> In x b).
Proof.
  intros a b. unfold subset. rewrite forallb_forall. split; intros H x Hx.
  - apply has_In. now apply H.
  - apply has_In. now apply H.
Qed.

Lemma same_set_spec : forall a b, same_set a b = true <-> (forall x, In x a <-> In x b).
Proof.
  intros a b. unfold same_set. rewrite andb_true_iff, !subset_spec. split.
  - intros [H1 H2] x. split; [apply H1|apply H2].
  - intros H. split; intros x Hx; now apply H.
Qed.

Lemma same_set_refl : forall a, same_set a a = true.
Proof. intros a. apply same_set_spec. tauto. Qed.

Lemma same_set_sym : forall a b, same_set a b = same_set b a.
Proof. intros a b. unfold same_set. apply andb_comm. Qed.

Lemma same_set_trans : forall a b c, same_set a b = true -> same_set b c = true -> same_set a c = true.
Proof.
  intros a b c H1 H2. rewrite same_set_spec in *. intros x. rewrite H1. apply H2.
Qed.

(* the group of a variable does not depend on which member names it *)
Lemma in_group_same_set : forall dd ns skip sp sp' v, same_set sp sp' = true -> in_group dd ns skip sp v = in_group dd ns skip sp' v.
Proof.
  intros dd ns skip sp sp' v H. unfold in_group. f_equal.
  destruct (same_set (spatial dd ns v) sp) eqn:E1, (same_set (spatial dd ns v) sp') eqn:E2; try reflexivity.
  - rewrite (same_set_trans _ _ _ E1 H) in E2. discriminate.
  - rewrite same_set_sym in H. rewrite (same_set_trans _ _ _ E2 H) in E1. discriminate.
Qed.

Lemma spatial_spec : forall dd ns v d, In d (spatial dd ns v) <-> In d (v_dims v) /\ d <> dd /\ ~ In d ns.
Proof.
  intros dd ns v d. unfold spatial. rewrite filter_In, andb_true_iff, !negb_true_iff. split.
  - intros [Hin [H1 H2]]. split; [exact Hin|]. split.
    + intros ->. rewrite Z.eqb_refl in H1. discriminate.
    + intros Hns. apply has_In in Hns. congruence.
  - intros [Hin [H1 H2]]. split; [exact Hin|]. split.
    + now apply Z.eqb_neq.
    + destruct (has d ns) eqn:E; [|reflexivity]. apply has_In in E. contradiction.
Qed.

(* a variable with the depth dimension and a horizontal dimension has a reference: the first data variable on the same
   depth dimension and the same horizontal dimensions (possibly itself) *)
Lemma reference_exists : forall dd ns skip vs v, In v vs -> has dd (v_dims v) = true -> has (v_name v) skip = false ->
  spatial dd ns v <> [] ->
  exists r, reference dd ns skip vs v = Some r /\ In r vs /\ has dd (v_dims r) = true /\ has (v_name r) skip = false /\
            same_set (spatial dd ns r) (spatial dd ns v) = true.
Proof.
  intros dd ns skip vs v Hin Hdd Hsk Hsp. unfold reference.
  destruct (find (in_group dd ns skip (spatial dd ns v)) vs) as [r|] eqn:E.
  - exists r. apply find_some in E. destruct E as [Hr Hg]. unfold in_group in Hg.
    apply andb_true_iff in Hg. destruct Hg as [Hg Hs]. apply andb_true_iff in Hg. destruct Hg as [Hg _].
    apply andb_true_iff in Hg. destruct Hg as [Hd Hk]. apply negb_true_iff in Hk. now repeat split.
  - exfalso. pose proof (find_none _ _ E v Hin) as Hn. unfold in_group in Hn. rewrite Hdd, Hsk, same_set_refl in Hn.
    destruct (spatial dd ns v); [contradiction|discriminate].
Qed.

(* ... and it is the first one: no earlier data variable belongs to the group *)
Lemma reference_is_first : forall dd ns skip vs v r, reference dd ns skip vs v = Some r ->
  exists pre post, vs = pre ++ r :: post /\ forall w, In w pre -> in_group dd ns skip (spatial dd ns v) w = false.
Proof.
  intros dd ns skip vs v r. unfold reference. generalize (in_group dd ns skip (spatial dd ns v)) as p. intros p.
  induction vs as [|x xs IH]; simpl; [discriminate|]. destruct (p x) eqn:Ex.
  - intros H. injection H as ->. exists [], xs. split; [reflexivity|]. intros w [].
  - intros H. destruct (IH H) as [pre [post [-> Hpre]]]. exists (x :: pre), post. split; [reflexivity|].
    intros w [<-|Hw]; [exact Ex|now apply Hpre].
Qed.

(* all members of a group are reduced at the floor located in the same variable *)
Lemma group_shares_reference : forall dd ns skip vs v w,
  same_set (spatial dd ns v) (spatial dd ns w) = true -> reference dd ns skip vs v = reference dd ns skip vs w.
Proof.
  intros dd ns skip vs v w H. unfold reference. induction vs as [|x xs IH]; simpl; [reflexivity|].
  rewrite (in_group_same_set dd ns skip _ _ x H). destruct (in_group dd ns skip (spatial dd ns w) x); [reflexivity|exact IH].
Qed.

Lemma depth_dim_of_none : forall dds v, depth_dim_of dds v = None <-> (forall d, In d dds -> ~ In d (v_dims v)).
Proof.
  intros dds v. unfold depth_dim_of. split.
  - intros H d Hd Hin. pose proof (find_none _ _ H d Hd) as Hn. simpl in Hn. apply has_In in Hin. congruence.
  - intros H. destruct (find (fun d => has d (v_dims v)) dds) as [d|] eqn:E; [|reflexivity].
    apply find_some in E. destruct E as [Hd Hh]. apply has_In in Hh. exfalso. exact (H d Hd Hh).
Qed.

(* a variable without any depth dimension is left as it was: untouched, with all its dimensions *)
Lemma no_depth_untouched : forall dds ns skip vs v, (forall d, In d dds -> ~ In d (v_dims v)) ->
  action_of dds ns skip vs v = Untouched /\ result_dims dds v = v_dims v.
Proof.
  intros dds ns skip vs v H. split.
  - unfold action_of. apply depth_dim_of_none in H. now rewrite H.
  - unfold result_dims. induction (v_dims v) as [|d ds IH]; simpl; [reflexivity|].
    assert (Hd : has d dds = false).
    { destruct (has d dds) eqn:E; [|reflexivity]. apply has_In in E. exfalso. apply (H d E). now left. }
    rewrite Hd. simpl. f_equal. apply IH. intros d' Hd' Hin. apply (H d' Hd'). now right.
Qed.

(* conversely only such variables are untouched *)
Lemma untouched_no_depth : forall dds ns skip vs v, action_of dds ns skip vs v = Untouched ->
  forall d, In d dds -> ~ In d (v_dims v).
Proof.
  intros dds ns skip vs v H. apply depth_dim_of_none. unfold action_of in H.
  destruct (depth_dim_of dds v) as [dd|]; [|reflexivity].
  destruct (has (v_name v) skip); [discriminate|].
  destruct (is_nil (spatial dd ns v)); [discriminate|]. destruct (reference dd ns skip vs v); discriminate.
Qed.

(* the bounds of a depth coordinate are never reduced and never locate a floor: they go with the dimension *)
Lemma depth_bounds_dropped : forall dds ns skip vs v dd, depth_dim_of dds v = Some dd -> has (v_name v) skip = true ->
  action_of dds ns skip vs v = Dropped.
Proof. intros dds ns skip vs v dd Hd Hs. unfold action_of. now rewrite Hd, Hs. Qed.

(* a data variable of the dataset with a depth dimension and a horizontal dimension is reduced, never dropped *)
Lemma depth_variable_floored : forall dds ns skip vs v dd, In v vs -> depth_dim_of dds v = Some dd ->
  has (v_name v) skip = false -> spatial dd ns v <> [] ->
  exists r, action_of dds ns skip vs v = Floored dd (v_name r) /\ In r vs /\ has dd (v_dims r) = true /\
            has (v_name r) skip = false /\ same_set (spatial dd ns r) (spatial dd ns v) = true.
Proof.
  intros dds ns skip vs v dd Hin Hd Hsk Hsp. unfold action_of. rewrite Hd, Hsk.
  assert (Hh : has dd (v_dims v) = true) by (unfold depth_dim_of in Hd; apply find_some in Hd; tauto).
  destruct (reference_exists dd ns skip vs v Hin Hh Hsk Hsp) as [r [Hr [Hrin [Hrd [Hrk Hrs]]]]].
  destruct (spatial dd ns v) eqn:E; [contradiction|]. simpl. rewrite <- E in *. rewrite Hr. exists r. now repeat split.
Qed.

(* no depth dimension is left on anything in the result, and every other dimension is kept in its place *)
Lemma result_dims_spec : forall dds v d, In d (result_dims dds v) <-> In d (v_dims v) /\ ~ In d dds.
Proof.
  intros dds v d. unfold result_dims. rewrite filter_In, negb_true_iff. split.
  - intros [H1 H2]. split; [exact H1|]. intros Hd. apply has_In in Hd. congruence.
  - intros [H1 H2]. split; [exact H1|]. destruct (has d dds) eqn:E; [|reflexivity]. apply has_In in E. contradiction.
Qed.

(* the result does not depend on the order in which the depth dimensions are visited, for variables with at most one of
   them (the code sorts them by hash, which differs from run to run) *)
Lemma depth_dim_of_unique : forall dds v dd, In dd dds -> In dd (v_dims v) ->
  (forall d, In d dds -> In d (v_dims v) -> d = dd) -> depth_dim_of dds v = Some dd.
Proof.
  intros dds v dd Hin Hv Hu. unfold depth_dim_of.
  destruct (find (fun d => has d (v_dims v)) dds) as [d|] eqn:E.
  - apply find_some in E. destruct E as [Hd Hh]. apply has_In in Hh. f_equal. now apply Hu.
  - pose proof (find_none _ _ E dd Hin) as Hn. simpl in Hn. apply has_In in Hv. congruence.
Qed.

Lemma action_order_independent : forall dds dds' ns skip vs v,
  (forall d, In d dds <-> In d dds') ->
  (forall d d', In d dds -> In d' dds -> In d (v_dims v) -> In d' (v_dims v) -> d = d') ->
  action_of dds ns skip vs v = action_of dds' ns skip vs v.
Proof.
  intros dds dds' ns skip vs v Hperm Hone. unfold action_of.
  destruct (depth_dim_of dds v) as [dd|] eqn:E.
  - assert (Hd : In dd dds /\ In dd (v_dims v)).
    { unfold depth_dim_of in E. apply find_some in E. destruct E as [H1 H2]. apply has_In in H2. tauto. }
    destruct Hd as [Hd Hv].
    rewrite (depth_dim_of_unique dds' v dd); [reflexivity|now apply Hperm|exact Hv|].
    intros d Hd' Hdv. apply Hone; try assumption. now apply Hperm.
  - assert (E' : depth_dim_of dds' v = None).
    { apply depth_dim_of_none. intros d Hd. apply (proj1 (depth_dim_of_none dds v) E). now apply Hperm. }
    now rewrite E'.
Qed.

(* non-vacuity: depth bounds zc_bnds(k, two) = 15, temp(time, k, y, x), eta(time, y, x), salt(k, y, x), dz(k), u(k, yl, xl) with depth dimension k = 1,
   time = 0: temp and salt share the floor located in temp, u has its own, dz goes with the dimension, eta is untouched *)
Example plan_example :
  show_plan (plan [1] [0] [15] [ {| v_name := 15; v_dims := [1; 9] |};
                            {| v_name := 10; v_dims := [0; 1; 2; 3] |}; {| v_name := 11; v_dims := [0; 2; 3] |};
                            {| v_name := 12; v_dims := [1; 3; 2] |}; {| v_name := 13; v_dims := [1] |};
                            {| v_name := 14; v_dims := [1; 4; 5] |} ]) =
  [ (15, (2, 0, 0), None); (10, (1, 1, 10), Some [0; 2; 3]); (11, (0, 0, 0), Some [0; 2; 3]); (12, (1, 1, 10), Some [3; 2]);
    (13, (2, 0, 0), None); (14, (1, 1, 14), Some [4; 5]) ].
Proof. vm_compute. reflexivity. Qed.
