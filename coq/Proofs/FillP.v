From Coq Require Import ZArith List Bool Lia.
From EV Require Import Model.Fill.
Import ListNotations.
Open Scope Z_scope.

Lemma digits_aux_pos : forall f n, 1 <= digits_aux f n.
Proof. induction f as [|f IH]; intros n; cbn [digits_aux]; [lia|]. destruct (n <? 10); [lia|]. specialize (IH (n / 10)). lia. Qed.

(* with enough fuel, n < 10 ^ digits and (for n >= 1) 10 ^ (digits - 1) <= n *)
Lemma digits_aux_spec : forall f n, 0 <= n -> n < 2 ^ (Z.of_nat f + 1) ->
  n < 10 ^ digits_aux f n /\ (1 <= n -> 10 ^ (digits_aux f n - 1) <= n).
Proof.
  induction f as [|f IH]; intros n Hn Hlt.
  - simpl in *. change (2 ^ 1) with 2 in Hlt. split; [change (10 ^ 1) with 10; lia|intros; change (10 ^ (1 - 1)) with 1; lia].
  - cbn [digits_aux]. destruct (Z.ltb_spec n 10) as [H10|H10].
    + split; [change (10 ^ 1) with 10; lia|intros; change (10 ^ (1 - 1)) with 1; lia].
    + assert (Hq : 0 <= n / 10) by (apply Z.div_pos; lia).
      assert (Hq2 : n / 10 < 2 ^ (Z.of_nat f + 1)).
      { replace (Z.of_nat (S f) + 1) with (Z.of_nat f + 1 + 1) in Hlt by lia.
        rewrite Z.pow_add_r in Hlt by lia. change (2 ^ 1) with 2 in Hlt.
        apply Z.div_lt_upper_bound; lia. }
      destruct (IH (n / 10) Hq Hq2) as [Hu Hl].
      pose proof (digits_aux_pos f (n / 10)) as Hp.
      assert (Hq1 : 1 <= n / 10) by (apply Z.div_le_lower_bound; lia).
      specialize (Hl Hq1).
      pose proof (Z.div_mod n 10 ltac:(lia)) as Hdm. pose proof (Z.mod_pos_bound n 10 ltac:(lia)) as Hmb.
      split.
      * rewrite Z.pow_add_r by lia. change (10 ^ 1) with 10. lia.
      * intros _. replace (1 + digits_aux f (n / 10) - 1) with (1 + (digits_aux f (n / 10) - 1)) by lia.
        rewrite Z.pow_add_r by lia. change (10 ^ 1) with 10. lia.
Qed.

Lemma digits_spec : forall n, 0 <= n -> n < 10 ^ digits n /\ (1 <= n -> 10 ^ (digits n - 1) <= n).
Proof.
  intros n Hn. unfold digits. apply digits_aux_spec; [exact Hn|].
  destruct (Z.eq_dec n 0) as [->|Hz]; [simpl; lia|].
  rewrite Z2Nat.id by apply Z.log2_nonneg.
  pose proof (Z.log2_spec n ltac:(lia)) as [_ H]. replace (Z.log2 n + 1) with (Z.succ (Z.log2 n)) by lia. exact H.
Qed.

Lemma digits_pos : forall n, 1 <= digits n.
Proof. intros n. unfold digits. apply digits_aux_pos. Qed.

(* the all-nines value with one digit more than the count is beyond the count plus one: no zero- or one-based element
   number equals it *)
Lemma all_nines_above : forall n, 0 <= n -> n + 1 < all_nines (digits n + 1).
Proof.
  intros n Hn. unfold all_nines. destruct (digits_spec n Hn) as [Hu _]. pose proof (digits_pos n) as Hp.
  rewrite Z.pow_add_r by lia. change (10 ^ 1) with 10. lia.
Qed.

Lemma sensible_fill_above : forall nc fc mnc, 0 <= nc -> 0 <= fc -> 0 <= mnc ->
  nc + 1 < sensible_fill nc fc mnc /\ fc * mnc + 1 < sensible_fill nc fc mnc.
Proof.
  intros nc fc mnc Hn Hf Hm. unfold sensible_fill.
  assert (H0 : 0 <= max_count nc fc mnc) by (unfold max_count; lia).
  pose proof (all_nines_above _ H0) as H. unfold max_count in *. lia.
Qed.

(* every element number of the mesh (nodes, faces, and edges - at most face_count * max_node_count of them), zero- or
   one-based, differs from the fill *)
Lemma sensible_fill_not_an_index : forall nc fc mnc si i, 0 <= nc -> 0 <= fc -> 0 <= mnc -> 0 <= si <= 1 ->
  0 <= i -> (i < nc \/ i < fc * mnc) -> i + si <> sensible_fill nc fc mnc.
Proof. intros nc fc mnc si i Hn Hf Hm Hs Hi Hlt. pose proof (sensible_fill_above nc fc mnc Hn Hf Hm). lia. Qed.

(* the capped fill lies within the stored type *)
Lemma capped_fill_fits : forall lo hi f, lo <= 0 -> lo <= hi -> 0 <= f -> lo <= capped_fill lo hi f <= hi.
Proof. intros lo hi f Hlo Hlh Hf. unfold capped_fill. destruct (Z.ltb_spec hi f); [destruct (Z.ltb_spec lo 0)|]; lia. Qed.

Lemma capped_fill_unchanged : forall lo hi f, f <= hi -> capped_fill lo hi f = f.
Proof. intros lo hi f H. unfold capped_fill. destruct (Z.ltb_spec hi f); lia. Qed.

(* signed type: the capped fill is no element number, however full the table is *)
Lemma capped_fill_signed_not_an_index : forall lo hi f count si i, lo < 0 -> 0 <= si <= 1 -> 0 <= i < count ->
  count + 1 < f -> i + si <> capped_fill lo hi f.
Proof. intros lo hi f count si i Hlo Hs Hi Hf. unfold capped_fill. destruct (Z.ltb_spec hi f); [destruct (Z.ltb_spec lo 0)|]; lia. Qed.

(* unsigned type: the same as long as the type has one value beyond the largest element number *)
Lemma capped_fill_unsigned_not_an_index : forall hi f count si i, 0 <= si <= 1 -> 0 <= i < count ->
  count + 1 < f -> count + si <= hi -> i + si <> capped_fill 0 hi f.
Proof. intros hi f count si i Hs Hi Hf Hm. unfold capped_fill. destruct (Z.ltb_spec hi f); [destruct (Z.ltb_spec 0 0)|]; lia. Qed.

(* writing then reading a table entry gives the new element number back, and a missing entry stays missing *)
Lemma entry_round_trip_signed : forall lo hi f count si e, lo < 0 -> 0 <= si <= 1 -> count + 1 < f ->
  (forall k, e = Some k -> 0 <= k < count) ->
  read_entry si (capped_fill lo hi f) (new_entry si (capped_fill lo hi f) e) = e.
Proof.
  intros lo hi f count si e Hlo Hs Hf He. unfold read_entry, new_entry. destruct e as [k|].
  - pose proof (capped_fill_signed_not_an_index lo hi f count si k Hlo Hs (He k eq_refl) Hf) as Hne.
    destruct (Z.eqb_spec (k + si) (capped_fill lo hi f)); [contradiction|]. f_equal. lia.
  - rewrite Z.eqb_refl. reflexivity.
Qed.

Lemma entry_round_trip_unsigned : forall hi f count si e, 0 <= si <= 1 -> count + 1 < f -> count + si <= hi ->
  (forall k, e = Some k -> 0 <= k < count) ->
  read_entry si (capped_fill 0 hi f) (new_entry si (capped_fill 0 hi f) e) = e.
Proof.
  intros hi f count si e Hs Hf Hm He. unfold read_entry, new_entry. destruct e as [k|].
  - pose proof (capped_fill_unsigned_not_an_index hi f count si k Hs (He k eq_refl) Hf Hm) as Hne.
    destruct (Z.eqb_spec (k + si) (capped_fill 0 hi f)); [contradiction|]. f_equal. lia.
  - rewrite Z.eqb_refl. reflexivity.
Qed.

(* the choice made before the repair 524840a loses an entry of a full table: 127 one-based elements stored as signed bytes -
   the entry naming element 126 (written 127) reads back as missing *)
Lemma old_fill_full_table_refuted :
  exists hi f count si k, 0 <= k < count /\ count + 1 < f /\
    read_entry si (capped_fill_old hi f) (new_entry si (capped_fill_old hi f) (Some k)) = None.
Proof. exists 127, 9999, 127, 1, 126. repeat split; try lia. Qed.

(* an unsigned type every value of which is an element number has no value left for "missing": the condition of
   entry_round_trip_unsigned is needed (255 one-based elements as unsigned bytes) *)
Lemma full_unsigned_table_refuted :
  exists hi f count si k, 0 <= k < count /\ count + 1 < f /\
    read_entry si (capped_fill 0 hi f) (new_entry si (capped_fill 0 hi f) (Some k)) = None.
Proof. exists 255, 9999, 255, 1, 254. repeat split; try lia. Qed.

(* non-vacuity: a 12-node, 8-face mesh of quadrilaterals stored as signed bytes *)
Example small_mesh_int8 :
  sensible_fill 12 8 4 = 999 /\ capped_fill (-128) 127 (sensible_fill 12 8 4) = -128 /\
  read_entry 1 (-128) (new_entry 1 (-128) (Some 7)) = Some 7 /\ read_entry 1 (-128) (new_entry 1 (-128) None) = None.
Proof. vm_compute. repeat split. Qed.
