From Coq Require Import ZArith QArith List Bool Lia.
From EV Require Import Base.Index Base.Geom Model.Polygons.
Import ListNotations.
Open Scope Z_scope.

(* ---------- row-major enumeration ---------- *)

Lemma zrange_nth lo n k d : (k < Z.to_nat n)%nat -> nth k (zrange lo n) d = lo + Z.of_nat k.
Proof.
  intros H. unfold zrange.
  rewrite nth_indep with (d' := lo + Z.of_nat 0) by (rewrite map_length, seq_length; lia).
  rewrite (map_nth (fun d => lo + Z.of_nat d)), seq_nth by lia. reflexivity.
Qed.

Lemma flat_map_const_length {A B} (f : A -> list B) (l : list A) (m : nat) :
  (forall a, In a l -> length (f a) = m) -> length (flat_map f l) = (length l * m)%nat.
Proof.
  induction l as [|a l IH]; intros H; simpl; auto.
  rewrite app_length, IH by (intros; apply H; simpl; auto).
  rewrite (H a) by (simpl; auto). reflexivity.
Qed.

Lemma nth_flat_map_const {A B} (f : A -> list B) (m : nat) : forall (l : list A) (j i : nat) (d : B) (da : A),
  (forall a, length (f a) = m) -> (j < length l)%nat -> (i < m)%nat ->
  nth (j * m + i) (flat_map f l) d = nth i (f (nth j l da)) d.
Proof.
  induction l as [|a l IH]; intros j i d da Hm Hj Hi; simpl in *; [lia|].
  destruct j as [|j].
  - simpl. rewrite app_nth1 by (rewrite Hm; lia). reflexivity.
  - rewrite app_nth2 by (rewrite Hm; simpl; lia). rewrite Hm.
    replace (S j * m + i - m)%nat with (j * m + i)%nat by (simpl; lia).
    apply IH; auto; lia.
Qed.

Lemma grid_list_length {A} ny nx (f : Z -> Z -> A) : 0 <= ny -> 0 <= nx ->
  length (grid_list ny nx f) = Z.to_nat (ny * nx).
Proof.
  intros Hy Hx. unfold grid_list.
  rewrite (flat_map_const_length _ _ (Z.to_nat nx)).
  - rewrite zrange_length. rewrite Z2Nat.inj_mul by lia. reflexivity.
  - intros a _. now rewrite map_length, zrange_length.
Qed.

(* position n = j*nx + i of the flat list holds cell (j, i): "row-major, holes keep their slot" *)
Lemma grid_list_nth {A} ny nx (f : Z -> Z -> A) j i d : 0 <= j < ny -> 0 <= i < nx ->
  nth (Z.to_nat (j * nx + i)) (grid_list ny nx f) d = f j i.
Proof.
  intros Hj Hi. unfold grid_list.
  replace (Z.to_nat (j * nx + i)) with (Z.to_nat j * Z.to_nat nx + Z.to_nat i)%nat by nia.
  rewrite (nth_flat_map_const _ (Z.to_nat nx)) with (da := 0).
  - rewrite zrange_nth by lia.
    rewrite nth_indep with (d' := f (0 + Z.of_nat (Z.to_nat j)) (0 + Z.of_nat 0))
      by (rewrite map_length, zrange_length; lia).
    rewrite (map_nth (fun i => f (0 + Z.of_nat (Z.to_nat j)) i)).
    rewrite zrange_nth by lia. f_equal; lia.
  - intros a. now rewrite map_length, zrange_length.
  - rewrite zrange_length. lia.
  - lia.
Qed.

Lemma grid_list_ravel {A} ny nx (f : Z -> Z -> A) j i n d :
  ravel [ny; nx] [j; i] = Some n -> nth (Z.to_nat n) (grid_list ny nx f) d = f j i.
Proof.
  cbn [ravel]. destruct ((0 <=? j) && (j <? ny)) eqn:Ej; [|discriminate].
  destruct ((0 <=? i) && (i <? nx)) eqn:Ei; [|discriminate].
  intros [= <-]. cbn [prod].
  apply andb_true_iff in Ej as [Ej1 Ej2]. apply andb_true_iff in Ei as [Ei1 Ei2].
  apply Z.leb_le in Ej1, Ei1. apply Z.ltb_lt in Ej2, Ei2.
  replace (j * (nx * 1) + (i * 1 + 0)) with (j * nx + i) by ring.
  apply grid_list_nth; lia.
Qed.

(* ---------- holes ---------- *)

Lemma ring_of_some cs r : ring_of cs = Some r ->
  length r = length cs /\ forall k x y, nth_error r k = Some (x, y) -> nth_error cs k = Some (Some x, Some y).
Proof.
  revert r. induction cs as [|[[x|] [y|]] cs IH]; intros r; cbn [ring_of]; try discriminate.
  - intros [= <-]. split; auto. intros [|k] x y; discriminate.
  - destruct (ring_of cs) as [t|] eqn:E; [|discriminate]. intros [= <-].
    destruct (IH t eq_refl) as [L H]. split; [simpl; lia|].
    intros [|k] x' y'; cbn [nth_error]; [intros [= <- <-]; reflexivity | apply H].
Qed.

Lemma ring_of_none cs : ring_of cs = None <-> exists c, In c cs /\ (fst c = None \/ snd c = None).
Proof.
  induction cs as [|[[x|] [y|]] cs IH]; cbn [ring_of].
  - split; [discriminate | intros [c [[] _]]].
  - destruct (ring_of cs) as [t|] eqn:E.
    + split; [discriminate|]. intros [c [[<-|Hin] Hc]]; [cbn in Hc; destruct Hc; discriminate|].
      assert (X : Some t = None) by (apply IH; eauto). discriminate.
    + split; auto. intros _. destruct (proj1 IH eq_refl) as [c [Hin Hc]]. exists c; simpl; auto.
  - split; auto. intros _. eexists; split; [left; reflexivity | right; reflexivity].
  - split; auto. intros _. eexists; split; [left; reflexivity | left; reflexivity].
  - split; auto. intros _. eexists; split; [left; reflexivity | left; reflexivity].
Qed.

Lemma finalize_length ps : length (finalize ps) = length ps.
Proof. unfold finalize. apply map_length. Qed.

(* the validity mask: a cell has a polygon iff its coordinates are all present and its ring is simple *)
Lemma map_nth' {A B} (f : A -> B) l n d d0 : f d0 = d -> nth n (map f l) d = f (nth n l d0).
Proof. intros <-. apply map_nth. Qed.

Lemma finalize_nth ps n :
  nth n (finalize ps) None =
  match nth n ps None with Some r => if ring_simple r then Some r else None | None => None end.
Proof.
  unfold finalize. now rewrite (map_nth' _ _ _ None None).
Qed.

Lemma mask_iff ps n :
  nth n (mask_of (finalize ps)) false = true <-> exists r, nth n ps None = Some r /\ ring_simple r = true.
Proof.
  unfold mask_of.
  rewrite (map_nth' _ _ _ false None) by reflexivity. rewrite finalize_nth.
  destruct (nth n ps None) as [r|].
  - destruct (ring_simple r) eqn:E; split; try discriminate; eauto.
    intros [r' [[= <-] H]]. congruence.
  - split; [discriminate | intros [r [H _]]; discriminate].
Qed.

(* a polygon that survives is exactly the raw polygon of the same position: nothing is shifted *)
Lemma finalize_keeps ps n r : nth n (finalize ps) None = Some r -> nth n ps None = Some r.
Proof.
  rewrite finalize_nth. destruct (nth n ps None) as [r'|]; [|discriminate].
  destruct (ring_simple r'); [auto | discriminate].
Qed.

(* ---------- per convention: the polygon at n is the cell the coordinates describe ---------- *)

Lemma cf1d_raw_length lonb latb : length (cf1d_raw lonb latb) = (length latb * length lonb)%nat.
Proof. unfold cf1d_raw. apply flat_map_const_length. intros; apply map_length. Qed.

Lemma cf1d_raw_nth lonb latb j i dx dy : (j < length latb)%nat -> (i < length lonb)%nat ->
  nth (j * length lonb + i) (cf1d_raw lonb latb) None = Some (rect (nth i lonb dx) (nth j latb dy)).
Proof.
  intros Hj Hi. unfold cf1d_raw.
  rewrite (nth_flat_map_const _ (length lonb)) with (da := dy); auto.
  - rewrite nth_indep with (d' := Some (rect dx (nth j latb dy))) by (rewrite map_length; lia).
    apply (map_nth (fun xb => Some (rect xb (nth j latb dy)))).
  - intros; apply map_length.
Qed.

Lemma cf1d_centres_nth lon lat j i d : (j < length lat)%nat -> (i < length lon)%nat ->
  nth (j * length lon + i) (cf1d_centres lon lat) (d, d) = (nth i lon d, nth j lat d).
Proof.
  intros Hj Hi. unfold cf1d_centres.
  rewrite (nth_flat_map_const _ (length lon)) with (da := d); auto.
  - rewrite nth_indep with (d' := (d, nth j lat d)) by (rewrite map_length; lia).
    apply (map_nth (fun x => (x, nth j lat d))).
  - intros; apply map_length.
Qed.

Lemma cf2d_given_at ny nx lonb latb j i n :
  ravel [ny; nx] [j; i] = Some n ->
  nth (Z.to_nat n) (cf2d_given_raw ny nx lonb latb) None = cf2d_given_cell lonb latb j i.
Proof. apply grid_list_ravel. Qed.

Lemma cf2d_synth_at ny nx lon lat j i n :
  ravel [ny; nx] [j; i] = Some n ->
  nth (Z.to_nat n) (cf2d_synth_raw ny nx lon lat) None = cf2d_synth_cell ny nx lon lat j i.
Proof. apply grid_list_ravel. Qed.

Lemma cf2d_centres_at ny nx lon lat j i n d :
  ravel [ny; nx] [j; i] = Some n ->
  nth (Z.to_nat n) (cf2d_centres ny nx lon lat) d = (at2 lon j i, at2 lat j i).
Proof. intros H. unfold cf2d_centres. now rewrite (grid_list_ravel _ _ _ j i n d H). Qed.

Lemma arakawa_at nj ni xg yg j i n :
  ravel [nj; ni] [j; i] = Some n ->
  nth (Z.to_nat n) (arakawa_raw nj ni xg yg) None = arakawa_cell xg yg j i.
Proof. apply grid_list_ravel. Qed.

Lemma ugrid_at nx ny faces n f : nth_error faces n = Some f ->
  nth n (ugrid_raw nx ny faces) None = ugrid_face nx ny f.
Proof.
  intros H. unfold ugrid_raw.
  rewrite nth_indep with (d' := ugrid_face nx ny []).
  2:{ rewrite map_length. apply nth_error_Some. congruence. }
  rewrite (map_nth (ugrid_face nx ny)). f_equal. now apply nth_error_nth.
Qed.

Lemma raw_lengths ny nx lon lat : 0 <= ny -> 0 <= nx ->
  length (cf2d_synth_raw ny nx lon lat) = Z.to_nat (ny * nx).
Proof. intros; now apply grid_list_length. Qed.

(* synthesised corners: mean of the centres present around the corner *)
Lemma present_nil (l : list oq) : present l = [] <-> Forall (fun v => v = None) l.
Proof.
  unfold present. induction l as [|[q|] l IH]; simpl; split; auto; try discriminate.
  - inversion 1; discriminate.
  - intros H. constructor; auto. now apply IH.
  - inversion 1; subst. now apply IH.
Qed.

Lemma nanmean_none vs : nanmean vs = None <-> Forall (fun v => v = None) vs.
Proof.
  rewrite <- present_nil. unfold nanmean. fold (present vs).
  destruct (present vs); split; auto; discriminate.
Qed.

Lemma nanmean_mean vs m : nanmean vs = Some m ->
  (m * inject_Z (Z.of_nat (length (present vs))) == fold_right Qplus 0 (present vs))%Q /\ present vs <> [].
Proof.
  unfold nanmean. fold (present vs). destruct (present vs) as [|q l] eqn:F; [discriminate|].
  intros H.
  assert (Hm : m = Qred (fold_right Qplus 0%Q (q :: l) / inject_Z (Z.of_nat (length (q :: l)))))
    by congruence.
  split; [|discriminate]. rewrite Hm, Qred_correct. field.
  intros H0. unfold inject_Z, Qeq in H0. cbn [Qnum Qden length] in H0. lia.
Qed.

(* cf1d midpoint synthesis *)
Lemma pair_means_length v : length (pair_means v) = pred (length v).
Proof.
  induction v as [|a [|b r] IH]; simpl in *; auto.
Qed.

Lemma pair_means_nth v k d : (S k < length v)%nat ->
  nth k (pair_means v) d = half (nth (S k) v d + nth k v d).
Proof.
  revert k. induction v as [|a [|b r] IH]; intros k H; simpl in H; try lia.
  destruct k as [|k]; [reflexivity|].
  change (pair_means (a :: b :: r)) with (half (b + a) :: pair_means (b :: r)).
  cbn [nth]. rewrite IH by (simpl; lia). reflexivity.
Qed.
