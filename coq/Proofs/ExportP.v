From Coq Require Import ZArith List Lia Bool Sorted.
From EV Require Import Base.Index Base.ListX Model.IndexConv Proofs.IndexConvP Model.Export.
Import ListNotations.
Open Scope Z_scope.

Lemma export_cons {P I} (o : option P) (polys : list (option P)) (wind : Z -> I) lo :
  flat_map (fun np => match snd np with Some p => [(fst np, wind (fst np), p)] | None => [] end) (enum lo (o :: polys)) =
  match o with Some p => [(lo, wind lo, p)] | None => [] end ++
  flat_map (fun np => match snd np with Some p => [(fst np, wind (fst np), p)] | None => [] end) (enum (lo + 1) polys).
Proof. rewrite enum_cons. cbn [flat_map fst snd]. reflexivity. Qed.

(* exactly the cells that have a polygon, in linear order *)
Lemma export_indexes_gen {P I} (polys : list (option P)) (wind : Z -> I) : forall lo,
  map (fun t => fst (fst t))
      (flat_map (fun np => match snd np with Some p => [(fst np, wind (fst np), p)] | None => [] end) (enum lo polys)) =
  positions_where is_some lo polys.
Proof.
  induction polys as [|o r IH]; intros lo; [reflexivity|].
  rewrite export_cons, map_app, IH, positions_where_cons. destruct o; reflexivity.
Qed.

Theorem export_indexes {P I} (polys : list (option P)) (wind : Z -> I) :
  map (fun t => fst (fst t)) (export polys wind) = positions_where is_some 0 polys.
Proof. apply export_indexes_gen. Qed.

Theorem export_sorted {P I} (polys : list (option P)) (wind : Z -> I) :
  StronglySorted Z.lt (map (fun t => fst (fst t)) (export polys wind)).
Proof. rewrite export_indexes. apply positions_where_sorted. Qed.

(* every feature carries the index and the polygon of its own cell, and every cell with a polygon is a feature *)
Theorem export_spec {P I} (polys : list (option P)) (wind : Z -> I) n idx p :
  In (n, idx, p) (export polys wind) <-> 0 <= n /\ idx = wind n /\ nth_error polys (Z.to_nat n) = Some (Some p).
Proof.
  unfold export. rewrite in_flat_map. split.
  - intros ([k o] & Hin & H). apply in_enum in Hin as [H0 Hn]. cbn [fst snd] in H. rewrite Z.sub_0_r in Hn.
    destruct o as [q|]; [|destruct H]. destruct H as [[= <- <- <-]|[]]. auto.
  - intros (H0 & -> & Hn). exists (n, Some p). split; [apply in_enum; rewrite Z.sub_0_r; auto|]. cbn. now left.
Qed.

(* the native index written into a feature identifies that same cell (with C01) *)
Theorem export_index_identifies {P} (g : grids) (polys : list (option P)) n idx p :
  wf g -> In (n, Some idx, p) (export_dataset g polys) -> ravel_index g idx = Some n.
Proof.
  intros W H. apply export_spec in H as (_ & E & _). symmetry in E. eapply wind_ravel; eauto.
Qed.

Theorem export_length {P I} (polys : list (option P)) (wind : Z -> I) :
  length (export polys wind) = length (filter is_some polys).
Proof.
  rewrite <- (map_length (fun t => fst (fst t))), export_indexes.
  unfold positions_where. rewrite map_length. generalize 0. induction polys as [|o r IH]; intros lo; [reflexivity|].
  rewrite enum_cons. cbn [filter snd]. destruct (is_some o); cbn [length]; rewrite IH; reflexivity.
Qed.

(* ================= C19 ================= *)
Lemma compress_cons {A} b (m : list bool) (x : A) xs :
  compress (b :: m) (x :: xs) = (if b then [x] else []) ++ compress m xs.
Proof. reflexivity. Qed.

(* the k-th patch and the k-th plotted value belong to the same cell: zipping after selecting = selecting the pairs *)
Theorem compress_pairs {A B} (m : list bool) : forall (xs : list A) (ys : list B),
  length xs = length m -> length ys = length m ->
  combine (compress m xs) (compress m ys) = compress m (combine xs ys).
Proof.
  induction m as [|b m IH]; intros [|x xs] [|y ys] Lx Ly; try discriminate; [reflexivity|].
  cbn [combine]. rewrite !compress_cons. cbn in Lx, Ly. destruct b; cbn [app combine]; [f_equal|]; apply IH; lia.
Qed.

Lemma polys_compress {P} (polys : list (option P)) :
  map Some (flat_map (fun o => match o with Some p => [p] | None => [] end) polys) = compress (map is_some polys) polys.
Proof.
  induction polys as [|o r IH]; [reflexivity|]. cbn [map flat_map]. rewrite compress_cons, map_app, IH. destruct o; reflexivity.
Qed.

(* one patch per cell with geometry, in linear order, each with that cell's outline and that cell's value *)
Theorem poly_collection_pairs {P V} (polys : list (option P)) (values : list V) :
  length values = length polys ->
  let '(patches, vals) := poly_collection polys values in
  combine (map Some patches) vals = compress (map is_some polys) (combine polys values).
Proof.
  intros L. unfold poly_collection. rewrite polys_compress. apply compress_pairs; rewrite map_length; auto.
Qed.

Lemma in_compress {A} (m : list bool) : forall (xs : list A) x,
  In x (compress m xs) <-> exists k, nth_error m k = Some true /\ nth_error xs k = Some x.
Proof.
  induction m as [|b m IH]; intros [|y xs] x.
  - cbn. split; [tauto|]. intros (k & H & _). destruct k; discriminate.
  - cbn. split; [tauto|]. intros (k & H & _). destruct k; discriminate.
  - cbn. split; [tauto|]. intros (k & _ & H). destruct k; discriminate.
  - rewrite compress_cons, in_app_iff, IH. split.
    + intros [H|(k & H1 & H2)].
      * destruct b; [|destruct H]. destruct H as [<-|[]]. exists O. auto.
      * exists (S k). auto.
    + intros ([|k] & H1 & H2); cbn in H1, H2.
      * injection H1 as ->. injection H2 as ->. left. now left.
      * right. eauto.
Qed.

(* cells without geometry contribute neither a patch nor a value; every plotted pair is (polygon of n, value of n) *)
Theorem poly_collection_spec {P V} (polys : list (option P)) (values : list V) p v :
  length values = length polys ->
  In (Some p, v) (compress (map is_some polys) (combine polys values)) <->
  exists n, nth_error polys n = Some (Some p) /\ nth_error values n = Some v.
Proof.
  intros L. rewrite in_compress. split.
  - intros (k & Hm & Hc). exists k.
    revert polys values L Hm Hc. induction k as [|k IH]; intros [|o r] [|w ws] L Hm Hc; try discriminate.
    + cbn in *. injection Hc as -> ->. auto.
    + cbn in *. apply IH; auto.
  - intros (n & Hp & Hv). exists n. split.
    + rewrite nth_error_map, Hp. reflexivity.
    + revert polys values L Hp Hv. induction n as [|n IH]; intros [|o r] [|w ws] L Hp Hv; try discriminate.
      * cbn in *. congruence.
      * cbn in *. apply IH; auto.
Qed.

(* the default colour limits span exactly the plotted values *)
Lemma omin_le a b x : omin a b = Some x -> (forall y, a = Some y -> x <= y) /\ (forall y, b = Some y -> x <= y).
Proof. destruct a, b; cbn; intros [= <-]; split; intros y [= <-]; lia. Qed.

Theorem clim_spans vs lo hi : clim vs = (Some lo, Some hi) ->
  (forall y, In (Some y) vs -> lo <= y <= hi) /\ In (Some lo) vs /\ In (Some hi) vs.
Proof.
  unfold clim. revert lo hi. induction vs as [|v r IH]; intros lo hi H; [discriminate|].
  cbn [fold_right] in H. injection H as Hlo Hhi.
  destruct (fold_right omin None r) as [l'|] eqn:L, (fold_right omax None r) as [h'|] eqn:Hh.
  - destruct (IH l' h' eq_refl) as (B & Il & Ih). destruct v as [x|]; cbn in Hlo, Hhi.
    + injection Hlo as <-. injection Hhi as <-. split; [|split].
      * intros y [[= <-]|Hy]; [lia|]. specialize (B y Hy). lia.
      * destruct (Z.min_spec x l') as [[_ ->]|[_ ->]]; [now left | now right].
      * destruct (Z.max_spec x h') as [[_ ->]|[_ ->]]; [now right | now left].
    + injection Hlo as <-. injection Hhi as <-. split; [|split]; [|now right|now right].
      intros y [H|Hy]; [discriminate|auto].
  - exfalso. clear - L Hh. revert l' L Hh. induction r as [|w r IH]; intros l' L Hh; [discriminate|].
    cbn in L, Hh. destruct w as [x|]; destruct (fold_right omax None r); destruct (fold_right omin None r) eqn:E;
      cbn in *; try discriminate; eauto.
  - exfalso. clear - L Hh. revert h' L Hh. induction r as [|w r IH]; intros h' L Hh; [discriminate|].
    cbn in L, Hh. destruct w as [x|]; destruct (fold_right omin None r); destruct (fold_right omax None r) eqn:E;
      cbn in *; try discriminate; eauto.
  - destruct v as [x|]; cbn in Hlo, Hhi; [|discriminate]. injection Hlo as <-. injection Hhi as <-.
    assert (Hall : forall y, ~ In (Some y) r).
    { clear - L. induction r as [|w r IH]; intros y []; cbn in L.
      - subst w. destruct (fold_right omin None r); discriminate.
      - destruct w; destruct (fold_right omin None r) eqn:E; try discriminate. eapply IH; eauto. }
    split; [|split]; [|now left|now left]. intros y [[= <-]|Hy]; [lia|]. now apply Hall in Hy.
Qed.

(* arrows: position n of centres, u and v is cell n *)
Theorem quiver_same_cell {C V} (centres : list C) (u v : list V) n c a b :
  nth_error (quiver centres u v) n = Some (c, a, b) ->
  nth_error centres n = Some c /\ nth_error u n = Some a /\ nth_error v n = Some b.
Proof.
  unfold quiver. revert centres u v. induction n as [|n IH]; intros [|c0 cs] [|u0 us] [|v0 vs]; cbn; try discriminate.
  - intros [= -> -> ->]. auto.
  - apply IH.
Qed.

Example ex_export : export [Some 10; None; Some 30] (fun n => n * 2) = [(0, 0, 10); (2, 4, 30)].
Proof. vm_compute. reflexivity. Qed.
Example ex_collection : poly_collection [Some 10; None; Some 30] [7; 8; 9] = ([10; 30], [7; 9]).
Proof. vm_compute. reflexivity. Qed.
