From Coq Require Import ZArith List Lia Bool.
From EV Require Import Base.Index Model.IndexConv.
Import ListNotations.
Open Scope Z_scope.

Lemma lookup_wf f l k s : Forall (wf_shape f) l -> lookup k l = Some s -> wf_shape f (k, s).
Proof.
  induction 1 as [|[k' s'] r H Hr IH]; simpl; [discriminate|].
  destruct (Z.eqb_spec k k') as [->|N]; auto. intros [= <-]. exact H.
Qed.

(* a native index in the canonical form the Python API produces *)
Definition canonical (f : flavour) (n : native) : Prop :=
  match f with FCF => fst n = 0 | _ => True end.

Lemma wind_ravel g k n idx : wf g -> wind_index g k n = Some idx -> ravel_index g idx = Some n.
Proof.
  intros W. unfold wind_index, ravel_index.
  destruct (lookup k (shapes g)) as [s|] eqn:L; [|discriminate].
  pose proof (lookup_wf _ _ _ _ W L) as [Hp Hf]. cbn [fst snd] in *.
  destruct (unravel s n) as [is|] eqn:U; [|discriminate]. cbn [option_map]. intros [= <-].
  pose proof (ravel_unravel _ Hp _ _ U) as R.
  destruct (fl g); cbn [pack unpack snd].
  - subst k. rewrite L. exact R.
  - rewrite L. exact R.
  - rewrite L. destruct s as [|a [|b r]]; try discriminate Hf.
    destruct is as [|i [|i' r']]; simpl in R; try discriminate; auto.
    destruct ((0 <=? i) && (i <? a)); discriminate.
Qed.

Lemma ravel_wind g idx n : wf g -> canonical (fl g) idx -> ravel_index g idx = Some n ->
  wind_index g (fst (unpack (fl g) idx)) n = Some idx.
Proof.
  intros W C. unfold ravel_index, wind_index. destruct idx as [k is].
  destruct (unpack (fl g) (k, is)) as [k' is'] eqn:UP. cbn [fst].
  destruct (lookup k' (shapes g)) as [s|] eqn:L; [|discriminate].
  pose proof (lookup_wf _ _ _ _ W L) as [Hp Hf]. cbn [fst snd] in *.
  intros R. rewrite (unravel_ravel _ Hp _ _ R). cbn [option_map]. f_equal.
  unfold canonical in C. destruct (fl g); cbn [unpack pack fst snd] in *.
  - injection UP as <- <-. subst k. reflexivity.
  - injection UP as <- <-. reflexivity.
  - injection UP as <- <-. destruct s as [|a [|b r]]; try discriminate Hf.
    destruct is as [|i [|i' r']]; simpl in R; try discriminate; auto.
    destruct ((0 <=? i) && (i <? a)); discriminate.
Qed.

Lemma wind_total g k s n : lookup k (shapes g) = Some s ->
  ((exists idx, wind_index g k n = Some idx) <-> 0 <= n < prod s).
Proof.
  intros L. unfold wind_index. rewrite L. rewrite <- unravel_some_iff. split.
  - intros [idx H]. destruct (unravel s n); [eauto|discriminate].
  - intros [idx H]. rewrite H. cbn. eauto.
Qed.

Lemma wind_unknown_kind g k n : lookup k (shapes g) = None -> wind_index g k n = None.
Proof. unfold wind_index. now intros ->. Qed.

Lemma ravel_total g idx :
  (exists n, ravel_index g idx = Some n) <->
  (exists s, lookup (fst (unpack (fl g) idx)) (shapes g) = Some s /\ in_box s (snd (unpack (fl g) idx))).
Proof.
  unfold ravel_index. destruct (unpack (fl g) idx) as [k is]. cbn [fst snd].
  destruct (lookup k (shapes g)) as [s|].
  - rewrite ravel_some_iff. split; [eauto|]. intros [s' [[= <-] H]]. exact H.
  - split; [intros [n H]; discriminate | intros [s [H _]]; discriminate].
Qed.

(* grid_size counts the addressable locations: winding 0 .. size-1 enumerates every in-range
   native index of the kind exactly once *)
Lemma size_counts g k s : wf g -> lookup k (shapes g) = Some s ->
  let tbl := wind_table g k 0 (prod s) in
  length tbl = Z.to_nat (prod s) /\
  NoDup tbl /\
  (forall o, In o tbl -> exists idx, o = Some idx /\ exists n, ravel_index g idx = Some n /\ 0 <= n < prod s) /\
  (forall idx n, canonical (fl g) idx -> fst (unpack (fl g) idx) = k ->
     ravel_index g idx = Some n -> In (Some idx) tbl).
Proof.
  intros W L tbl. unfold tbl, wind_table. repeat split.
  - now rewrite map_length, zrange_length.
  - assert (Hinj : forall a b, In a (zrange 0 (prod s)) -> In b (zrange 0 (prod s)) ->
                     wind_index g k a = wind_index g k b -> a = b).
    { intros a b Ha Hb E. apply in_zrange in Ha, Hb.
      destruct (proj2 (wind_total g k s a L) ltac:(lia)) as [ia Hia].
      pose proof (wind_ravel _ _ _ _ W Hia) as Ra.
      rewrite E in Hia. pose proof (wind_ravel _ _ _ _ W Hia) as Rb. congruence. }
    pose proof (zrange_NoDup 0 (prod s)) as ND. revert Hinj ND.
    generalize (zrange 0 (prod s)). intros l. induction l as [|x xs IH]; intros Hinj ND; cbn [map].
    + constructor.
    + inversion ND as [|? ? Hx ND']; subst. constructor.
      * intros Hin. apply in_map_iff in Hin as [y [E Hy]].
        assert (y = x) by (apply Hinj; simpl; auto). subst. contradiction.
      * apply IH; auto. intros a b Ha Hb. apply Hinj; simpl; auto.
  - intros o Ho. apply in_map_iff in Ho as [n [<- Hn]]. apply in_zrange in Hn.
    destruct (proj2 (wind_total g k s n L) ltac:(lia)) as [idx Hidx].
    exists idx. split; auto. exists n. split; [eapply wind_ravel; eauto | lia].
  - intros idx n C Hk R. apply in_map_iff. exists n. split.
    + rewrite <- Hk. apply ravel_wind; auto.
    + apply in_zrange. unfold ravel_index in R. destruct (unpack (fl g) idx) as [k' is]. cbn [fst] in Hk. subst k'.
      rewrite L in R. pose proof (lookup_wf _ _ _ _ W L) as [Hp _]. cbn [snd] in Hp.
      pose proof (ravel_range _ Hp _ _ R). lia.
Qed.

Lemma grid_size_prod g k s : lookup k (shapes g) = Some s -> grid_size g k = Some (prod s).
Proof. unfold grid_size. now intros ->. Qed.

Lemma row_major g k s i1 i2 n1 n2 : wf g -> lookup k (shapes g) = Some s ->
  ravel s i1 = Some n1 -> ravel s i2 = Some n2 -> (lex_lt i1 i2 <-> n1 < n2).
Proof.
  intros W L. pose proof (lookup_wf _ _ _ _ W L) as [Hp _]. cbn [snd] in Hp. now apply ravel_lex.
Qed.

(* non-vacuity: an Arakawa C grid with a 3x4 face grid *)
Definition ex_arakawa : grids :=
  {| fl := FArakawa; shapes := [(0, [3; 4]); (1, [3; 5]); (2, [4; 4]); (3, [4; 5])] |}.
Example ex_arakawa_wf : wf ex_arakawa.
Proof. repeat constructor. Qed.
Example ex_arakawa_wind : wind_index ex_arakawa 0 7 = Some (0, [1; 3]) /\
                          ravel_index ex_arakawa (0, [1; 3]) = Some 7 /\
                          wind_index ex_arakawa 0 12 = None /\
                          wind_index ex_arakawa 0 (-1) = None /\
                          ravel_index ex_arakawa (0, [1; 4]) = None /\
                          ravel_index ex_arakawa (1, [1; 4]) = Some 9.
Proof. vm_compute. repeat split. Qed.

(* the indexes wind_index hands to pack_index are the row-major unravelling of n *)
Lemma wind_is_unravel g k s n idx : lookup k (shapes g) = Some s -> wind_index g k n = Some idx ->
  0 <= n < prod s /\ idx = pack (fl g) k (unravel_aux s n).
Proof.
  intros L. unfold wind_index, unravel. rewrite L.
  destruct ((0 <=? n) && (n <? prod s)) eqn:E; [|discriminate]. cbn [option_map]. intros [= <-].
  apply andb_true_iff in E as [E1 E2]. apply Z.leb_le in E1. apply Z.ltb_lt in E2. auto.
Qed.
