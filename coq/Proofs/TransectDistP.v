From Coq Require Import ZArith QArith List Bool Lia Sorted.
From EV Require Import Model.TransectDist.
Import ListNotations.
Open Scope Q_scope.

(* ---- which vertex a point is measured from ---- *)

Lemma pick_rev_spec : forall rv t v, pick_rev rv t = Some v ->
  exists pre post, rv = pre ++ v :: post /\ norm v <= t /\ Forall (fun w => ~ norm w <= t) pre.
Proof.
  induction rv as [|a rv IH]; intros t v H; simpl in H; [discriminate|].
  destruct (Qle_bool (norm a) t) eqn:E.
  - inversion H; subst. exists [], rv. split; [reflexivity|]. split; [now apply Qle_bool_iff|constructor].
  - destruct (IH t v H) as [pre [post [-> [Hv Hpre]]]]. exists (a :: pre), post. split; [reflexivity|]. split; [exact Hv|].
    constructor; [|exact Hpre]. intros Hle. apply Qle_bool_iff in Hle. congruence.
Qed.

(* the picked vertex is a vertex of the path at or before the point, and every LATER vertex lies beyond the point *)
Lemma pick_spec : forall vs t v, pick vs t = Some v ->
  exists pre post, vs = pre ++ v :: post /\ norm v <= t /\ Forall (fun w => ~ norm w <= t) post.
Proof.
  intros vs t v H. unfold pick in H. apply pick_rev_spec in H. destruct H as [pre [post [E [Hv Hpre]]]].
  exists (rev post), (rev pre). split.
  - rewrite <- (rev_involutive vs), E, rev_app_distr. simpl. now rewrite <- app_assoc.
  - split; [exact Hv|]. apply Forall_forall. intros w Hw. apply in_rev in Hw. rewrite Forall_forall in Hpre. now apply Hpre.
Qed.

Lemma pick_rev_none : forall rv t, pick_rev rv t = None <-> Forall (fun w => ~ norm w <= t) rv.
Proof.
  induction rv as [|a rv IH]; intros t; simpl.
  - split; [constructor|reflexivity].
  - destruct (Qle_bool (norm a) t) eqn:E.
    + split; [discriminate|]. intros H. inversion H; subst. exfalso. apply H2. now apply Qle_bool_iff.
    + rewrite IH. split.
      * intros H. constructor; [|exact H]. intros Hle. apply Qle_bool_iff in Hle. congruence.
      * intros H. now inversion H.
Qed.

(* a point is measured from some vertex exactly when a vertex lies at or before it: always, for points of the line,
   because the first vertex has normalised position 0 *)
Lemma pick_some_iff : forall vs t, pick vs t <> None <-> exists v, In v vs /\ norm v <= t.
Proof.
  intros vs t. unfold pick. split.
  - intros H. destruct (pick_rev (rev vs) t) as [v|] eqn:E; [|congruence].
    apply pick_rev_spec in E. destruct E as [pre [post [E [Hv _]]]]. exists v. split; [|exact Hv].
    apply in_rev. rewrite E. apply in_or_app. right. now left.
  - intros [v [Hin Hv]] H. apply pick_rev_none in H. rewrite Forall_forall in H. apply (H v); [now apply in_rev in Hin|exact Hv].
Qed.

Lemma pick_first_vertex : forall v0 vs t, norm v0 <= t -> pick (v0 :: vs) t <> None.
Proof. intros v0 vs t H. apply pick_some_iff. exists v0. split; [now left|exact H]. Qed.

(* with the vertices in increasing normalised position the picked vertex is the LAST one at or before the point: the
   vertices at or before the point are exactly those at or before the picked vertex *)
Definition norm_lt (a b : vertex) : Prop := norm a < norm b.

Lemma sorted_app_inv : forall pre v post, StronglySorted norm_lt (pre ++ v :: post) ->
  Forall (fun w => norm w < norm v) pre /\ Forall (fun w => norm v < norm w) post.
Proof.
  induction pre as [|a pre IH]; intros v post H; simpl in H.
  - inversion H; subst. split; [constructor|exact H3].
  - inversion H; subst. destruct (IH v post H2) as [Hpre Hpost]. split; [|exact Hpost].
    constructor; [|exact Hpre]. rewrite Forall_forall in H3. apply (H3 v). apply in_or_app. right. now left.
Qed.

Lemma pick_is_last_before : forall vs t v, StronglySorted norm_lt vs -> pick vs t = Some v ->
  forall w, In w vs -> (norm w <= t <-> norm w <= norm v).
Proof.
  intros vs t v Hs H w Hw. apply pick_spec in H. destruct H as [pre [post [-> [Hv Hpost]]]].
  destruct (sorted_app_inv pre v post Hs) as [Hpre Hafter].
  apply in_app_or in Hw. destruct Hw as [Hw|[<-|Hw]].
  - rewrite Forall_forall in Hpre. pose proof (Hpre w Hw) as Hlt. split; intros _.
    + now apply Qlt_le_weak.
    + eapply Qle_trans; [apply Qlt_le_weak; exact Hlt|exact Hv].
  - split; intros _; [apply Qle_refl|exact Hv].
  - rewrite Forall_forall in Hpost, Hafter. split; intros H.
    + exfalso. now apply (Hpost w Hw).
    + exfalso. apply (Qlt_not_le _ _ (Hafter w Hw)). exact H.
Qed.

(* ---- accumulated distances ---- *)

Lemma accumulate_length : forall legs c, length (accumulate c legs) = S (length legs).
Proof. induction legs as [|l r IH]; intros c; simpl; [reflexivity|now rewrite IH]. Qed.

Lemma accumulate_nth_S : forall legs c k d, (k < length legs)%nat ->
  nth (S k) (accumulate c legs) d == nth k (accumulate c legs) d + nth k legs 0.
Proof.
  induction legs as [|l r IH]; intros c k d Hk; simpl in Hk; [lia|].
  destruct k as [|k].
  - simpl. destruct r; simpl; reflexivity.
  - simpl. apply (IH (c + l) k d). lia.
Qed.

Lemma accumulate_mono_step : forall legs c k d, Forall (fun l => 0 <= l) legs -> (k < length legs)%nat ->
  nth k (accumulate c legs) d <= nth (S k) (accumulate c legs) d.
Proof.
  intros legs c k d Hpos Hk. rewrite (accumulate_nth_S legs c k d Hk).
  assert (0 <= nth k legs 0). { rewrite Forall_forall in Hpos. apply Hpos. now apply nth_In. }
  rewrite <- (Qplus_0_r (nth k (accumulate c legs) d)) at 1. apply Qplus_le_compat; [apply Qle_refl|exact H].
Qed.

(* the accumulated distance never decreases along the path *)
Lemma accumulate_mono : forall legs c d i j, Forall (fun l => 0 <= l) legs -> (i <= j)%nat -> (j <= length legs)%nat ->
  nth i (accumulate c legs) d <= nth j (accumulate c legs) d.
Proof.
  intros legs c d i j Hpos Hij Hj. induction Hij as [|j Hij IH]; [apply Qle_refl|].
  eapply Qle_trans; [apply IH; lia|]. apply accumulate_mono_step; [exact Hpos|lia].
Qed.

(* order along the path is order of the reported distance: a point on leg i (not further from vertex i than the leg is
   long) is reported no later than any point measured from a later vertex j *)
Lemma earlier_leg_smaller_distance : forall legs d i j di dj,
  Forall (fun l => 0 <= l) legs -> (i < j)%nat -> (j <= length legs)%nat ->
  di <= nth i legs 0 -> 0 <= dj ->
  nth i (accumulate 0 legs) d + di <= nth j (accumulate 0 legs) d + dj.
Proof.
  intros legs d i j di dj Hpos Hij Hj Hdi Hdj.
  assert (H1 : nth i (accumulate 0 legs) d + di <= nth (S i) (accumulate 0 legs) d).
  { rewrite (accumulate_nth_S legs 0 i d) by lia. apply Qplus_le_compat; [apply Qle_refl|exact Hdi]. }
  assert (H2 : nth (S i) (accumulate 0 legs) d <= nth j (accumulate 0 legs) d) by (apply accumulate_mono; [exact Hpos|lia|exact Hj]).
  eapply Qle_trans; [exact H1|]. eapply Qle_trans; [exact H2|].
  rewrite <- (Qplus_0_r (nth j (accumulate 0 legs) d)) at 1. apply Qplus_le_compat; [apply Qle_refl|exact Hdj].
Qed.

(* a vertex of the path is reported at its accumulated distance *)
Lemma vertex_at_its_distance : forall vs v, pick vs (norm v) = Some v ->
  distance_along vs (norm v) (fun _ => 0) = Some (cum v + 0).
Proof. intros vs v H. unfold distance_along. now rewrite H. Qed.

Example pick_example :
  let vs := vertices [0; 1 # 2; 1] [10; 30] in
  option_map cum (pick vs (1 # 4)) = Some 0 /\ option_map cum (pick vs (1 # 2)) = Some (0 + 10) /\
  option_map cum (pick vs (3 # 4)) = Some (0 + 10) /\ option_map cum (pick vs 1) = Some (0 + 10 + 30) /\
  pick_index [(0, 1); (1, 2); (1, 1)]%Z (3, 4)%Z = Some 1%nat.
Proof. vm_compute. repeat split. Qed.
