From Coq Require Import ZArith QArith List Bool Lia Sorted Permutation.
From EV Require Import Model.Transect.
Import ListNotations.
Open Scope Q_scope.

(* start never after end *)
Theorem mk_segment_ordered p : s_start (mk_segment p) <= s_end (mk_segment p).
Proof.
  unfold mk_segment. destruct (Qle_bool (d1 p) (d2 p)) eqn:E; cbn.
  - now apply Qle_bool_iff.
  - apply Qlt_le_weak. apply Qnot_le_lt. intros H. apply Qle_bool_iff in H. congruence.
Qed.

Theorem mk_segment_cell p : s_cell (mk_segment p) = cell p.
Proof. unfold mk_segment. destruct (Qle_bool (d1 p) (d2 p)); reflexivity. Qed.

(* the order of the listing: by start distance, then by end distance *)
Definition seg_lex (a b : segment) : Prop :=
  s_start a < s_start b \/ (s_start a == s_start b /\ s_end a <= s_end b).

Lemma seg_le_spec a b : seg_le a b = true <-> seg_lex a b.
Proof.
  unfold seg_le, seg_lex. destruct (Qeq_bool (s_start a) (s_start b)) eqn:E.
  - apply Qeq_bool_iff in E. rewrite Qle_bool_iff. split.
    + intros H. right. auto.
    + intros [H|[_ H]]; [rewrite E in H; exfalso; eapply Qlt_irrefl; eauto | exact H].
  - assert (N : ~ s_start a == s_start b) by (intros H; apply Qeq_bool_iff in H; congruence).
    rewrite Qle_bool_iff. split.
    + intros H. left. apply Qle_lteq in H as [H|H]; [exact H|contradiction].
    + intros [H|[H _]]; [now apply Qlt_le_weak | contradiction].
Qed.

Lemma seg_le_total a b : seg_le a b = false -> seg_lex b a.
Proof.
  intros H. unfold seg_le in H. unfold seg_lex. destruct (Qeq_bool (s_start a) (s_start b)) eqn:E.
  - apply Qeq_bool_iff in E. right. split; [symmetry; exact E|].
    apply Qlt_le_weak. apply Qnot_le_lt. intros L. apply Qle_bool_iff in L. congruence.
  - left. apply Qnot_le_lt. intros L. apply Qle_bool_iff in L. congruence.
Qed.

Lemma seg_lex_trans a b c : seg_lex a b -> seg_lex b c -> seg_lex a c.
Proof.
  unfold seg_lex. intros [H1|[E1 L1]] [H2|[E2 L2]].
  - left. eapply Qlt_trans; eauto.
  - left. rewrite <- E2. exact H1.
  - left. rewrite E1. exact H2.
  - right. split; [rewrite E1; exact E2 | eapply Qle_trans; eauto].
Qed.

Lemma insert_perm x l : Permutation (x :: l) (insert_seg x l).
Proof.
  induction l as [|y r IH]; [constructor; constructor|]. cbn [insert_seg]. destruct (seg_le x y).
  - apply Permutation_refl.
  - eapply perm_trans; [apply perm_swap|]. constructor. exact IH.
Qed.

Lemma insert_sorted x l : StronglySorted seg_lex l -> StronglySorted seg_lex (insert_seg x l).
Proof.
  induction 1 as [|y r Hs IH Hall]; [repeat constructor|]. cbn [insert_seg]. destruct (seg_le x y) eqn:E.
  - apply seg_le_spec in E. constructor; [constructor; auto|]. constructor; [exact E|].
    apply Forall_forall. intros z Hz. rewrite Forall_forall in Hall. eapply seg_lex_trans; eauto.
  - apply seg_le_total in E. constructor; [exact IH|].
    apply Forall_forall. intros z Hz. apply (Permutation_in _ (Permutation_sym (insert_perm x r))) in Hz.
    destruct Hz as [<-|Hz]; [exact E|]. rewrite Forall_forall in Hall. auto.
Qed.

(* the pieces are listed by increasing distance from the start, and none is lost or invented *)
Theorem segments_sorted ps : StronglySorted seg_lex (segments ps).
Proof.
  unfold segments, sort_segs. induction (map mk_segment ps) as [|x l IH]; [constructor|]. cbn. now apply insert_sorted.
Qed.

Theorem segments_perm ps : Permutation (map mk_segment ps) (segments ps).
Proof.
  unfold segments, sort_segs. induction (map mk_segment ps) as [|x l IH]; [constructor|]. cbn.
  eapply perm_trans; [constructor; exact IH | apply insert_perm].
Qed.

Theorem segments_ordered ps s : In s (segments ps) -> s_start s <= s_end s.
Proof.
  intros H. apply (Permutation_in _ (Permutation_sym (segments_perm ps))) in H.
  apply in_map_iff in H as (p & <- & _). apply mk_segment_ordered.
Qed.

(* every listed piece names the cell of one of the path pieces *)
Theorem segments_cells ps s : In s (segments ps) -> exists p, In p ps /\ s_cell s = cell p.
Proof.
  intros H. apply (Permutation_in _ (Permutation_sym (segments_perm ps))) in H.
  apply in_map_iff in H as (p & <- & Hp). exists p. split; [exact Hp | apply mk_segment_cell].
Qed.

(* lengths add up: pieces that follow each other without a gap telescope to (last end - first start) *)
Fixpoint contiguous (l : list segment) : Prop :=
  match l with
  | a :: ((b :: _) as t) => s_end a == s_start b /\ contiguous t
  | _ => True
  end.

Lemma last_cons {A} (b : A) r a : last (b :: r) a = last r b.
Proof.
  revert a b. induction r as [|x r IH]; intros a b; [reflexivity|].
  change (last (b :: x :: r) a) with (last (x :: r) a). rewrite (IH a x), (IH b x). reflexivity.
Qed.

Theorem telescoping a l : contiguous (a :: l) -> total_length (a :: l) == s_end (last l a) - s_start a.
Proof.
  revert a. induction l as [|b r IH]; intros a H.
  - cbn. ring.
  - destruct H as [E H]. cbn [total_length fold_right]. fold (total_length (b :: r)). rewrite (IH b H).
    rewrite last_cons, E. ring.
Qed.

(* the data prepared for plotting holds, for piece k, the column of that piece's cell *)
Theorem prepare_pairing {A} (d : A) columns lin k n :
  nth_error lin k = Some n -> nth_error (prepare d columns lin) k = Some (nth (Z.to_nat n) columns d).
Proof. intros H. unfold prepare. rewrite nth_error_map, H. reflexivity. Qed.

Theorem prepare_length {A} (d : A) columns lin : length (prepare d columns lin) = length lin.
Proof. apply map_length. Qed.

Example ex_segments :
  map s_cell (segments [{| cell := 7; d1 := 3; d2 := 2 |}; {| cell := 4; d1 := 0; d2 := 2 |}; {| cell := 9; d1 := 3; d2 := 5 |}]) = [4%Z; 7%Z; 9%Z].
Proof. vm_compute. reflexivity. Qed.
