From Coq Require Import ZArith List Lia Bool.
From EV Require Import Model.Depth.
Import ListNotations.
Open Scope Z_scope.

(* ================= C12: the ocean floor index ================= *)

(* index of the last layer holding data *)
Fixpoint last_valid {V} (col : list (option V)) : option nat :=
  match col with
  | [] => None
  | o :: r => match last_valid r with
              | Some k => Some (S k)
              | None => if valid o then Some O else None
              end
  end.

Lemma argmax_from_cumsum {V} (col : list (option V)) : forall bi acc i,
  argmax_from bi acc i (cumsum_valid acc col) =
  match last_valid col with Some k => (i + k)%nat | None => bi end.
Proof.
  induction col as [|o r IH]; intros bi acc i; cbn [cumsum_valid argmax_from last_valid]; [reflexivity|].
  destruct (valid o) eqn:Vo.
  - replace (acc <? acc + 1) with true by (symmetry; apply Z.ltb_lt; lia).
    rewrite IH. destruct (last_valid r); lia.
  - rewrite Z.ltb_irrefl. rewrite IH. destruct (last_valid r); [lia | reflexivity].
Qed.

Theorem floor_index_last_valid {V} (col : list (option V)) :
  floor_index col = match last_valid col with Some k => k | None => O end.
Proof.
  unfold floor_index, argmax. destruct col as [|o r]; [reflexivity|].
  cbn [cumsum_valid last_valid]. rewrite argmax_from_cumsum.
  destruct (last_valid r); [reflexivity|]. destruct (valid o); reflexivity.
Qed.

Lemma last_valid_none {V} (col : list (option V)) :
  last_valid col = None <-> forall o, In o col -> valid o = false.
Proof.
  induction col as [|o r IH]; cbn [last_valid]; [split; [intros _ ? []|reflexivity]|].
  destruct (last_valid r) as [k|] eqn:L.
  - split; [discriminate|]. intros H. assert (E : Some k = None) by (apply IH; intros; apply H; now right). discriminate.
  - destruct (valid o) eqn:Vo; split; try discriminate; try reflexivity.
    + intros H. specialize (H o (or_introl eq_refl)). congruence.
    + intros _ o' [<-|Hin]; auto. now apply IH.
Qed.

Lemma last_valid_some {V} (col : list (option V)) k :
  last_valid col = Some k <->
  (exists v, nth_error col k = Some (Some v)) /\
  (forall j o, (k < j)%nat -> nth_error col j = Some o -> valid o = false).
Proof.
  revert k. induction col as [|o r IH]; intros k; cbn [last_valid].
  - split; [discriminate|]. intros [[v H] _]. destruct k; discriminate.
  - destruct (last_valid r) as [k'|] eqn:L.
    + split.
      * intros [= <-]. destruct (proj1 (IH k') eq_refl) as [Hv Hl]. split; [exact Hv|].
        intros [|j] o' Hj Hn; [lia|]. cbn in Hn. apply (Hl j); [lia|exact Hn].
      * intros [[v Hv] Hl]. destruct k as [|k].
        -- destruct (proj1 (IH k') eq_refl) as [[v' Hv'] _].
           specialize (Hl (S k') (Some v') ltac:(lia) Hv'). discriminate.
        -- f_equal. assert (E : Some k' = Some k); [|now injection E as ->].
           apply IH. split; [exists v; exact Hv|]. intros j o' Hj Hn. apply (Hl (S j)); [lia|exact Hn].
    + assert (Hall := proj1 (last_valid_none r) L).
      destruct (valid o) eqn:Vo; split.
      * intros [= <-]. split.
        -- destruct o as [v|]; [exists v; reflexivity|discriminate].
        -- intros [|j] o' Hj Hn; [lia|]. cbn in Hn. apply Hall. eapply nth_error_In; eauto.
      * intros [[v Hv] _]. destruct k as [|k]; [reflexivity|]. cbn in Hv.
        apply nth_error_In in Hv. apply Hall in Hv. discriminate.
      * discriminate.
      * intros [[v Hv] _]. destruct k as [|k]; cbn in Hv.
        -- injection Hv as ->. discriminate.
        -- apply nth_error_In in Hv. apply Hall in Hv. discriminate.
Qed.

(* the floor index is the last layer that holds data ... *)
Theorem floor_index_deepest {V} (col : list (option V)) k v :
  nth_error col k = Some (Some v) ->
  (forall j o, (k < j)%nat -> nth_error col j = Some o -> valid o = false) ->
  floor_index col = k /\ floor_value col = Some v.
Proof.
  intros Hv Hl. assert (L : last_valid col = Some k) by (apply last_valid_some; eauto).
  unfold floor_value. rewrite floor_index_last_valid, L. split; [reflexivity|]. now rewrite Hv.
Qed.

(* ... and an all-missing column gives index 0, hence a missing value *)
Theorem floor_all_missing {V} (col : list (option V)) :
  (forall o, In o col -> valid o = false) -> floor_index col = O /\ floor_value col = None.
Proof.
  intros H. assert (L : last_valid col = None) by (now apply last_valid_none).
  unfold floor_value. rewrite floor_index_last_valid, L. split; [reflexivity|].
  destruct col as [|o r]; [reflexivity|]. cbn. specialize (H o (or_introl eq_refl)). now destruct o.
Qed.

(* every column is one of the two cases *)
Theorem floor_value_total {V} (col : list (option V)) :
  (exists k v, nth_error col k = Some (Some v) /\
               (forall j o, (k < j)%nat -> nth_error col j = Some o -> valid o = false) /\
               floor_value col = Some v) \/
  ((forall o, In o col -> valid o = false) /\ floor_value col = None).
Proof.
  destruct (last_valid col) as [k|] eqn:L.
  - left. apply last_valid_some in L as [[v Hv] Hl]. exists k, v. split; [auto|split; [auto|]].
    now apply (floor_index_deepest col k v).
  - right. pose proof (proj1 (last_valid_none col) L) as L'. split; [auto|]. now apply floor_all_missing.
Qed.

(* the index depends on the validity pattern only: a static sea floor gives every variable and time its own floor *)
Lemma cumsum_valid_pattern {V W} (a : list (option V)) (b : list (option W)) :
  map valid a = map valid b -> forall acc, cumsum_valid acc a = cumsum_valid acc b.
Proof.
  revert b. induction a as [|x a IH]; intros [|y b] H acc; try discriminate; [reflexivity|].
  cbn in H. injection H as Hxy Hab. cbn [cumsum_valid]. rewrite Hxy. f_equal. now apply IH.
Qed.

Theorem static_floor {V W} (ref : list (option W)) (col : list (option V)) :
  map valid ref = map valid col -> floor_value_ref ref col = floor_value col.
Proof.
  intros H. unfold floor_value_ref, floor_value, floor_index. now rewrite (cumsum_valid_pattern ref col H).
Qed.

(* without that hypothesis the reduction reads the reference variable's floor: documented behaviour *)
Theorem moving_floor_refuted :
  exists (ref col : list (option Z)), floor_value_ref ref col <> floor_value col.
Proof. exists [Some 1; None], [Some 5; Some 6]. vm_compute. discriminate. Qed.

(* ================= C13: normalisation ================= *)

Definition rv {B} (r : bool) (l : list B) : list B := if r then rev l else l.

(* physical depth (positive down) of the levels of a coordinate, and of its bounds *)
Definition phys (c : coord) : list Z := if is_down c then vals c else map Z.opp (vals c).
Definition phys_b (c : coord) : option (list (Z * Z)) :=
  if is_down c then bnds c else option_map (map neg_pair) (bnds c).

Lemma filter_rev {B} (p : B -> bool) l : filter p (rev l) = rev (filter p l).
Proof.
  induction l as [|x l IH]; [reflexivity|]. cbn [rev filter]. rewrite filter_app, IH. cbn [filter].
  destruct (p x); [reflexivity | now rewrite app_nil_r].
Qed.

Lemma guess_down_rev v : guess_down (rev v) = guess_down v.
Proof. unfold guess_down. now rewrite filter_rev, !rev_length. Qed.

Lemma is_down_rev c : is_down (rev_coord c) = is_down c.
Proof. unfold is_down. cbn. destruct (attr c); auto. apply guess_down_rev. Qed.

Lemma map_opp_invol l : map Z.opp (map Z.opp l) = l.
Proof. rewrite map_map. rewrite <- (map_id l) at 2. apply map_ext. intros; lia. Qed.

Lemma map_neg_pair_invol l : map neg_pair (map neg_pair l) = l.
Proof.
  rewrite map_map. rewrite <- (map_id l) at 2. apply map_ext. intros [a b]. unfold neg_pair. cbn. f_equal; lia.
Qed.

Lemma phys_rev c : phys (rev_coord c) = rev (phys c).
Proof. unfold phys. rewrite is_down_rev. cbn. destruct (is_down c); [reflexivity | now rewrite map_rev]. Qed.

Lemma phys_b_rev c : phys_b (rev_coord c) = option_map (@rev _) (phys_b c).
Proof.
  unfold phys_b. rewrite is_down_rev. cbn. destruct (is_down c); [reflexivity|].
  destruct (bnds c); cbn; [now rewrite map_rev | reflexivity].
Qed.

Lemma nth_error_set_nth_eq {B} (l : list B) i x : (i < length l)%nat -> nth_error (set_nth i x l) i = Some x.
Proof. revert i. induction l as [|h t IH]; intros [|i] H; cbn in *; try lia; auto. apply IH. lia. Qed.

Lemma nth_error_set_nth_neq {B} (l : list B) i j x : i <> j -> nth_error (set_nth i x l) j = nth_error l j.
Proof.
  revert i j. induction l as [|h t IH]; intros [|i] [|j] H; cbn; auto; try congruence.
Qed.

Lemma set_nth_length {B} (l : list B) i x : length (set_nth i x l) = length l.
Proof. revert i. induction l as [|h t IH]; intros [|i]; cbn; auto. Qed.

Lemma set_nth_same {B} (l : list B) i x : nth_error l i = Some x -> set_nth i x l = l.
Proof. revert i. induction l as [|h t IH]; intros [|i]; cbn; try discriminate; [congruence|]. intros H. f_equal. auto. Qed.

(* what the working copy of the i-th coordinate looks like before its own iteration: the input's, possibly reversed *)
Definition like (cur orig : coord) : Prop := attr cur = attr orig /\ (vals cur = vals orig \/ vals cur = rev (vals orig)).

Lemma like_is_down cur orig : like cur orig -> is_down cur = is_down orig.
Proof.
  intros [Ha [Hv|Hv]]; unfold is_down; rewrite Ha, Hv; auto. destruct (attr orig); auto. apply guess_down_rev.
Qed.

Lemma like_rev cur orig : like cur orig -> like (rev_coord cur) orig.
Proof.
  intros [Ha [Hv|Hv]]; split; cbn; auto; rewrite Hv; [right; reflexivity | left; apply rev_involutive].
Qed.

(* the new value of the processed coordinate denotes the same physical depths *)
Lemma processed_phys pd cur orig :
  like cur orig ->
  let c1 := {| attr := set_attr pd (attr cur); vals := vals cur; bnds := bnds cur |} in
  let c2 := match pd with
            | Some b => if Bool.eqb (is_down orig) b then c1 else negate c1
            | None => c1 end in
  phys c2 = phys cur /\ phys_b c2 = phys_b cur /\
  is_down c2 = (match pd with Some b => b | None => is_down orig end) /\
  attr c2 = set_attr pd (attr cur).
Proof.
  intros L. apply like_is_down in L. cbv zeta.
  destruct pd as [b|].
  - set (c1 := {| attr := set_attr (Some b) (attr cur); vals := vals cur; bnds := bnds cur |}).
    assert (D1 : is_down c1 = b) by (unfold is_down, c1; cbn; destruct b; reflexivity).
    assert (D2 : is_down (negate c1) = b) by (unfold is_down, c1; cbn; destruct b; reflexivity).
    destruct (Bool.eqb (is_down orig) b) eqn:E.
    + apply eqb_prop in E. rewrite <- L in E. unfold phys, phys_b. rewrite D1, E. repeat split; auto.
    + apply eqb_false_iff in E. rewrite <- L in E.
      assert (Hd : is_down cur = negb b) by (destruct (is_down cur), b; auto; congruence).
      unfold phys, phys_b. rewrite D2, Hd. cbn [negate vals bnds c1 attr]. destruct b; cbn [negb]; repeat split; auto.
      * now rewrite map_opp_invol.
      * destruct (bnds cur); cbn; [now rewrite map_neg_pair_invol | reflexivity].
  - cbn [set_attr]. replace {| attr := attr cur; vals := vals cur; bnds := bnds cur |} with cur by (now destruct cur).
    repeat split; auto.
Qed.

Lemma step_spec {A} pd dts (d d' : ddim A) i orig cur :
  nth_error (coords d) i = Some cur -> like cur orig -> step pd dts d i orig = Some d' ->
  exists (r : bool) c2,
    rows d' = rv r (rows d) /\
    phys c2 = phys cur /\ phys_b c2 = phys_b cur /\ attr c2 = set_attr pd (attr cur) /\
    is_down c2 = (match pd with Some b => b | None => is_down orig end) /\
    coords d' = (if r then map rev_coord (set_nth i c2 (coords d)) else set_nth i c2 (coords d)) /\
    (match dts with
     | Some want => exists v1 v2 rest, vals c2 = v1 :: v2 :: rest /\
                    r = negb (Bool.eqb (Bool.eqb (v2 <? v1) (is_down c2)) want)
     | None => r = false end).
Proof.
  intros Hc L. unfold step. rewrite Hc.
  pose proof (processed_phys pd cur orig L) as P. cbv zeta in P.
  set (c1 := {| attr := set_attr pd (attr cur); vals := vals cur; bnds := bnds cur |}) in *.
  set (c2 := match pd with Some b => if Bool.eqb (is_down orig) b then c1 else negate c1 | None => c1 end) in *.
  destruct P as (P1 & P2 & P3 & P4).
  assert (E : (match pd with
               | Some b => if Bool.eqb (is_down orig) b then (c1, is_down orig) else (negate c1, b)
               | None => (c1, is_down orig) end) = (c2, is_down c2)).
  { rewrite P3. unfold c2. destruct pd as [b|]; [|reflexivity].
    destruct (Bool.eqb (is_down orig) b) eqn:E; [|reflexivity]. apply eqb_prop in E. now rewrite E. }
  rewrite E. destruct dts as [want|].
  - destruct (vals c2) as [|v1 [|v2 rest]] eqn:V; try discriminate.
    destruct (Bool.eqb (Bool.eqb (v2 <? v1) (is_down c2)) want) eqn:W; intros [= <-].
    + exists false, c2. cbn. repeat split; auto. exists v1, v2, rest. now rewrite W.
    + exists true, c2. cbn. repeat split; auto. exists v1, v2, rest. now rewrite W.
  - intros [= <-]. exists false, c2. cbn. repeat split; auto.
Qed.

(* C13 association, one iteration: rows and every coordinate's physical depths are kept or reversed together *)
Lemma step_assoc {A} pd dts (d d' : ddim A) i orig cur :
  nth_error (coords d) i = Some cur -> like cur orig -> step pd dts d i orig = Some d' ->
  exists r : bool,
    rows d' = rv r (rows d) /\ length (coords d') = length (coords d) /\
    (forall j c, nth_error (coords d) j = Some c ->
       exists c', nth_error (coords d') j = Some c' /\ phys c' = rv r (phys c) /\
                  phys_b c' = (if r then option_map (@rev _) (phys_b c) else phys_b c) /\
                  (j <> i -> like c' c) /\
                  (j = i -> attr c' = set_attr pd (attr c))).
Proof.
  intros Hc L S. destruct (step_spec pd dts d d' i orig cur Hc L S) as (r & c2 & Hr & P1 & P2 & P4 & _ & Hco & _).
  exists r. split; [exact Hr|]. split.
  { rewrite Hco. destruct r; [rewrite map_length|]; apply set_nth_length. }
  intros j c Hj.
  assert (Hi : (i < length (coords d))%nat) by (apply nth_error_Some; congruence).
  destruct (Nat.eq_dec j i) as [->|N].
  - assert (c = cur) by congruence. subst c.
    destruct r; rewrite Hco.
    + exists (rev_coord c2). split; [rewrite nth_error_map, nth_error_set_nth_eq by exact Hi; reflexivity|].
      rewrite phys_rev, phys_b_rev, P1, P2. repeat split; auto; try tauto.
    + exists c2. split; [apply nth_error_set_nth_eq; exact Hi|]. cbn. repeat split; auto; tauto.
  - destruct r; rewrite Hco.
    + exists (rev_coord c). split; [rewrite nth_error_map, nth_error_set_nth_neq by congruence; now rewrite Hj|].
      rewrite phys_rev, phys_b_rev. repeat split; auto; try tauto.
    + exists c. split; [rewrite nth_error_set_nth_neq by congruence; exact Hj|]. cbn. repeat split; auto; try tauto.
Qed.

Lemma rv_rv {B} (r s : bool) (l : list B) : rv r (rv s l) = rv (xorb r s) l.
Proof. destruct r, s; cbn; auto. apply rev_involutive. Qed.

Lemma like_trans_rev c' c o : like c' c -> like c o -> like c' o.
Proof.
  intros [A1 [V1|V1]] [A2 [V2|V2]]; (split; [congruence|]); rewrite V1, V2; auto.
  left. apply rev_involutive.
Qed.

Lemma opt_rev_rev {B} (r s : bool) (o : option (list B)) :
  (if r then option_map (@rev _) (if s then option_map (@rev _) o else o) else (if s then option_map (@rev _) o else o)) =
  (if xorb r s then option_map (@rev _) o else o).
Proof. destruct r, s, o; cbn; auto. now rewrite rev_involutive. Qed.

(* the whole loop *)
Lemma steps_assoc {A} pd dts : forall (origs : list coord) (d d' : ddim A) i,
  (forall k o, nth_error origs k = Some o -> exists c, nth_error (coords d) (i + k) = Some c /\ like c o) ->
  steps pd dts d i origs = Some d' ->
  exists r : bool,
    rows d' = rv r (rows d) /\ length (coords d') = length (coords d) /\
    (forall j c, nth_error (coords d) j = Some c ->
       exists c', nth_error (coords d') j = Some c' /\ phys c' = rv r (phys c) /\
                  phys_b c' = (if r then option_map (@rev _) (phys_b c) else phys_b c) /\
                  ((i <= j < i + length origs)%nat -> attr c' = set_attr pd (attr c)) /\
                  ((j < i)%nat -> attr c' = attr c)).
Proof.
  induction origs as [|o rest IH]; intros d d' i Inv HS.
  - cbn in HS. injection HS as <-. exists false. cbn. repeat split; auto. intros j c Hj. exists c. repeat split; auto. cbn. lia.
  - cbn [steps] in HS. destruct (step pd dts d i o) as [d1|] eqn:S1; [|discriminate].
    destruct (Inv O o eq_refl) as [cur [Hc L]]. rewrite Nat.add_0_r in Hc.
    destruct (step_assoc pd dts d d1 i o cur Hc L S1) as (r1 & R1 & Len1 & C1).
    assert (Inv1 : forall k o', nth_error rest k = Some o' ->
                     exists c, nth_error (coords d1) (S i + k) = Some c /\ like c o').
    { intros k o' Hk. destruct (Inv (S k) o' Hk) as [c [Hc' L']].
      replace (i + S k)%nat with (S i + k)%nat in Hc' by lia.
      destruct (C1 _ _ Hc') as (c' & Hc1 & _ & _ & Hne & _). exists c'. split; [exact Hc1|].
      pose proof (Hne ltac:(lia)) as Hl. eapply like_trans_rev; eauto. }
    destruct (IH d1 d' (S i) Inv1 HS) as (r2 & R2 & Len2 & C2).
    exists (xorb r2 r1). split; [rewrite R2, R1; apply rv_rv|]. split; [congruence|].
    intros j c Hj. destruct (C1 _ _ Hj) as (c1 & Hj1 & P1 & B1 & Hne1 & He1).
    destruct (C2 _ _ Hj1) as (c2 & Hj2 & P2 & B2 & Hin2 & Hlt2).
    exists c2. split; [exact Hj2|]. split; [rewrite P2, P1; apply rv_rv|]. split; [rewrite B2, B1; apply opt_rev_rev|].
    split.
    + intros Hr. cbn [length] in Hr. destruct (Nat.eq_dec j i) as [->|N].
      * rewrite (Hlt2 ltac:(lia)). now apply He1.
      * rewrite (Hin2 ltac:(lia)). destruct (Hne1 N) as [Ha _]. now rewrite Ha.
    + intros Hlt. rewrite (Hlt2 ltac:(lia)). destruct (Hne1 ltac:(lia)) as [Ha _]. exact Ha.
Qed.

Lemma like_refl c : like c c.
Proof. split; auto. Qed.

(* C13: every value stays at its physical depth, bounds follow, the requested sign is recorded *)
Theorem normalize_assoc {A} pd dts (d d' : ddim A) :
  normalize pd dts d = Some d' ->
  exists r : bool,
    rows d' = rv r (rows d) /\ length (coords d') = length (coords d) /\
    (forall j c, nth_error (coords d) j = Some c ->
       exists c', nth_error (coords d') j = Some c' /\ phys c' = rv r (phys c) /\
                  phys_b c' = (if r then option_map (@rev _) (phys_b c) else phys_b c) /\
                  attr c' = set_attr pd (attr c)).
Proof.
  unfold normalize. intros HS.
  destruct (steps_assoc pd dts (coords d) d d' O) as (r & R & Len & C); auto.
  { intros k o Hk. exists o. split; [exact Hk | apply like_refl]. }
  exists r. split; [exact R|]. split; [exact Len|]. intros j c Hj.
  destruct (C _ _ Hj) as (c' & H1 & H2 & H3 & H4 & _). exists c'. repeat split; auto.
  apply H4. split; [lia|]. cbn. apply nth_error_Some. congruence.
Qed.

Lemma combine_rev {B C} (a : list B) (b : list C) : length a = length b -> combine (rev a) (rev b) = rev (combine a b).
Proof.
  revert b. induction a as [|x a IH]; intros [|y b] H; try discriminate; [reflexivity|]. cbn in H.
  cbn [rev combine]. rewrite <- IH by lia.
  assert (L : length (rev a) = length (rev b)) by (rewrite !rev_length; lia).
  clear IH. revert L. generalize (rev a) (rev b). intros l. induction l as [|u l IH]; intros [|v m] L; try discriminate; auto.
  cbn. f_equal. apply IH. cbn in L. lia.
Qed.

(* as the user sees it: the list of (physical depth, data at that level) pairs is the input's, or its reverse *)
Corollary normalize_pairs {A} pd dts (d d' : ddim A) j c :
  normalize pd dts d = Some d' -> nth_error (coords d) j = Some c -> length (vals c) = length (rows d) ->
  exists c', nth_error (coords d') j = Some c' /\
    (combine (phys c') (rows d') = combine (phys c) (rows d) \/
     combine (phys c') (rows d') = rev (combine (phys c) (rows d))).
Proof.
  intros HS Hj Hl. destruct (normalize_assoc pd dts d d' HS) as (r & R & _ & C).
  destruct (C _ _ Hj) as (c' & H1 & H2 & _). exists c'. split; [exact H1|]. rewrite H2, R.
  destruct r; cbn; [right|left; reflexivity]. apply combine_rev.
  unfold phys. destruct (is_down c); [|rewrite map_length]; exact Hl.
Qed.

(* options left unset leave everything untouched *)
Lemma steps_none {A} : forall (origs : list coord) (d : ddim A) i,
  (forall k o, nth_error origs k = Some o -> exists c, nth_error (coords d) (i + k) = Some c) ->
  steps None None d i origs = Some d.
Proof.
  induction origs as [|o rest IH]; intros d i Inv; [reflexivity|]. cbn [steps].
  destruct (Inv O o eq_refl) as [cur Hc]. rewrite Nat.add_0_r in Hc.
  assert (S1 : step None None d i o = Some d).
  { unfold step. rewrite Hc. cbn [set_attr]. f_equal.
    replace {| attr := attr cur; vals := vals cur; bnds := bnds cur |} with cur by (now destruct cur).
    rewrite (set_nth_same _ _ _ Hc). now destruct d. }
  rewrite S1. apply IH. intros k o' Hk. destruct (Inv (S k) o' Hk) as [c Hc'].
  exists c. now replace (S i + k)%nat with (i + S k)%nat by lia.
Qed.

Theorem normalize_none_untouched {A} (d : ddim A) : normalize None None d = Some d.
Proof. unfold normalize. apply steps_none. intros k o Hk. now exists o. Qed.

(* ---- a dimension with one depth coordinate: requested order, idempotence ---- *)
Definition incr (l : list Z) := forall i j, (i < j < length l)%nat -> nth i l 0 < nth j l 0.
Definition decr (l : list Z) := forall i j, (i < j < length l)%nat -> nth j l 0 < nth i l 0.

Lemma incr_rev l : incr l -> decr (rev l).
Proof.
  intros H i j Hij. rewrite rev_length in Hij. rewrite !rev_nth by lia. apply H. lia.
Qed.
Lemma decr_rev l : decr l -> incr (rev l).
Proof.
  intros H i j Hij. rewrite rev_length in Hij. rewrite !rev_nth by lia. apply H. lia.
Qed.
Lemma nth_opp k l : nth k (map Z.opp l) 0 = - nth k l 0.
Proof. change 0 with (Z.opp 0) at 1. apply map_nth. Qed.
Lemma incr_opp l : incr l -> decr (map Z.opp l).
Proof. intros H i j Hij. rewrite map_length in Hij. rewrite !nth_opp. specialize (H i j Hij). lia. Qed.
Lemma decr_opp l : decr l -> incr (map Z.opp l).
Proof. intros H i j Hij. rewrite map_length in Hij. rewrite !nth_opp. specialize (H i j Hij). lia. Qed.

Lemma incr_head v1 v2 rest : incr (v1 :: v2 :: rest) -> (v2 <? v1) = false.
Proof. intros H. specialize (H O 1%nat). cbn in H. apply Z.ltb_ge. lia. Qed.
Lemma decr_head v1 v2 rest : decr (v1 :: v2 :: rest) -> (v2 <? v1) = true.
Proof. intros H. specialize (H O 1%nat). cbn in H. apply Z.ltb_lt. lia. Qed.

Definition single {A} (c : coord) (rws : list A) : ddim A := {| coords := [c]; rows := rws |}.

(* the physical depths of the result run deep-to-shallow exactly when asked to *)
Theorem normalize_order {A} pd want (c : coord) (rws : list A) d' :
  (incr (phys c) \/ decr (phys c)) -> (2 <= length (vals c))%nat ->
  normalize pd (Some want) (single c rws) = Some d' ->
  exists c', coords d' = [c'] /\ (if want then decr (phys c') else incr (phys c')).
Proof.
  intros Hm Hlen HS. unfold normalize, single in HS. cbn [coords steps] in HS.
  destruct (step pd (Some want) _ O c) as [d1|] eqn:S1; [|discriminate]. injection HS as <-.
  destruct (step_spec pd (Some want) {| coords := [c]; rows := rws |} d1 O c c eq_refl (like_refl c) S1)
    as (r & c2 & _ & P1 & _ & _ & _ & Hco & (v1 & v2 & rest & V & Hr)).
  cbn [coords set_nth] in Hco.
  assert (Hphys2 : incr (phys c2) \/ decr (phys c2)) by (now rewrite P1).
  (* first-two comparison of vals c2 against the direction of phys c2 *)
  assert (Dir : Bool.eqb (v2 <? v1) (is_down c2) = true -> decr (phys c2)).
  { intros E. apply eqb_prop in E. unfold phys in *. destruct (is_down c2).
    - rewrite V in *. destruct Hphys2 as [Hi|Hd]; auto. apply incr_head in Hi. congruence.
    - destruct Hphys2 as [Hi|Hd]; auto. exfalso.
      apply incr_opp in Hi. rewrite map_opp_invol, V in Hi. apply decr_head in Hi. congruence. }
  assert (Dir' : Bool.eqb (v2 <? v1) (is_down c2) = false -> incr (phys c2)).
  { intros E. apply eqb_false_iff in E. unfold phys in *. destruct (is_down c2).
    - rewrite V in *. destruct Hphys2 as [Hi|Hd]; auto. apply decr_head in Hd. congruence.
    - destruct Hphys2 as [Hi|Hd]; auto. exfalso.
      apply decr_opp in Hd. rewrite map_opp_invol, V in Hd. apply incr_head in Hd. congruence. }
  destruct (Bool.eqb (v2 <? v1) (is_down c2)) eqn:E; destruct want; cbn in Hr; subst r; rewrite Hco; cbn [map].
  - exists c2. split; auto.
  - exists (rev_coord c2). split; auto. rewrite phys_rev. apply decr_rev. auto.
  - exists (rev_coord c2). split; auto. rewrite phys_rev. apply incr_rev. auto.
  - exists c2. split; auto.
Qed.

(* normalising a normalised dataset changes nothing *)
Theorem normalize_idempotent {A} pd dts (c : coord) (rws : list A) d' :
  (incr (phys c) \/ decr (phys c)) -> (2 <= length (vals c))%nat ->
  normalize pd dts (single c rws) = Some d' -> normalize pd dts d' = Some d'.
Proof.
  intros Hm Hlen HS. unfold normalize, single in HS. cbn [coords steps] in HS.
  destruct (step pd dts _ O c) as [d1|] eqn:S1; [|discriminate]. injection HS as <-.
  destruct (step_spec pd dts {| coords := [c]; rows := rws |} d1 O c c eq_refl (like_refl c) S1)
    as (r & c2 & Hrows & P1 & _ & Hattr & Hdown & Hco & Hdts).
  cbn [coords set_nth rows] in Hco, Hrows.
  set (cf := if r then rev_coord c2 else c2).
  assert (Hcf : coords d1 = [cf]) by (unfold cf; rewrite Hco; now destruct r).
  assert (Hattr_cf : attr cf = set_attr pd (attr c)) by (unfold cf; now destruct r).
  assert (Hdown_cf : is_down cf = is_down c2) by (unfold cf; destruct r; auto using is_down_rev).
  (* the second run *)
  unfold normalize. rewrite Hcf. cbn [steps]. unfold step. rewrite Hcf. cbn [nth_error].
  assert (Eattr : set_attr pd (attr cf) = attr cf) by (rewrite Hattr_cf; destruct pd as [[|]|]; reflexivity).
  rewrite Eattr.
  replace {| attr := attr cf; vals := vals cf; bnds := bnds cf |} with cf by (now destruct cf).
  assert (Epd : match pd with
                | Some b => if Bool.eqb (is_down cf) b then (cf, is_down cf) else (negate cf, b)
                | None => (cf, is_down cf) end = (cf, is_down cf)).
  { destruct pd as [b|]; auto. rewrite Hdown_cf, Hdown. now rewrite eqb_reflx. }
  rewrite Epd. cbn [set_nth].
  destruct dts as [want|].
  2:{ f_equal. destruct d1; cbn in *. now rewrite Hcf. }
  destruct Hdts as (v1 & v2 & rest & V & Hr).
  assert (Hphys2 : incr (phys c2) \/ decr (phys c2)) by (now rewrite P1).
  (* direction facts for c2, as in normalize_order *)
  assert (Dir : Bool.eqb (v2 <? v1) (is_down c2) = true -> decr (phys c2)).
  { intros E. apply eqb_prop in E. unfold phys in *. destruct (is_down c2).
    - rewrite V in *. destruct Hphys2 as [Hi|Hd]; auto. apply incr_head in Hi. congruence.
    - destruct Hphys2 as [Hi|Hd]; auto. exfalso.
      apply incr_opp in Hi. rewrite map_opp_invol, V in Hi. apply decr_head in Hi. congruence. }
  assert (Dir' : Bool.eqb (v2 <? v1) (is_down c2) = false -> incr (phys c2)).
  { intros E. apply eqb_false_iff in E. unfold phys in *. destruct (is_down c2).
    - rewrite V in *. destruct Hphys2 as [Hi|Hd]; auto. apply decr_head in Hd. congruence.
    - destruct Hphys2 as [Hi|Hd]; auto. exfalso.
      apply decr_opp in Hd. rewrite map_opp_invol, V in Hd. apply incr_head in Hd. congruence. }
  (* phys cf runs as requested *)
  assert (Want : if want then decr (phys cf) else incr (phys cf)).
  { unfold cf. destruct (Bool.eqb (v2 <? v1) (is_down c2)) eqn:E; destruct want; cbn in Hr; subst r;
      rewrite ?phys_rev; auto using decr_rev, incr_rev. }
  assert (Lcf : (2 <= length (vals cf))%nat).
  { unfold cf. destruct r; cbn; rewrite ?rev_length, V; cbn; lia. }
  destruct (vals cf) as [|w1 [|w2 rest']] eqn:W; try (cbn in Lcf; lia).
  assert (Dec : Bool.eqb (Bool.eqb (w2 <? w1) (is_down cf)) want = true).
  { unfold phys in Want. destruct (is_down cf) eqn:Dcf; rewrite ?W in Want; destruct want.
    - apply decr_head in Want. now rewrite Want.
    - apply incr_head in Want. now rewrite Want.
    - apply decr_opp in Want. rewrite map_opp_invol in Want. apply incr_head in Want. now rewrite Want.
    - apply incr_opp in Want. rewrite map_opp_invol in Want. apply decr_head in Want. now rewrite Want. }
  rewrite Dec. f_equal. destruct d1; cbn in *. now rewrite Hcf.
Qed.

(* ================= C12: the four encodings of one physical column give the same floor ================= *)
Lemma incr_tail x l : incr (x :: l) -> incr l.
Proof. intros H i j Hij. specialize (H (S i) (S j)). cbn in H. apply H. lia. Qed.

Lemma step_defined {A} pd dts (d : ddim A) i orig cur :
  nth_error (coords d) i = Some cur -> (2 <= length (vals cur))%nat -> exists d', step pd dts d i orig = Some d'.
Proof.
  intros Hc Hl. unfold step. rewrite Hc.
  assert (H : forall c2 (dpd2 : bool), (2 <= length (vals c2))%nat -> exists d',
    (match dts with
     | None => Some {| coords := set_nth i c2 (coords d); rows := rows d |}
     | Some want =>
         match vals c2 with
         | v1 :: v2 :: _ =>
             if Bool.eqb (Bool.eqb (v2 <? v1) dpd2) want
             then Some {| coords := set_nth i c2 (coords d); rows := rows d |}
             else Some (reverse_dim {| coords := set_nth i c2 (coords d); rows := rows d |})
         | _ => None
         end
     end) = Some d').
  { intros c2 dpd2 L. destruct dts; [|eauto]. destruct (vals c2) as [|a0 [|b0 t0]]; cbn in L; try lia.
    destruct (Bool.eqb _ _); eauto. }
  destruct pd as [b|]; [destruct (Bool.eqb (is_down orig) b)|]; apply H; cbn; rewrite ?map_length; auto.
Qed.

Lemma normalize_single_defined {A} pd dts c (rws : list A) :
  (2 <= length (vals c))%nat -> exists d', normalize pd dts (single c rws) = Some d'.
Proof.
  intros L. unfold normalize, single. cbn [coords steps].
  destruct (step_defined pd dts {| coords := [c]; rows := rws |} O c c eq_refl L) as [d' ->]. eauto.
Qed.

Theorem ocean_floor_orientation_independent {V} (up deep_first : bool) (depths : list Z) (col : list (option V)) :
  incr depths -> (2 <= length depths)%nat ->
  let '(vs, data) := encode_col up deep_first depths col in
  ocean_floor_col {| attr := if up then PUp else PDown; vals := vs; bnds := None |} data = Some (floor_value col).
Proof.
  intros Hinc Hlen. unfold encode_col.
  set (ds := if up then map Z.opp depths else depths).
  assert (Hphys : forall vs,
            phys {| attr := if up then PUp else PDown; vals := vs; bnds := None |} = (if up then map Z.opp vs else vs)).
  { intros vs. unfold phys, is_down. cbn. now destruct up. }
  destruct deep_first.
  - (* stored deepest first *)
    set (c := {| attr := if up then PUp else PDown; vals := rev ds; bnds := None |}).
    assert (Pc : decr (phys c)).
    { unfold c. rewrite Hphys. unfold ds. destruct up.
      - rewrite <- map_rev, map_opp_invol. now apply incr_rev.
      - now apply incr_rev. }
    assert (Lc : (2 <= length (vals c))%nat).
    { unfold c, ds. cbn. rewrite rev_length. destruct up; rewrite ?map_length; lia. }
    unfold ocean_floor_col.
    destruct (normalize_single_defined (Some true) (Some false) c (rev col) Lc) as [d' HS]. unfold single in HS.
    rewrite HS. f_equal. f_equal.
    destruct (normalize_order (Some true) false c (rev col) d' (or_intror Pc) Lc HS) as (c' & Hc' & Hi).
    destruct (normalize_assoc _ _ _ _ HS) as (r & R & _ & C).
    destruct (C O c eq_refl) as (c'' & Hn & P & _). rewrite Hc' in Hn. injection Hn as <-.
    cbn [rows] in R. rewrite R.
    destruct r; cbn [rv]; [apply rev_involutive|]. exfalso.
    cbn [rv] in P. rewrite P in Hi.
    assert (L2 : (2 <= length (phys c))%nat).
    { unfold phys. destruct (is_down c); rewrite ?map_length; exact Lc. }
    specialize (Hi O 1%nat ltac:(lia)). specialize (Pc O 1%nat ltac:(lia)). lia.
  - set (c := {| attr := if up then PUp else PDown; vals := ds; bnds := None |}).
    assert (Pc : incr (phys c)).
    { unfold c. rewrite Hphys. unfold ds. destruct up; [now rewrite map_opp_invol | assumption]. }
    assert (Lc : (2 <= length (vals c))%nat).
    { unfold c, ds. cbn. destruct up; rewrite ?map_length; lia. }
    unfold ocean_floor_col.
    destruct (normalize_single_defined (Some true) (Some false) c col Lc) as [d' HS]. unfold single in HS.
    rewrite HS. f_equal. f_equal.
    destruct (normalize_order (Some true) false c col d' (or_introl Pc) Lc HS) as (c' & Hc' & Hi).
    destruct (normalize_assoc _ _ _ _ HS) as (r & R & _ & C).
    destruct (C O c eq_refl) as (c'' & Hn & P & _). rewrite Hc' in Hn. injection Hn as <-.
    cbn [rows] in R. rewrite R.
    destruct r; cbn [rv]; [|reflexivity]. exfalso.
    cbn [rv] in P. rewrite P in Hi.
    assert (L2 : (2 <= length (phys c))%nat).
    { unfold phys. destruct (is_down c); rewrite ?map_length; exact Lc. }
    apply incr_rev in Pc. rewrite <- (rev_length (phys c)) in L2.
    specialize (Hi O 1%nat ltac:(lia)). specialize (Pc O 1%nat ltac:(lia)). lia.
Qed.

(* non-vacuity *)
Example ex_floor : floor_value [Some 7; None; Some 9; None] = Some 9 /\ floor_index [Some 7; None; Some 9; None] = 2%nat.
Proof. vm_compute. auto. Qed.
Example ex_normalize :
  show_dim (normalize (Some true) (Some false)
     (single {| attr := PUp; vals := [-30; -20; -10]; bnds := Some [(-35, -25); (-25, -15); (-15, -5)] |} [3; 2; 1]))
  = Some ([(PDown, [10; 20; 30], Some [(15, 5); (25, 15); (35, 25)])], [1; 2; 3]).
Proof. vm_compute. reflexivity. Qed.
