From Coq Require Import ZArith List Bool Lia.
From EV Require Import Model.AttrMerge.
Import ListNotations.
Open Scope Z_scope.

Lemma has_app : forall k a b, has k (a ++ b) = has k a || has k b.
Proof. intros. unfold has. apply existsb_app. Qed.

Lemma get_app : forall k a b, get k (a ++ b) = match get k a with Some v => Some v | None => get k b end.
Proof.
  intros k a b. unfold get. induction a as [|x a IH]; simpl; [reflexivity|].
  destruct (Z.eqb (fst x) k); simpl; [reflexivity|exact IH].
Qed.

Lemma get_none_has : forall k d, get k d = None <-> has k d = false.
Proof.
  intros k d. unfold get, has. induction d as [|x d IH]; simpl; [tauto|].
  destruct (Z.eqb (fst x) k); simpl; [split; discriminate|exact IH].
Qed.

(* a lookup in the merged dict: the destination's entry if it has one, else the source's (first) entry *)
Lemma get_update : forall k s d, get k (update_no_clobber s d) = match get k d with Some v => Some v | None => get k s end.
Proof.
  intros k s. unfold update_no_clobber. induction s as [|x s IH]; intros d; simpl.
  - destruct (get k d); reflexivity.
  - rewrite IH. destruct (has (fst x) d) eqn:H.
    + destruct (get k d) eqn:G; [reflexivity|].
      unfold get at 2. simpl. destruct (Z.eqb (fst x) k) eqn:E; [|reflexivity].
      apply Z.eqb_eq in E. subst k. apply get_none_has in G. congruence.
    + rewrite get_app. destruct (get k d) eqn:G; [reflexivity|].
      unfold get at 1 3. simpl. destruct (Z.eqb (fst x) k) eqn:E; simpl; [reflexivity|reflexivity].
Qed.

Lemma has_update : forall k s d, has k (update_no_clobber s d) = has k d || has k s.
Proof.
  intros k s d. destruct (has k (update_no_clobber s d)) eqn:A.
  - destruct (has k d) eqn:B; [reflexivity|]. simpl. destruct (has k s) eqn:C; [reflexivity|]. exfalso.
    apply get_none_has in B, C. assert (get k (update_no_clobber s d) = None) by (rewrite get_update, B; exact C).
    apply get_none_has in H. congruence.
  - apply get_none_has in A. rewrite get_update in A. destruct (get k d) eqn:B; [discriminate|].
    apply get_none_has in B, A. now rewrite A, B.
Qed.

Lemma has_filter : forall k (p : Z -> bool) d, has k (filter (fun kv => p (fst kv)) d) = has k d && p k.
Proof.
  intros k p d. unfold has. induction d as [|x d IH]; simpl; [reflexivity|].
  destruct (p (fst x)) eqn:P; simpl.
  - rewrite IH. destruct (Z.eqb (fst x) k) eqn:E; simpl; [apply Z.eqb_eq in E; subst; now rewrite P|reflexivity].
  - rewrite IH. destruct (Z.eqb (fst x) k) eqn:E; simpl; [|reflexivity].
    apply Z.eqb_eq in E. subst. rewrite P. now rewrite andb_false_r.
Qed.

Lemma get_filter_keep : forall k (p : Z -> bool) d, p k = true -> get k (filter (fun kv => p (fst kv)) d) = get k d.
Proof.
  intros k p d Hp. unfold get. induction d as [|x d IH]; simpl; [reflexivity|].
  destruct (p (fst x)) eqn:P; simpl.
  - destruct (Z.eqb (fst x) k); [reflexivity|exact IH].
  - destruct (Z.eqb (fst x) k) eqn:E; [apply Z.eqb_eq in E; subst; congruence|exact IH].
Qed.

(* C08: an attribute of the sample variable is on the result with the sample's value, unless the new variable brought its
   own value for it or holds that name in its encoding *)
Lemma attributes_pass : forall s_attrs s_enc n_attrs n_enc k v,
  get k s_attrs = Some v -> has k n_enc = false -> get k n_attrs = None ->
  get k (fst (like_var s_attrs s_enc n_attrs n_enc)) = Some v.
Proof.
  intros s_attrs s_enc n_attrs n_enc k v Hs He Hn. unfold like_var. simpl. rewrite get_update, Hn.
  rewrite (get_filter_keep k (fun key => negb (has key n_enc))); [exact Hs|now rewrite He].
Qed.

(* what the new variable has is never overwritten *)
Lemma new_values_win : forall s_attrs s_enc n_attrs n_enc k v,
  (get k n_attrs = Some v -> get k (fst (like_var s_attrs s_enc n_attrs n_enc)) = Some v) /\
  (get k n_enc = Some v -> get k (snd (like_var s_attrs s_enc n_attrs n_enc)) = Some v).
Proof. intros. unfold like_var. simpl. split; intros H; rewrite get_update, H; reflexivity. Qed.

Lemma consistent_spec : forall attrs enc, consistent attrs enc = true <-> forall k, has k attrs = true -> has k enc = false.
Proof.
  intros attrs enc. unfold consistent. rewrite forallb_forall. split.
  - intros H k Hk. unfold has in Hk. apply existsb_exists in Hk. destruct Hk as [x [Hx E]]. apply Z.eqb_eq in E. subst k.
    specialize (H x Hx). now apply negb_true_iff in H.
  - intros H x Hx. apply negb_true_iff, H. unfold has. apply existsb_exists. exists x. split; [exact Hx|apply Z.eqb_refl].
Qed.

(* C09: the result can be written - no name is both an attribute and an encoding entry - whenever the sample and the new
   variable each could, and the new variable has no attribute whose name the sample holds in its encoding *)
Lemma result_saveable : forall s_attrs s_enc n_attrs n_enc,
  consistent s_attrs s_enc = true -> consistent n_attrs n_enc = true -> consistent n_attrs s_enc = true ->
  let r := like_var s_attrs s_enc n_attrs n_enc in consistent (fst r) (snd r) = true.
Proof.
  intros s_attrs s_enc n_attrs n_enc Hs Hn Hx. simpl. apply consistent_spec. intros k Hk.
  rewrite consistent_spec in Hs, Hn, Hx. rewrite has_update in *. 
  rewrite (has_filter k (fun key => negb (has key n_enc))) in Hk.
  apply orb_true_iff in Hk. destruct Hk as [Hk|Hk].
  - now rewrite (Hn k Hk), (Hx k Hk).
  - apply andb_true_iff in Hk. destruct Hk as [Hk He]. apply negb_true_iff in He. now rewrite He, (Hs k Hk).
Qed.

(* the code before d4bc755 restored every sample attribute: an attribute the reader of the new pieces decoded into the encoding
   came back as an attribute as well, and the result could not be written *)
Lemma old_not_saveable : exists s_attrs s_enc n_attrs n_enc,
  consistent s_attrs s_enc = true /\ consistent n_attrs n_enc = true /\ consistent n_attrs s_enc = true /\
  (let r := like_var_old s_attrs s_enc n_attrs n_enc in consistent (fst r) (snd r) = false) /\
  (let r := like_var s_attrs s_enc n_attrs n_enc in consistent (fst r) (snd r) = true).
Proof. exists [(1, 10); (2, 20)], [(3, 30)], [(2, 21)], [(1, 11)]. vm_compute. repeat split. Qed.
