From Coq Require Import ZArith List Bool Lia.
From EV Require Import Model.TimeCoord.
Import ListNotations.
Open Scope Z_scope.

Lemma in_bounds_names : forall vs b, In b (bounds_names vs) <-> exists w, In w vs /\ tv_bounds w = Some b.
Proof.
  intros vs b. unfold bounds_names. rewrite in_flat_map. split.
  - intros [w [Hw Hb]]. exists w. split; [exact Hw|]. destruct (tv_bounds w) as [b'|]; simpl in Hb; [|contradiction].
    destruct Hb as [Hb|[]]. now subst.
  - intros [w [Hw Hb]]. exists w. split; [exact Hw|]. rewrite Hb. simpl. now left.
Qed.

Lemma is_bounds_spec : forall bs v, is_bounds bs v = true <-> In (tv_name v) bs.
Proof.
  intros bs v. unfold is_bounds. rewrite existsb_exists. split.
  - intros [x [Hx He]]. apply Z.eqb_eq in He. now subst.
  - intros H. exists (tv_name v). split; [exact H|apply Z.eqb_refl].
Qed.

(* the chosen variable is never the bounds of any variable of the dataset *)
Lemma not_bounds : forall vs v, time_coordinate vs = Some v ->
  forall w, In w vs -> tv_bounds w <> Some (tv_name v).
Proof.
  intros vs v H w Hw Hb. unfold time_coordinate in H. apply find_some in H. destruct H as [_ He].
  unfold eligible in He. apply andb_true_iff in He. destruct He as [He _]. apply andb_true_iff in He. destruct He as [He _].
  apply negb_true_iff in He.
  assert (Hin : is_bounds (bounds_names vs) v = true).
  { apply is_bounds_spec. apply in_bounds_names. exists w. now split. }
  congruence.
Qed.

(* it is a decoded time variable of the dataset *)
Lemma is_time : forall vs v, time_coordinate vs = Some v -> In v vs /\ tv_since v = true /\ tv_datetime v = true.
Proof.
  intros vs v H. unfold time_coordinate in H. apply find_some in H. destruct H as [Hin He].
  unfold eligible in He. apply andb_true_iff in He. destruct He as [He Hd]. apply andb_true_iff in He. destruct He as [_ Hs].
  now repeat split.
Qed.

Lemma find_first : forall (A : Type) (p : A -> bool) l x, find p l = Some x ->
  exists pre post, l = pre ++ x :: post /\ forall u, In u pre -> p u = false.
Proof.
  intros A p l. induction l as [|a l IH]; intros x H; simpl in H; [discriminate|].
  destruct (p a) eqn:Hp.
  - inversion H; subst. exists [], l. split; [reflexivity|]. intros u [].
  - destruct (IH x H) as [pre [post [-> Hpre]]]. exists (a :: pre), post. split; [reflexivity|].
    intros u [->|Hu]; [exact Hp|now apply Hpre].
Qed.

(* ... the first such variable in dataset order *)
Lemma first_eligible : forall vs v, time_coordinate vs = Some v ->
  exists pre post, vs = pre ++ v :: post /\ forall u, In u pre -> eligible (bounds_names vs) u = false.
Proof. intros vs v H. unfold time_coordinate in H. now apply find_first in H. Qed.

(* refused exactly when no variable qualifies *)
Lemma none_iff : forall vs, time_coordinate vs = None <-> forall u, In u vs -> eligible (bounds_names vs) u = false.
Proof.
  intros vs. unfold time_coordinate. split.
  - intros H u Hu. now apply (find_none _ _ H).
  - intros H. destruct (find (eligible (bounds_names vs)) vs) as [x|] eqn:Hf; [|reflexivity].
    apply find_some in Hf. destruct Hf as [Hin He]. rewrite (H x Hin) in He. discriminate.
Qed.

(* a time coordinate with bounds is found wherever its bounds are listed *)
Lemma bounds_position_irrelevant : forall pre post t b,
  tv_since t = true -> tv_datetime t = true -> tv_bounds t = Some (tv_name b) -> tv_bounds b = None ->
  tv_name t <> tv_name b ->
  (forall u, In u (pre ++ post) -> tv_since u && tv_datetime u = false) ->
  (forall u, In u (pre ++ post) -> tv_bounds u <> Some (tv_name t)) ->
  show (time_coordinate (pre ++ b :: t :: post)) = Some (tv_name t) /\
  show (time_coordinate (pre ++ t :: b :: post)) = Some (tv_name t).
Proof.
  intros pre post t b Hs Hd Hb Hbn Hne Hothers Hnob.
  assert (Hel : forall vs, (forall w, In w vs -> tv_bounds w <> Some (tv_name t)) -> eligible (bounds_names vs) t = true).
  { intros vs Hn. unfold eligible. rewrite Hs, Hd, !andb_true_r. apply negb_true_iff.
    destruct (is_bounds (bounds_names vs) t) eqn:E; [|reflexivity].
    apply is_bounds_spec in E. apply in_bounds_names in E. destruct E as [w [Hw Hwb]]. exfalso. now apply (Hn w Hw). }
  assert (Hbel : forall vs, In t vs -> eligible (bounds_names vs) b = false).
  { intros vs Hin. unfold eligible.
    assert (E : is_bounds (bounds_names vs) b = true).
    { apply is_bounds_spec. apply in_bounds_names. exists t. now split. }
    now rewrite E. }
  assert (Hoel : forall vs u, In u (pre ++ post) -> eligible (bounds_names vs) u = false).
  { intros vs u Hu. unfold eligible. rewrite <- andb_assoc. rewrite (Hothers u Hu). apply andb_false_r. }
  assert (Hfind : forall vs l l1 l2, l = l1 ++ t :: l2 -> (forall u, In u l1 -> eligible (bounds_names vs) u = false) ->
            eligible (bounds_names vs) t = true -> find (eligible (bounds_names vs)) l = Some t).
  { intros vs l l1 l2 ->. induction l1 as [|a l1 IH]; intros H1 Ht; simpl.
    - now rewrite Ht.
    - rewrite (H1 a (or_introl eq_refl)). apply IH; [|exact Ht]. intros u Hu. apply H1. now right. }
  split; unfold show, time_coordinate.
  - assert (E : pre ++ b :: t :: post = (pre ++ [b]) ++ t :: post) by (rewrite <- app_assoc; reflexivity).
    rewrite (Hfind _ _ (pre ++ [b]) post E); [reflexivity| |].
    + intros u Hu. apply in_app_or in Hu. destruct Hu as [Hu|[<-|[]]].
      * apply Hoel. apply in_or_app. now left.
      * apply Hbel. apply in_or_app. right. right. now left.
    + apply Hel. intros w Hw. apply in_app_or in Hw. destruct Hw as [Hw|[<-|[<-|Hw]]].
      * apply Hnob. apply in_or_app. now left.
      * rewrite Hbn. discriminate.
      * rewrite Hb. intros E'. inversion E'. congruence.
      * apply Hnob. apply in_or_app. now right.
  - rewrite (Hfind _ _ pre (b :: post) eq_refl); [reflexivity| |].
    + intros u Hu. apply Hoel. apply in_or_app. now left.
    + apply Hel. intros w Hw. apply in_app_or in Hw. destruct Hw as [Hw|[<-|[<-|Hw]]].
      * apply Hnob. apply in_or_app. now left.
      * rewrite Hb. intros E'. inversion E'. congruence.
      * rewrite Hbn. discriminate.
      * apply Hnob. apply in_or_app. now right.
Qed.

(* the defect repaired in /repo (171c774): without skipping bounds variables, bounds listed first are taken *)
Lemma old_takes_bounds_refuted : exists vs v w, time_coordinate_old vs = Some v /\ In w vs /\ tv_bounds w = Some (tv_name v).
Proof.
  exists [ {| tv_name := 2; tv_datetime := true; tv_since := true; tv_bounds := None |};
           {| tv_name := 1; tv_datetime := true; tv_since := true; tv_bounds := Some 2 |} ].
  eexists. eexists. split; [vm_compute; reflexivity|]. split; [right; left; reflexivity|reflexivity].
Qed.

Example time_with_bounds : show (time_coordinate
  [ {| tv_name := 5; tv_datetime := false; tv_since := false; tv_bounds := None |};
    {| tv_name := 2; tv_datetime := true; tv_since := true; tv_bounds := None |};
    {| tv_name := 1; tv_datetime := true; tv_since := true; tv_bounds := Some 2 |} ]) = Some 1.
Proof. vm_compute. reflexivity. Qed.
