From Coq Require Import ZArith List Lia Bool Sorted.
From EV Require Import Base.Index Base.LArr Base.ListX Model.Select.
Import ListNotations.
Open Scope Z_scope.

Section SelectP.
  Context {A : Type}.
  Notation larr := (larr A).

  Lemma sel_dims_keeps G nd d : forall ds placed, In d ds -> mem d G = false -> In d (sel_dims G nd placed ds).
  Proof.
    induction ds as [|x r IH]; intros placed Hin M; [destruct Hin|].
    cbn [sel_dims]. destruct Hin as [->|H].
    - rewrite M. left; reflexivity.
    - destruct (mem x G); [destruct placed; [|right]|right]; apply IH; auto.
  Qed.

  Lemma sel_dims_places G nd : forall ds, existsb (fun d => mem d G) ds = true -> In nd (sel_dims G nd false ds).
  Proof.
    induction ds as [|x r IH]; cbn [existsb sel_dims]; [discriminate|].
    destruct (mem x G); [left; reflexivity|]. cbn [orb]. intros H. right. auto.
  Qed.

  (* C05 values: under any labelling of the remaining dimensions, row k of the selection is the stored value
     at the dimension indexes of the k-th requested index; every other dimension is intact *)
  Theorem isel_points_get G idxs nd (a : larr) env' :
    get (isel_points G idxs nd a) env' =
    get a (fun d => if mem d G then nth (index_of d G) (nth (Z.to_nat (env' nd)) idxs []) 0 else env' d).
  Proof.
    unfold get. cbn [isel_points dims at_].
    set (ds' := sel_dims G nd false (dims a)).
    f_equal. apply map_ext_in. intros d Hd.
    destruct (mem d G) eqn:M.
    - (* an indexed dimension: its index comes from row k, k = env' nd *)
      assert (Hnd : In nd ds').
      { apply sel_dims_places. apply existsb_exists. exists d. auto. }
      rewrite (nth_index_of env' 0 nd ds' Hnd). reflexivity.
    - apply nth_index_of. now apply sel_dims_keeps.
  Qed.

  (* which variables are in the result, in dataset order: those on the selected grid that are not geometry *)
  Theorem select_indexes_vars geom G shape kinds_of rows nd (ds : @dataset A) (out : @dataset A) :
    select_indexes geom G shape kinds_of rows nd ds = Some out ->
    rows <> [] /\ all_same kinds_of = true /\ rows_in_range shape rows = true /\
    map fst out = map fst (filter (fun nv => negb (mem (fst nv) geom) && uses_any G (snd nv)) ds) /\
    forall n v', In (n, v') out ->
      exists v, In (n, v) ds /\ ~ In n geom /\ uses_any G v = true /\ v' = isel_points G rows nd v.
  Proof.
    unfold select_indexes. destruct rows as [|r0 rows']; [discriminate|].
    destruct (all_same kinds_of && rows_in_range shape (r0 :: rows')) eqn:E; [|discriminate].
    apply andb_true_iff in E as [E1 E2]. intros [= <-].
    split; [discriminate|]. split; auto. split; auto. split.
    - now rewrite map_map.
    - intros n v' Hin. apply in_map_iff in Hin as [[n0 v] [[= <- <-] Hf]].
      apply filter_In in Hf as [Hin Hc]. cbn [fst snd] in *.
      apply andb_true_iff in Hc as [Hg Hu]. exists v. repeat split; auto.
      apply mem_false. now apply negb_true_iff.
  Qed.

  Theorem select_indexes_refuses geom G shape kinds_of nd (ds : @dataset A) :
    select_indexes geom G shape kinds_of [] nd ds = None.
  Proof. reflexivity. Qed.
End SelectP.

Section ExtractP.
  Context {I : Type}.
  Notation found_t := (list (option I)).

  Lemma miss_spec (found : found_t) k :
    In k (miss_positions found) <-> 0 <= k /\ nth_error found (Z.to_nat k) = Some None.
  Proof.
    unfold miss_positions. rewrite in_positions_where, Z.sub_0_r. split.
    - intros [H [[x|] [Hn Hp]]]; [discriminate | auto].
    - intros [H Hn]. split; auto. exists None. auto.
  Qed.

  Lemma hit_spec (found : found_t) k :
    In k (hit_positions found) <-> 0 <= k /\ exists i, nth_error found (Z.to_nat k) = Some (Some i).
  Proof.
    unfold hit_positions. rewrite in_positions_where, Z.sub_0_r. split.
    - intros [H [[x|] [Hn Hp]]]; [eauto | discriminate].
    - intros [H [i Hn]]. split; auto. exists (Some i). auto.
  Qed.

  Lemma hit_values_filter (found : found_t) : map Some (hit_values found) = filter is_some found.
  Proof.
    unfold hit_values. induction found as [|[i|] l IH]; cbn [flat_map filter is_some app map]; congruence.
  Qed.

  (* rows of 'drop' (and of 'error' when nothing misses): the hits, in request order, each labelled with its
     original position; labels strictly increase *)
  Lemma hits_rows (found : found_t) :
    StronglySorted Z.lt (hit_positions found) /\
    map (fun n => nth_error found (Z.to_nat n)) (hit_positions found) = map Some (map Some (hit_values found)).
  Proof.
    split; [apply positions_where_sorted|].
    unfold hit_positions. rewrite hit_values_filter.
    rewrite <- (filter_positions is_some found 0). apply map_ext. intros n. now rewrite Z.sub_0_r.
  Qed.

  (* 'error' names exactly the points that miss *)
  Theorem extract_error (found : found_t) :
    match extract PError found with
    | ONonIntersecting ms => ms = miss_positions found /\ ms <> []
    | ONoIndex => found = []
    | ORows labels sel => miss_positions found = [] /\ labels = hit_positions found /\
                          sel = map Some (hit_values found) /\ found <> []
    end.
  Proof.
    unfold extract. destruct (miss_positions found) as [|m ms] eqn:E.
    - destruct found; auto. repeat split; auto; discriminate.
    - split; [reflexivity | discriminate].
  Qed.

  Theorem extract_drop (found : found_t) :
    match extract PDrop found with
    | ONonIntersecting _ => False
    | ONoIndex => hit_values found = []
    | ORows labels sel => labels = hit_positions found /\ sel = map Some (hit_values found)
    end.
  Proof. unfold extract. destruct (hit_values found); auto. Qed.

  Theorem extract_fill (found : found_t) :
    match extract PFill found with
    | ONonIntersecting _ => False
    | ONoIndex => hit_values found = []
    | ORows labels sel => labels = zrange 0 (Z.of_nat (length found)) /\ sel = found
    end.
  Proof. unfold extract. destruct (hit_values found); auto. Qed.

  Lemma positions_partition (found : found_t) k : 0 <= k < Z.of_nat (length found) ->
    (In k (miss_positions found) /\ ~ In k (hit_positions found)) \/
    (In k (hit_positions found) /\ ~ In k (miss_positions found)).
  Proof.
    intros Hk. destruct (nth_error found (Z.to_nat k)) as [[i|]|] eqn:E.
    - right. split; [apply hit_spec; split; [lia | eauto]|].
      intros H. apply miss_spec in H as [_ H]. congruence.
    - left. split; [apply miss_spec; split; [lia | auto]|].
      intros H. apply hit_spec in H as [_ [i H]]. congruence.
    - apply nth_error_None in E. lia.
  Qed.
End ExtractP.

(* non-vacuity *)
Example ex_extract :
  show_outcome (extract PDrop [Some 7; None; Some 3; None]) = (0, [0; 2], [Some 7; Some 3]) /\
  show_outcome (extract PError [None; Some 3]) = (1, [0], []) /\
  show_outcome (extract PFill [Some 7; None]) = (0, [0; 1], [Some 7; None]).
Proof. vm_compute. repeat split. Qed.
