From Coq Require Import ZArith List Bool.
From EV Require Import Model.BoundsName.
Import ListNotations.
Open Scope Z_scope.

(* a file that does not use the encoding for bounds: opening it with decode_coords='all' changes nothing of what is found *)
Lemma decode_all_same_name : forall v, enc_bounds v = None -> get_bounds_name (decode_all v) = get_bounds_name v.
Proof. intros [a e] He. simpl in He. subst e. unfold decode_all, get_bounds_name. simpl. destruct a; reflexivity. Qed.

Lemma decode_all_same_use : forall present v, enc_bounds v = None -> uses_stored present (decode_all v) = uses_stored present v.
Proof. intros present v He. unfold uses_stored. now rewrite decode_all_same_name. Qed.

Lemma decode_all_idempotent : forall v, decode_all (decode_all v) = decode_all v.
Proof. intros [a e]. unfold decode_all. simpl. destruct a; reflexivity. Qed.

(* the attribute wins over the encoding (a dataset edited after it was opened) *)
Lemma attribute_first : forall b e, get_bounds_name {| attr_bounds := Some b; enc_bounds := e |} = Some b.
Proof. reflexivity. Qed.

(* the old lookup loses the name: a coordinate naming its bounds, opened with decode_coords='all' *)
Lemma old_lookup_refuted : exists v, enc_bounds v = None /\ get_bounds_name_old v <> None /\ get_bounds_name_old (decode_all v) = None.
Proof. exists {| attr_bounds := Some 7; enc_bounds := None |}. repeat split; simpl; congruence. Qed.
