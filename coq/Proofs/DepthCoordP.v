From Coq Require Import ZArith List Bool Lia Permutation.
From EV Require Import Model.DepthCoord.
Import ListNotations.
Open Scope Z_scope.

Lemma memz_spec : forall x l, memz x l = true <-> In x l.
Proof.
  intros x l. unfold memz. rewrite existsb_exists. split.
  - intros [y [Hy He]]. apply Z.eqb_eq in He. now subst.
  - intros H. exists x. split; [exact H|apply Z.eqb_refl].
Qed.

Lemma subset_spec : forall a b, subset a b = true <-> (forall x, In x a -> In x b).
Proof.
  intros a b. unfold subset. rewrite forallb_forall. split; intros H x Hx.
  - now apply memz_spec, H.
  - now apply memz_spec, H.
Qed.

Lemma subset_ext : forall a b b', (forall x, In x b <-> In x b') -> subset a b = subset a b'.
Proof.
  intros a b b' H. destruct (subset a b) eqn:E1, (subset a b') eqn:E2; try reflexivity.
  - rewrite subset_spec in E1. assert (subset a b' = true) by (apply subset_spec; intros x Hx; apply H, E1, Hx). congruence.
  - rewrite subset_spec in E2. assert (subset a b = true) by (apply subset_spec; intros x Hx; apply H, E2, Hx). congruence.
Qed.

Lemma find_first : forall (A : Type) (p : A -> bool) l x, find p l = Some x ->
  exists pre post, l = pre ++ x :: post /\ p x = true /\ forall u, In u pre -> p u = false.
Proof.
  intros A p l. induction l as [|a l IH]; intros x H; simpl in H; [discriminate|].
  destruct (p a) eqn:Hp.
  - inversion H; subst. exists [], l. repeat split; [exact Hp|]. intros u [].
  - destruct (IH x H) as [pre [post [-> [Hx Hpre]]]]. exists (a :: pre), post. repeat split; [exact Hx|].
    intros u [->|Hu]; [exact Hp|now apply Hpre].
Qed.

(* ---- get_grid_kind ---- *)

(* the first kind, in the convention's order, all of whose dimensions the variable has *)
Lemma grid_kind_first : forall grids dims k, grid_kind grids dims = Some k ->
  exists pre ds post, grids = pre ++ (k, ds) :: post /\ (forall x, In x ds -> In x dims)
                      /\ forall u, In u pre -> subset (snd u) dims = false.
Proof.
  intros grids dims k H. unfold grid_kind in H.
  destruct (find (fun g => subset (snd g) dims) grids) as [[k' ds]|] eqn:F; simpl in H; [|discriminate].
  inversion H; subst k'. apply find_first in F. destruct F as [pre [post [-> [Hs Hpre]]]].
  exists pre, ds, post. repeat split; [|exact Hpre]. now apply subset_spec.
Qed.

(* refused exactly when no kind has all its dimensions among the variable's *)
Lemma grid_kind_none : forall grids dims, grid_kind grids dims = None <->
  forall g, In g grids -> exists x, In x (snd g) /\ ~ In x dims.
Proof.
  intros grids dims. unfold grid_kind. split.
  - intros H g Hg. destruct (find _ grids) eqn:F; [discriminate|].
    pose proof (find_none _ _ F g Hg) as Hn. simpl in Hn. unfold subset in Hn.
    assert (E : exists x, In x (snd g) /\ memz x dims = false).
    { clear -Hn. induction (snd g) as [|a l IH]; simpl in Hn; [discriminate|].
      apply andb_false_iff in Hn. destruct Hn as [Hn|Hn].
      - exists a. split; [now left|exact Hn].
      - destruct (IH Hn) as [x [Hx Hm]]. exists x. split; [now right|exact Hm]. }
    destruct E as [x [Hx Hm]]. exists x. split; [exact Hx|]. intro Hin. apply memz_spec in Hin. congruence.
  - intros H. destruct (find _ grids) as [g|] eqn:F; [|reflexivity]. exfalso.
    apply find_some in F. destruct F as [Hg Hs]. destruct (H g Hg) as [x [Hx Hn]]. apply Hn.
    simpl in Hs. rewrite subset_spec in Hs. now apply Hs.
Qed.

(* the order (and repetition) of the variable's own dimensions plays no part *)
Lemma grid_kind_dims_order : forall grids d1 d2, (forall x, In x d1 <-> In x d2) -> grid_kind grids d1 = grid_kind grids d2.
Proof.
  intros grids d1 d2 H. unfold grid_kind. f_equal.
  induction grids as [|g r IH]; simpl; [reflexivity|].
  rewrite (subset_ext (snd g) d1 d2 H). destruct (subset (snd g) d2); [reflexivity|exact IH].
Qed.

(* ---- depth_coordinates ---- *)

Lemma dc_spec : forall grids vs c, In c (depth_coordinates grids vs) <->
  In c vs /\ marked c = true /\ grid_kind grids (dv_dims c) = None.
Proof.
  intros grids vs c. unfold depth_coordinates. rewrite filter_In. unfold is_depth, on_grid.
  split.
  - intros [Hin H]. apply andb_true_iff in H. destruct H as [Hm Hg]. repeat split; [exact Hin|exact Hm|].
    destruct (grid_kind grids (dv_dims c)); [discriminate|reflexivity].
  - intros [Hin [Hm Hg]]. split; [exact Hin|]. rewrite Hm, Hg. reflexivity.
Qed.

(* dataset order is kept *)
Lemma dc_app : forall grids a b, depth_coordinates grids (a ++ b) = depth_coordinates grids a ++ depth_coordinates grids b.
Proof. intros. unfold depth_coordinates. apply filter_app. Qed.

(* a variable on a grid (a bathymetry with `positive: down`) or without any marker never changes the answer *)
Lemma dc_ignores : forall grids pre v post, is_depth grids v = false ->
  depth_coordinates grids (pre ++ v :: post) = depth_coordinates grids (pre ++ post).
Proof.
  intros grids pre v post H. rewrite !dc_app. f_equal. unfold depth_coordinates. simpl. now rewrite H.
Qed.

Lemma bathymetry_not_depth : forall grids v k, grid_kind grids (dv_dims v) = Some k -> is_depth grids v = false.
Proof. intros grids v k H. unfold is_depth, on_grid. rewrite H. apply andb_false_r. Qed.

(* the `positive` attribute is read without regard to case *)
Lemma lower_upper_char : forall c, lower_char (upper_char c) = lower_char c.
Proof.
  intros c. unfold lower_char, upper_char.
  destruct ((97 <=? c) && (c <=? 122)) eqn:E1.
  - apply andb_true_iff in E1. destruct E1 as [A B]. apply Z.leb_le in A, B.
    assert (E2 : (65 <=? c - 32) && (c - 32 <=? 90) = true) by (apply andb_true_iff; split; apply Z.leb_le; lia).
    rewrite E2.
    assert (E3 : (65 <=? c) && (c <=? 90) = false) by (apply andb_false_iff; right; apply Z.leb_gt; lia).
    rewrite E3. lia.
  - reflexivity.
Qed.

Lemma lower_upper : forall s, lower (upper s) = lower s.
Proof. intros s. unfold lower, upper. rewrite map_map. apply map_ext. exact lower_upper_char. Qed.

Definition with_positive (v : dvar) (p : option str) : dvar :=
  {| dv_name := dv_name v; dv_dims := dv_dims v; dv_sizes := dv_sizes v; a_positive := p; a_axis := a_axis v;
     a_cartesian_axis := a_cartesian_axis v; a_coordinate_type := a_coordinate_type v; a_standard_name := a_standard_name v |}.

Lemma positive_any_case : forall grids v p,
  is_depth grids (with_positive v (Some (upper p))) = is_depth grids (with_positive v (Some p)).
Proof. intros grids v p. unfold is_depth, on_grid, marked. simpl. now rewrite lower_upper. Qed.

Lemma str_eqb_refl : forall s, str_eqb s s = true.
Proof. induction s as [|c s IH]; simpl; [reflexivity|]. now rewrite Z.eqb_refl, IH. Qed.

(* any of the five markers is enough, for a variable on no grid *)
Lemma any_marker : forall grids v, grid_kind grids (dv_dims v) = None ->
  (a_axis v = Some s_Z \/ a_cartesian_axis v = Some s_Z \/ a_coordinate_type v = Some s_Z \/ a_standard_name v = Some s_depth
   \/ a_positive v = Some s_up \/ a_positive v = Some s_down) -> is_depth grids v = true.
Proof.
  intros grids v Hg H. unfold is_depth, on_grid. rewrite Hg. simpl. rewrite andb_true_r. unfold marked, attr_is.
  destruct H as [H|[H|[H|[H|[H|H]]]]]; rewrite H; simpl; rewrite ?orb_true_r; reflexivity.
Qed.

(* ---- depth_coordinate ---- *)

Lemma min_by_size_spec : forall l best,
  let m := min_by_size best l in
  In m (best :: l) /\ (forall c, In c (best :: l) -> size m <= size c)
  /\ exists pre post, best :: l = pre ++ m :: post /\ forall u, In u pre -> size m < size u.
Proof.
  induction l as [|v r IH]; intros best; simpl.
  - repeat split; [now left|intros c [->|[]]; lia|]. exists [], []. split; [reflexivity|]. intros u [].
  - destruct (size v <? size best) eqn:E.
    + apply Z.ltb_lt in E. destruct (IH v) as [Hin [Hmin [pre [post [Heq Hpre]]]]]. simpl in *.
      repeat split.
      * right. exact Hin.
      * intros c [->|Hc]; [|now apply Hmin]. specialize (Hmin v (or_introl eq_refl)). lia.
      * exists (best :: pre), post. split; [simpl; now rewrite Heq|].
        intros u [->|Hu]; [|now apply Hpre]. specialize (Hmin v (or_introl eq_refl)). lia.
    + apply Z.ltb_ge in E. destruct (IH best) as [Hin [Hmin [pre [post [Heq Hpre]]]]]. simpl in *.
      repeat split.
      * destruct Hin as [Hin|Hin]; [now left|right; now right].
      * intros c [->|[->|Hc]]; [apply Hmin; now left| |apply Hmin; now right].
        specialize (Hmin best (or_introl eq_refl)). lia.
      * destruct pre as [|p pre'].
        -- simpl in Heq. injection Heq as Hb Hr. exists [], (v :: post). split; [simpl; congruence|]. intros u [].
        -- simpl in Heq. injection Heq as Hb Hr. subst p.
           exists (best :: v :: pre'), post. split; [simpl; do 2 f_equal; exact Hr|].
           assert (Hlt : size (min_by_size best r) < size best) by (apply Hpre; now left).
           intros u [Hu|[Hu|Hu]].
           ++ subst u. exact Hlt.
           ++ subst u. lia.
           ++ apply Hpre. now right.
Qed.

(* the default depth coordinate is one of the depth coordinates, none is smaller, and among equally small ones it is the
   first in dataset order *)
Lemma depth_coordinate_spec : forall grids vs c, depth_coordinate grids vs = Some c ->
  In c (depth_coordinates grids vs) /\ (forall c', In c' (depth_coordinates grids vs) -> size c <= size c')
  /\ exists pre post, depth_coordinates grids vs = pre ++ c :: post /\ forall u, In u pre -> size c < size u.
Proof.
  intros grids vs c H. unfold depth_coordinate in H. destruct (depth_coordinates grids vs) as [|b l] eqn:E; [discriminate|].
  inversion H; subst c. exact (min_by_size_spec l b).
Qed.

Lemma depth_coordinate_none : forall grids vs, depth_coordinate grids vs = None <-> forall v, In v vs -> is_depth grids v = false.
Proof.
  intros grids vs. unfold depth_coordinate. split.
  - intros H v Hv. destruct (depth_coordinates grids vs) as [|b l] eqn:E; [|discriminate].
    destruct (is_depth grids v) eqn:D; [|reflexivity]. exfalso.
    assert (In v (depth_coordinates grids vs)) by (unfold depth_coordinates; apply filter_In; now split).
    rewrite E in H0. exact H0.
  - intros H. destruct (depth_coordinates grids vs) as [|b l] eqn:E; [reflexivity|]. exfalso.
    assert (Hb : In b (depth_coordinates grids vs)) by (rewrite E; now left).
    unfold depth_coordinates in Hb. apply filter_In in Hb. destruct Hb as [Hin Hd]. rewrite (H b Hin) in Hd. discriminate.
Qed.

(* ---- get_depth_coordinate_for_data_array ---- *)

Lemma for_array_found : forall grids vs dims c, for_array grids vs dims = Found c ->
  In c (depth_coordinates grids vs) /\ (forall x, In x (dv_dims c) -> In x dims)
  /\ forall c', In c' (depth_coordinates grids vs) -> (forall x, In x (dv_dims c') -> In x dims) -> c' = c.
Proof.
  intros grids vs dims c H. unfold for_array in H.
  destruct (filter (fun c0 => subset (dv_dims c0) dims) (depth_coordinates grids vs)) as [|a [|b l]] eqn:E; try discriminate.
  inversion H; subst a.
  assert (Hc : In c (filter (fun c0 => subset (dv_dims c0) dims) (depth_coordinates grids vs))) by (rewrite E; now left).
  apply filter_In in Hc. destruct Hc as [Hin Hs]. repeat split; [exact Hin|now apply subset_spec|].
  intros c' Hin' Hs'.
  assert (Hc' : In c' (filter (fun c0 => subset (dv_dims c0) dims) (depth_coordinates grids vs))).
  { apply filter_In. split; [exact Hin'|now apply subset_spec]. }
  rewrite E in Hc'. destruct Hc' as [->|[]]. reflexivity.
Qed.

Lemma for_array_none : forall grids vs dims, for_array grids vs dims = NoCoordinate <->
  forall c, In c (depth_coordinates grids vs) -> exists x, In x (dv_dims c) /\ ~ In x dims.
Proof.
  intros grids vs dims. unfold for_array.
  destruct (filter (fun c0 => subset (dv_dims c0) dims) (depth_coordinates grids vs)) as [|a [|b l]] eqn:E.
  - split; [|reflexivity]. intros _ c Hc.
    destruct (subset (dv_dims c) dims) eqn:S.
    + exfalso. assert (In c []) by (rewrite <- E; apply filter_In; now split). exact H.
    + unfold subset in S. clear -S. induction (dv_dims c) as [|d l IH]; simpl in S; [discriminate|].
      apply andb_false_iff in S. destruct S as [S|S].
      * exists d. split; [now left|]. intro Hin. apply memz_spec in Hin. congruence.
      * destruct (IH S) as [x [Hx Hn]]. exists x. split; [now right|exact Hn].
  - split; [discriminate|]. intros H. exfalso.
    assert (Ha : In a (filter (fun c0 => subset (dv_dims c0) dims) (depth_coordinates grids vs))) by (rewrite E; now left).
    apply filter_In in Ha. destruct Ha as [Hin Hs]. destruct (H a Hin) as [x [Hx Hn]]. apply Hn.
    rewrite subset_spec in Hs. now apply Hs.
  - split; [discriminate|]. intros H. exfalso.
    assert (Ha : In a (filter (fun c0 => subset (dv_dims c0) dims) (depth_coordinates grids vs))) by (rewrite E; now left).
    apply filter_In in Ha. destruct Ha as [Hin Hs]. destruct (H a Hin) as [x [Hx Hn]]. apply Hn.
    rewrite subset_spec in Hs. now apply Hs.
Qed.

(* two depth coordinates that fit the same array are never silently resolved *)
Lemma for_array_two_refused : forall grids vs dims c1 c2 pre mid post,
  depth_coordinates grids vs = pre ++ c1 :: mid ++ c2 :: post ->
  (forall x, In x (dv_dims c1) -> In x dims) -> (forall x, In x (dv_dims c2) -> In x dims) ->
  for_array grids vs dims = Ambiguous.
Proof.
  intros grids vs dims c1 c2 pre mid post E H1 H2. unfold for_array. rewrite E.
  rewrite filter_app. simpl. apply subset_spec in H1, H2. rewrite H1. rewrite filter_app. simpl. rewrite H2.
  destruct (filter _ pre) as [|a [|b l]]; simpl.
  - destruct (filter _ mid); reflexivity.
  - reflexivity.
  - reflexivity.
Qed.

(* ---- SHOC: fixed names ---- *)

Lemma shoc_spec : forall fixed vs n, In n (shoc_depth_coordinates fixed vs) <-> In n fixed /\ exists v, In v vs /\ dv_name v = n.
Proof.
  intros fixed vs n. unfold shoc_depth_coordinates. rewrite filter_In, memz_spec, in_map_iff. split.
  - intros [Hf [v [Hn Hv]]]. split; [exact Hf|]. exists v. now split.
  - intros [Hf [v [Hv Hn]]]. split; [exact Hf|]. exists v. now split.
Qed.

(* the order is that of the fixed list: the order of the variables in the dataset plays no part *)
Lemma shoc_order_free : forall fixed vs vs', Permutation vs vs' ->
  shoc_depth_coordinates fixed vs = shoc_depth_coordinates fixed vs' /\ shoc_depth_coordinate fixed vs = shoc_depth_coordinate fixed vs'.
Proof.
  intros fixed vs vs' P.
  assert (M : forall n, memz n (map dv_name vs) = memz n (map dv_name vs')).
  { intros n. destruct (memz n (map dv_name vs)) eqn:E1, (memz n (map dv_name vs')) eqn:E2; try reflexivity.
    - apply memz_spec in E1. assert (memz n (map dv_name vs') = true).
      { apply memz_spec. eapply Permutation_in; [apply Permutation_map, P|exact E1]. } congruence.
    - apply memz_spec in E2. assert (memz n (map dv_name vs) = true).
      { apply memz_spec. eapply Permutation_in; [apply Permutation_map, Permutation_sym, P|exact E2]. } congruence. }
  split.
  - unfold shoc_depth_coordinates. apply filter_ext. exact M.
  - unfold shoc_depth_coordinate. destruct fixed as [|n r]; [reflexivity|]. now rewrite M.
Qed.

(* non-vacuity: a dataset with a layer coordinate, its interface coordinate, a bathymetry labelled positive: down, and a
   sediment coordinate *)
Definition ex_grids : list (Z * list Z) := [(0, [10; 11])].
Definition ex_vs : list dvar :=
  [ {| dv_name := 1; dv_dims := [10; 11]; dv_sizes := [3; 4]; a_positive := Some s_down; a_axis := None;
       a_cartesian_axis := None; a_coordinate_type := None; a_standard_name := Some s_depth |};
    {| dv_name := 2; dv_dims := [20]; dv_sizes := [6]; a_positive := Some [85; 112]; a_axis := None;
       a_cartesian_axis := None; a_coordinate_type := None; a_standard_name := None |};
    {| dv_name := 3; dv_dims := [21]; dv_sizes := [5]; a_positive := None; a_axis := Some s_Z;
       a_cartesian_axis := None; a_coordinate_type := None; a_standard_name := None |};
    {| dv_name := 4; dv_dims := [22]; dv_sizes := [5]; a_positive := None; a_axis := None;
       a_cartesian_axis := None; a_coordinate_type := None; a_standard_name := Some s_depth |} ].

Example ex_observe : observe ex_grids ex_vs [[30; 20; 10; 11]; [10; 11]; [20; 21]] =
  ([2; 3; 4], Some 3, [(0, 2); (1, -1); (2, -1)], [Some 0; None; None; None]).
Proof. vm_compute. reflexivity. Qed.
