From Coq Require Import ZArith List Lia Bool.
From EV Require Import Model.CacheKey.
Import ListNotations.
Open Scope Z_scope.

Lemma i32_length v : length (i32 v) = 4%nat.
Proof. reflexivity. Qed.

(* the four bytes determine the value *)
Lemma i32_inj a b : in_i32 a -> in_i32 b -> i32 a = i32 b -> a = b.
Proof.
  unfold in_i32, i32. intros Ha Hb H.
  set (u := a mod 4294967296) in *. set (w := b mod 4294967296) in *.
  injection H as H0 H1 H2 H3.
  assert (Hu : 0 <= u < 4294967296) by (apply Z.mod_pos_bound; lia).
  assert (Hw : 0 <= w < 4294967296) by (apply Z.mod_pos_bound; lia).
  assert (E : u = w).
  { rewrite (Z.div_mod u 256), (Z.div_mod w 256) by lia. rewrite H0. f_equal. f_equal.
    rewrite (Z.div_mod (u / 256) 256), (Z.div_mod (w / 256) 256) by lia. rewrite H1. f_equal. f_equal.
    rewrite !Z.div_div by lia. change (256 * 256) with 65536.
    rewrite (Z.div_mod (u / 65536) 256), (Z.div_mod (w / 65536) 256) by lia. rewrite H2. f_equal. f_equal.
    rewrite !Z.div_div by lia. change (65536 * 256) with 16777216.
    assert (0 <= u / 16777216 < 256) by (split; [apply Z.div_pos; lia | apply Z.div_lt_upper_bound; lia]).
    assert (0 <= w / 16777216 < 256) by (split; [apply Z.div_pos; lia | apply Z.div_lt_upper_bound; lia]).
    rewrite (Z.mod_small (u / 16777216) 256), (Z.mod_small (w / 16777216) 256) in H3 by lia. exact H3. }
  unfold u, w in E.
  (* a and b are congruent modulo 2^32 and both lie in a window of that width *)
  pose proof (Z.div_mod a 4294967296 ltac:(lia)) as Da. pose proof (Z.div_mod b 4294967296 ltac:(lia)) as Db.
  rewrite E in Da.
  assert (a - b = 4294967296 * (a / 4294967296 - b / 4294967296)) by lia.
  assert (-4294967296 < a - b < 4294967296) by lia.
  assert (a / 4294967296 - b / 4294967296 = 0) by nia. lia.
Qed.

Lemma i32_len_eq a b : length (i32 a) = length (i32 b).
Proof. reflexivity. Qed.

Lemma app_eq_len {A} (a1 a2 r1 r2 : list A) : length a1 = length a2 -> a1 ++ r1 = a2 ++ r2 -> a1 = a2 /\ r1 = r2.
Proof.
  revert a2. induction a1 as [|x a1 IH]; intros [|y a2] L H; try discriminate; [auto|].
  cbn in *. injection H as -> H. injection L as L. destruct (IH a2 L H) as [-> ->]. auto.
Qed.

Definition short (s : list Z) : Prop := Z.of_nat (length s) <= 2147483647.

(* hash_string is a prefix code: no string's encoding is a prefix of another's, whatever follows *)
Theorem enc_str_prefix_free s1 s2 r1 r2 : short s1 -> short s2 ->
  enc_str s1 ++ r1 = enc_str s2 ++ r2 -> s1 = s2 /\ r1 = r2.
Proof.
  unfold enc_str, short. intros S1 S2 H. rewrite <- !app_assoc in H.
  destruct (app_eq_len _ _ _ _ (i32_len_eq _ _) H) as [L H'].
  apply i32_inj in L; [|unfold in_i32; lia|unfold in_i32; lia].
  apply Nat2Z.inj in L. exact (app_eq_len _ _ _ _ L H').
Qed.

Lemma flat_i32_length s : length (flat_map i32 s) = (4 * length s)%nat.
Proof. induction s as [|x r IH]; [reflexivity|]. cbn [flat_map]. rewrite app_length, IH, i32_length. cbn [length]. lia. Qed.

Lemma flat_i32_inj s1 s2 : Forall in_i32 s1 -> Forall in_i32 s2 -> flat_map i32 s1 = flat_map i32 s2 -> s1 = s2.
Proof.
  revert s2. induction s1 as [|x r IH]; intros [|y r2] F1 F2 H; try reflexivity.
  - cbn in H. discriminate.
  - cbn in H. discriminate.
  - cbn [flat_map] in H. inversion F1; inversion F2; subst.
    destruct (app_eq_len _ _ _ _ (i32_len_eq x y) H) as [E H'].
    f_equal; [now apply i32_inj | now apply IH].
Qed.

(* well-formed variable: every length fits an int32, and the data holds size x itemsize bytes, where the item size
   is a function of the dtype name *)
Section Var.
  Variable itemsize : list Z -> Z.

  Definition wf (v : gvar) : Prop :=
    short (name v) /\ short (dtype v) /\ Forall in_i32 (shape v) /\ in_i32 (prod (shape v)) /\
    Z.of_nat (length (data v)) = prod (shape v) * itemsize (dtype v) /\
    in_i32 (n_attrs v) /\ short (attr_bytes v).

  (* two variables of the same rank with the same encoding (whatever follows) are the same variable *)
  Theorem enc_var_injective v1 v2 r1 r2 : wf v1 -> wf v2 -> length (shape v1) = length (shape v2) ->
    enc_var v1 ++ r1 = enc_var v2 ++ r2 -> v1 = v2 /\ r1 = r2.
  Proof.
    intros (N1 & D1 & S1 & P1 & L1 & A1 & B1) (N2 & D2 & S2 & P2 & L2 & A2 & B2) R H.
    unfold enc_var in H. rewrite <- !app_assoc in H.
    apply enc_str_prefix_free in H as [En H]; auto.
    apply enc_str_prefix_free in H as [Ed H]; auto.
    destruct (app_eq_len _ _ _ _ (i32_len_eq _ _) H) as [Ep H1].
    apply i32_inj in Ep; auto.
    assert (LS : length (flat_map i32 (shape v1)) = length (flat_map i32 (shape v2))) by (rewrite !flat_i32_length; lia).
    destruct (app_eq_len _ _ _ _ LS H1) as [Es H2]. apply flat_i32_inj in Es; auto.
    assert (LD : length (data v1) = length (data v2)) by (apply Nat2Z.inj; rewrite L1, L2, Ep, Ed; reflexivity).
    destruct (app_eq_len _ _ _ _ LD H2) as [Edata H3].
    destruct (app_eq_len _ _ _ _ (i32_len_eq 4 4) H3) as [_ H4].
    destruct (app_eq_len _ _ _ _ (i32_len_eq _ _) H4) as [Ea H5].
    apply i32_inj in Ea; auto.
    destruct (app_eq_len _ _ _ _ (i32_len_eq _ _) H5) as [El H6].
    apply i32_inj in El; [|unfold in_i32; unfold short in *; lia|unfold in_i32; unfold short in *; lia].
    apply Nat2Z.inj in El. destruct (app_eq_len _ _ _ _ El H6) as [Eb Er].
    split; [|exact Er]. destruct v1, v2; cbn in *; subst; reflexivity.
  Qed.

  (* an inventory of variables of pairwise equal rank, followed by the convention strings: the stream determines
     every variable and the convention *)
  Theorem stream_injective : forall vars1 vars2 m1 c1 e1 m2 c2 e2,
    Forall wf vars1 -> Forall wf vars2 -> map (fun v => length (shape v)) vars1 = map (fun v => length (shape v)) vars2 ->
    short m1 -> short c1 -> short e1 -> short m2 -> short c2 -> short e2 ->
    stream vars1 m1 c1 e1 = stream vars2 m2 c2 e2 -> vars1 = vars2 /\ m1 = m2 /\ c1 = c2 /\ e1 = e2.
  Proof.
    induction vars1 as [|v r IH]; intros [|v2 r2] m1 c1 e1 m2 c2 e2 F1 F2 R Sm1 Sc1 Se1 Sm2 Sc2 Se2 H; try discriminate.
    - unfold stream in H. cbn [flat_map app] in H.
      apply enc_str_prefix_free in H as [-> H]; auto. apply enc_str_prefix_free in H as [-> H]; auto.
      rewrite <- (app_nil_r (enc_str e1)), <- (app_nil_r (enc_str e2)) in H.
      apply enc_str_prefix_free in H as [-> _]; auto.
    - unfold stream in H. cbn [flat_map] in H. rewrite <- !app_assoc in H. cbn [map] in R. injection R as R0 R.
      inversion F1; inversion F2; subst.
      apply enc_var_injective in H as [-> H]; auto.
      destruct (IH r2 m1 c1 e1 m2 c2 e2) as (-> & -> & -> & ->); auto.
  Qed.
End Var.

(* the single edits the property lists, as corollaries: each gives a different stream *)
Corollary edit_changes_stream itemsize v v' rest m c e :
  wf itemsize v -> wf itemsize v' -> Forall (wf itemsize) rest -> length (shape v) = length (shape v') ->
  short m -> short c -> short e -> v <> v' ->
  stream (v :: rest) m c e <> stream (v' :: rest) m c e.
Proof.
  intros W W' F R Sm Sc Se N H.
  apply (stream_injective itemsize) in H as [E _]; auto.
  - injection E as E. contradiction.
  - cbn [map]. now rewrite R.
Qed.

Corollary convention_changes_stream itemsize vars m c e m' c' e' :
  Forall (wf itemsize) vars -> short m -> short c -> short e -> short m' -> short c' -> short e' ->
  (m, c, e) <> (m', c', e') -> stream vars m c e <> stream vars m' c' e'.
Proof.
  intros F Sm Sc Se Sm' Sc' Se' N H.
  apply (stream_injective itemsize) in H as (_ & -> & -> & ->); auto.
Qed.

(* a reshape with the same bytes between different ranks: the rank is not length-prefixed, the general statement is
   not proved (see DESIGN.md); the common case - one shape is the other with a leading 1 - is distinguished *)
Example ex_i32 : i32 (-2) = [254; 255; 255; 255] /\ i32 258 = [2; 1; 0; 0].
Proof. vm_compute. auto. Qed.
