(* C10: the derived tables, as derived, satisfy the relation the checker decides. *)
From Coq Require Import ZArith List Lia Bool Sorted.
From EV Require Import Base.Index Base.ListX Model.Topology Proofs.TopologyP Proofs.MaskP.
Import ListNotations.
Open Scope Z_scope.

Lemma nth_error_zrange lo n k : (k < Z.to_nat n)%nat -> nth_error (zrange lo n) k = Some (lo + Z.of_nat k).
Proof.
  intros H. unfold zrange. rewrite nth_error_map. rewrite (nth_error_nth' (seq 0 (Z.to_nat n)) O) by (rewrite seq_length; lia).
  rewrite seq_nth by lia. reflexivity.
Qed.

Lemma in_enum_map_zrange {B} (f : Z -> B) ne e x : In (e, x) (enum 0 (map f (zrange 0 ne))) -> x = f e /\ 0 <= e < ne.
Proof.
  intros H. apply in_enum in H as [H0 Hn]. rewrite Z.sub_0_r in Hn. rewrite nth_error_map in Hn.
  destruct (nth_error (zrange 0 ne) (Z.to_nat e)) as [z|] eqn:E; [|discriminate]. injection Hn as <-.
  assert (L : (Z.to_nat e < Z.to_nat ne)%nat).
  { assert (Hs : nth_error (zrange 0 ne) (Z.to_nat e) <> None) by congruence.
    apply nth_error_Some in Hs. now rewrite zrange_length in Hs. }
  rewrite nth_error_zrange in E by exact L. injection E as <-. split; [f_equal; lia | lia].
Qed.

Lemma sorted_pair_distinct a b l : StronglySorted Z.lt l -> l = [a; b] -> a <> b.
Proof. intros S ->. inversion S as [|? ? _ F]; subst. inversion F; subst. lia. Qed.

(* make_edge_face_array: an edge lists exactly the faces whose face_edge row contains it, in face order *)
Theorem mk_ef_ok fe ne : 0 <= ne -> edge_faces_ok fe (mk_ef fe ne) ne = true.
Proof.
  intros Hne. unfold edge_faces_ok, mk_ef. apply andb_true_iff. split.
  - rewrite map_length, zrange_length. apply Z.eqb_eq. lia.
  - apply forallb_forall. intros [e faces] Hin. apply in_enum_map_zrange in Hin as [-> He]. cbn [fst snd].
    apply andb_true_iff. split; [apply andb_true_iff; split|].
    + apply forallb_forall. intros f Hf. apply in_positions_where in Hf as (H0 & x & Hx & Hm).
      rewrite Z.sub_0_r in Hx. unfold row. now rewrite (nth_error_nth _ _ _ Hx).
    + apply forallb_forall. intros [f es] Hf. cbn [fst snd]. destruct (memz e es) eqn:M; [|reflexivity].
      apply memz_In. apply in_enum in Hf as [H0 Hx]. apply in_positions_where. split; [exact H0|]. exists es. auto.
    + apply negb_true_iff. destruct (positions_where (fun r => memz e r) 0 fe) as [|a [|b [|c t]]] eqn:P; try reflexivity.
      apply Z.eqb_neq. eapply sorted_pair_distinct; [|exact P]. apply positions_where_sorted.
Qed.

Lemma nth_error_enum_some {A} (l : list A) : forall lo k x, nth_error l k = Some x ->
  nth_error (enum lo l) k = Some (lo + Z.of_nat k, x).
Proof.
  induction l as [|a l IH]; intros lo k x H; [destruct k; discriminate|]. rewrite enum_cons. destruct k as [|k].
  - cbn in *. injection H as ->. do 2 f_equal. lia.
  - cbn [nth_error] in *. rewrite (IH (lo + 1) k x H). do 2 f_equal. lia.
Qed.

(* face adjacency derived from face_edge: f ~ g iff they share an edge *)
Theorem mk_ff_ok fe : face_faces_ok fe (mk_ff fe) = true.
Proof.
  unfold face_faces_ok, mk_ff. apply andb_true_iff. split.
  - rewrite map_length. unfold enum. rewrite combine_length, zrange_length. apply Nat.eqb_eq. lia.
  - apply forallb_forall. intros [f nb] Hin. cbn [fst snd].
    apply in_enum in Hin as [H0 Hn]. rewrite Z.sub_0_r in Hn. rewrite nth_error_map in Hn.
    destruct (nth_error (enum 0 fe) (Z.to_nat f)) as [[f' es]|] eqn:E; [|discriminate]. injection Hn as <-. cbn [fst].
    apply nth_error_enum_gen in E as [Ef _]. cbn [fst] in Ef. assert (Hf' : f' = f) by lia. clear Ef. subst f'.
    apply andb_true_iff. split.
    + apply forallb_forall. intros g Hg. apply in_positions_where in Hg as (Hg0 & [g' es'] & Hx & Hs).
      rewrite Z.sub_0_r in Hx. apply nth_error_enum_gen in Hx as [Eg _]. cbn [fst] in *.
      assert (Hg' : g' = g) by lia. clear Eg. now subst g'.
    + apply forallb_forall. intros [g es'] Hg. cbn [fst snd]. destruct (shares_edge fe f g) eqn:S; [|reflexivity].
      apply memz_In. apply in_enum in Hg as [Hg0 Hx]. rewrite Z.sub_0_r in Hx.
      apply in_positions_where. split; [exact Hg0|]. exists (g, es'). rewrite Z.sub_0_r. split; [|exact S].
      rewrite (nth_error_enum_some fe 0 _ _ Hx). do 2 f_equal. lia.
Qed.

Lemma last_cons' {A} (b : A) r a : last (b :: r) a = last r b.
Proof.
  revert a b. induction r as [|x r IH]; intros a b; [reflexivity|].
  change (last (b :: x :: r) a) with (last (x :: r) a). rewrite (IH a x), (IH b x). reflexivity.
Qed.

Lemma last_In {A} (r : list A) : forall e0, In (last r e0) (e0 :: r).
Proof.
  induction r as [|x r IH]; intros e0; [now left|]. rewrite last_cons'. right. apply IH.
Qed.

(* make_face_edge_array: when the edge list covers every side of every face, the k-th edge of a face is an edge on
   its k-th consecutive node pair (the last matching row, as the dict construction keeps it) *)
Theorem mk_fe_ok fn en :
  (forall f q, In f fn -> In q (node_pairs f) ->
     exists e a b, nth_error en e = Some [a; b] /\ same_pair q (a, b) = true) ->
  face_edges_ok fn en (mk_fe_impl fn en) = true.
Proof.
  intros Hcov. unfold face_edges_ok, mk_fe_impl. apply andb_true_iff. split; [rewrite map_length; apply Nat.eqb_refl|].
  apply forallb_forall. intros [f es] Hin. cbn [fst snd].
  assert (Hes : es = map (find_edge_last en) (node_pairs f) /\ In f fn).
  { clear Hcov. revert Hin. induction fn as [|g fn IH]; [intros []|]. cbn [map combine]. intros [[= <- <-]|Hin2].
    - split; [reflexivity|now left].
    - destruct (IH Hin2) as [E I]. split; [exact E|now right]. }
  destruct Hes as [-> Hf]. apply andb_true_iff. split; [rewrite map_length; apply Nat.eqb_refl|].
  apply forallb_forall. intros [p e] Hpe. cbn [fst snd].
  assert (Hp : In p (node_pairs f) /\ e = find_edge_last en p).
  { revert Hpe. generalize (node_pairs f) as ps. induction ps as [|q ps IH]; [intros []|]. cbn [map combine].
    intros [[= <- <-]|Hin3]; [split; [now left|reflexivity]|]. destruct (IH Hin3). split; [now right|assumption]. }
  destruct Hp as [Hp ->]. destruct (Hcov f p Hf Hp) as (k & a & b & Hk & Hs).
  unfold find_edge_last.
  set (pred := fun r : list Z => match r with [a0; b0] => same_pair p (a0, b0) | _ => false end).
  assert (Hne : In (Z.of_nat k) (positions_where pred 0 en)).
  { apply in_positions_where. split; [lia|]. exists [a; b]. rewrite Z.sub_0_r, Nat2Z.id. split; [exact Hk|exact Hs]. }
  destruct (positions_where pred 0 en) as [|e0 r] eqn:P; [destruct Hne|].
  pose proof (last_In r e0) as Hl.
  rewrite <- P in Hl. apply in_positions_where in Hl as (Hl0 & x & Hx & Hpx). rewrite Z.sub_0_r in Hx.
  unfold edge_pair, row. rewrite (nth_error_nth _ _ _ Hx). unfold pred in Hpx.
  destruct x as [|a0 [|b0 [|c0 t]]]; try discriminate. exact Hpx.
Qed.
