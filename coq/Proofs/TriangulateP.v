From Coq Require Import ZArith QArith List Bool Lia Qring.
From EV Require Import Base.Geom Model.Triangulate.
Import ListNotations.
Open Scope Q_scope.

(* ================= counts ================= *)
Lemma fan_from_length v0 : forall rest, length (fan_from v0 rest) = (length rest - 1)%nat.
Proof.
  induction rest as [|a t IH]; [reflexivity|]. destruct t as [|b t']; [reflexivity|].
  change (fan_from v0 (a :: b :: t')) with ((v0, a, b) :: fan_from v0 (b :: t')).
  cbn [length] in *. rewrite IH. lia.
Qed.

(* n - 2 triangles for an n-sided convex cell *)
Theorem fan_length r : length (fan r) = (length r - 2)%nat.
Proof. destruct r as [|v0 rest]; [reflexivity|]. cbn [fan length]. rewrite fan_from_length. lia. Qed.

(* an ear removes exactly one vertex: the middle one of three consecutive vertices, never the first vertex of the ring *)
Lemma find_ear_shape whole : forall rest pre t r', find_ear whole pre rest = Some (t, r') ->
  exists xs a b c ys, rev pre ++ rest = xs ++ a :: b :: c :: ys /\ t = (a, b, c) /\ r' = xs ++ a :: c :: ys.
Proof.
  induction rest as [|a t1 IH]; intros pre t r' H; [discriminate|].
  destruct t1 as [|b t2]; [discriminate|]. destruct t2 as [|c tail]; [discriminate|].
  cbn [find_ear] in H. destruct (diag_ok whole a c).
  - injection H as <- <-. exists (rev pre), a, b, c, tail. auto.
  - destruct (IH (a :: pre) t r' H) as (xs & a' & b' & c' & ys & E & Et & Er).
    exists xs, a', b', c', ys. split; [|auto]. cbn [rev] in E. rewrite <- app_assoc in E. exact E.
Qed.

Lemma clip_length : forall fuel r ts, clip fuel r = Some ts -> (3 <= length r)%nat -> length ts = (length r - 2)%nat.
Proof.
  induction fuel as [|k IH]; intros r ts H L.
  - destruct r as [|a [|b [|c [|d r4]]]]; cbn in H; try discriminate. injection H as <-. reflexivity.
  - destruct r as [|a [|b [|c [|d r4]]]]; try (cbn in L; lia).
    + cbn in H. injection H as <-. reflexivity.
    + cbn [clip] in H. destruct (find_ear (a :: b :: c :: d :: r4) [] (a :: b :: c :: d :: r4)) as [[t r']|] eqn:F; [|discriminate].
      destruct (clip k r') as [ts'|] eqn:C; [|discriminate]. injection H as <-.
      destruct (find_ear_shape _ _ _ _ _ F) as (xs & a' & b' & c' & ys & E & _ & Er). cbn [rev app] in E.
      assert (Lr : length r' = (length (a :: b :: c :: d :: r4) - 1)%nat).
      { rewrite E, Er, !app_length. cbn [length]. lia. }
      cbn [length]. rewrite (IH r' ts' C); cbn [length] in *; lia.
Qed.

(* n - 2 triangles whichever way the cell is triangulated *)
Theorem triangle_count r ts : (3 <= length r)%nat -> triangulate_ring r = Some ts -> length ts = (length r - 2)%nat.
Proof.
  intros L. unfold triangulate_ring. destruct (strictly_convex r).
  - intros [= <-]. apply fan_length.
  - intros H. now apply (clip_length _ _ _ H).
Qed.

(* ================= signed area is conserved ================= *)
Definition c2 (p q : pt) : Q := px p * py q - px q * py p.
Fixpoint psum (l : list pt) : Q :=
  match l with
  | p :: ((q :: _) as t) => c2 p q + psum t
  | _ => 0
  end.

Lemma shoelace_psum r : shoelace r = match r with [] => 0 | v :: _ => psum (r ++ [v]) end.
Proof. destruct r; reflexivity. Qed.

Lemma psum_app l1 : forall x l2, psum (l1 ++ x :: l2) == psum (l1 ++ [x]) + psum (x :: l2).
Proof.
  induction l1 as [|p l1 IH]; intros x l2.
  - cbn [app psum]. ring.
  - destruct l1 as [|q l1'].
    + cbn [app]. cbn [psum]. ring.
    + cbn [app] in *. cbn [psum]. rewrite (IH x l2). cbn [psum app]. ring.
Qed.

Lemma c2_antisym p q : c2 q p == - c2 p q.
Proof. unfold c2. ring. Qed.

Lemma tri_area2_c2 a b c : tri_area2 (a, b, c) == c2 a b + c2 b c - c2 a c.
Proof. unfold tri_area2, tri_ring, shoelace. cbn [app]. fold (c2 a b) (c2 b c) (c2 c a). rewrite (c2_antisym a c). ring. Qed.

(* removing the middle vertex b of three consecutive vertices a b c takes the triangle a b c off the signed area *)
Lemma psum_ear xs a b c ys : psum (xs ++ a :: b :: c :: ys) == tri_area2 (a, b, c) + psum (xs ++ a :: c :: ys).
Proof.
  rewrite (psum_app xs a (b :: c :: ys)), (psum_app xs a (c :: ys)), tri_area2_c2. cbn [psum].
  destruct ys; cbn [psum]; ring.
Qed.

Lemma shoelace_ear xs a b c ys :
  shoelace (xs ++ a :: b :: c :: ys) == tri_area2 (a, b, c) + shoelace (xs ++ a :: c :: ys).
Proof.
  rewrite !shoelace_psum. destruct xs as [|x xs'].
  - cbn [app]. apply (psum_ear [] a b c (ys ++ [a])).
  - cbn [app]. rewrite <- !app_assoc. cbn [app]. rewrite !app_comm_cons.
    change (x :: xs' ++ a :: b :: c :: ys ++ [x]) with ((x :: xs') ++ a :: b :: c :: (ys ++ [x])).
    change (x :: xs' ++ a :: c :: ys ++ [x]) with ((x :: xs') ++ a :: c :: (ys ++ [x])).
    apply psum_ear.
Qed.

Definition total_area2 (ts : list tri) : Q := fold_right (fun t acc => tri_area2 t + acc) 0 ts.

Lemma fan_from_area v0 : forall rest, total_area2 (fan_from v0 rest) == shoelace (v0 :: rest).
Proof.
  induction rest as [|a t IH].
  - cbn. unfold c2. ring.
  - destruct t as [|b t'].
    + cbn. ring.
    + cbn [fan_from total_area2 fold_right]. fold (total_area2 (fan_from v0 (b :: t'))). rewrite IH.
      symmetry. apply (shoelace_ear [] v0 a b t').
Qed.

(* the fan's triangles add up to the cell's signed area *)
Theorem fan_area r : total_area2 (fan r) == shoelace r.
Proof. destruct r as [|v0 rest]; [reflexivity|]. apply fan_from_area. Qed.

(* so do the triangles of any ear-clipping run *)
Theorem clip_area : forall fuel r ts, clip fuel r = Some ts -> total_area2 ts == shoelace r.
Proof.
  induction fuel as [|k IH]; intros r ts H.
  - destruct r as [|a [|b [|c [|d r4]]]]; cbn in H; try discriminate. injection H as <-.
    cbn [total_area2 fold_right]. unfold tri_area2, tri_ring. ring.
  - destruct r as [|a [|b [|c [|d r4]]]]; try (cbn in H; discriminate).
    + cbn in H. injection H as <-. cbn [total_area2 fold_right]. unfold tri_area2, tri_ring. ring.
    + cbn [clip] in H. destruct (find_ear (a :: b :: c :: d :: r4) [] (a :: b :: c :: d :: r4)) as [[t r']|] eqn:F; [|discriminate].
      destruct (clip k r') as [ts'|] eqn:C; [|discriminate]. injection H as <-.
      destruct (find_ear_shape _ _ _ _ _ F) as (xs & a' & b' & c' & ys & E & -> & ->). cbn [rev app] in E.
      cbn [total_area2 fold_right]. fold (total_area2 ts'). rewrite (IH _ _ C), E. symmetry. apply shoelace_ear.
Qed.

Theorem triangulation_area r ts : triangulate_ring r = Some ts -> total_area2 ts == shoelace r.
Proof.
  unfold triangulate_ring. destruct (strictly_convex r).
  - intros [= <-]. apply fan_area.
  - apply clip_area.
Qed.

(* ================= every triangle corner is a vertex of the cell ================= *)
Definition corners_in (r : ring) (t : tri) : Prop := let '(a, b, c) := t in In a r /\ In b r /\ In c r.

Lemma fan_from_corners v0 r : forall rest, In v0 r -> incl rest r -> Forall (corners_in r) (fan_from v0 rest).
Proof.
  induction rest as [|a t IH]; intros H0 Hi; [constructor|]. destruct t as [|b t']; [constructor|].
  cbn [fan_from]. constructor.
  - cbn. repeat split; auto; apply Hi; cbn; auto.
  - apply IH; auto. intros x Hx. apply Hi. now right.
Qed.

Theorem fan_corners r : Forall (corners_in r) (fan r).
Proof.
  destruct r as [|v0 rest]; [constructor|]. apply fan_from_corners; [now left|]. intros x Hx. now right.
Qed.

Lemma clip_corners : forall fuel r0 r ts, incl r r0 -> clip fuel r = Some ts -> Forall (corners_in r0) ts.
Proof.
  induction fuel as [|k IH]; intros r0 r ts Hi H.
  - destruct r as [|a [|b [|c [|d r4]]]]; cbn in H; try discriminate. injection H as <-.
    constructor; [|constructor]. cbn. repeat split; apply Hi; cbn; auto.
  - destruct r as [|a [|b [|c [|d r4]]]]; try (cbn in H; discriminate).
    + cbn in H. injection H as <-. constructor; [|constructor]. cbn. repeat split; apply Hi; cbn; auto.
    + cbn [clip] in H. destruct (find_ear (a :: b :: c :: d :: r4) [] (a :: b :: c :: d :: r4)) as [[t r']|] eqn:F; [|discriminate].
      destruct (clip k r') as [ts'|] eqn:C; [|discriminate]. injection H as <-.
      destruct (find_ear_shape _ _ _ _ _ F) as (xs & a' & b' & c' & ys & E & -> & ->). cbn [rev app] in E.
      constructor.
      * cbn. repeat split; apply Hi; rewrite E; apply in_or_app; right; cbn; auto.
      * apply (IH r0 (xs ++ a' :: c' :: ys)); [|exact C]. intros x Hx. apply Hi. rewrite E.
        apply in_app_or in Hx as [Hx|Hx]; apply in_or_app; [left; exact Hx|right].
        destruct Hx as [<-|Hx]; [now left|right; now right].
Qed.

Theorem triangulation_corners r ts : triangulate_ring r = Some ts -> Forall (corners_in r) ts.
Proof.
  unfold triangulate_ring. destruct (strictly_convex r).
  - intros [= <-]. apply fan_corners.
  - apply clip_corners. intros x Hx; exact Hx.
Qed.

(* ================= the vertex table ================= *)
Lemma pt_leib_eqb_eq a b : pt_leib_eqb a b = true <-> a = b.
Proof.
  destruct a as [[n1 d1] [n2 d2]], b as [[m1 e1] [m2 e2]]. unfold pt_leib_eqb. cbn.
  rewrite !andb_true_iff, !Z.eqb_eq, !Pos.eqb_eq. split.
  - intros [[[-> ->] ->] ->]. reflexivity.
  - intros [= -> -> -> ->]. auto.
Qed.

Lemma existsb_leib p l : existsb (pt_leib_eqb p) l = true <-> In p l.
Proof.
  rewrite existsb_exists. split.
  - intros (q & Hq & E). apply pt_leib_eqb_eq in E. now subst.
  - intros H. exists p. split; [exact H|]. now apply pt_leib_eqb_eq.
Qed.

Lemma dedupe_pts_spec : forall l seen, NoDup seen ->
  NoDup (dedupe_pts seen l) /\ forall p, In p (dedupe_pts seen l) <-> In p seen \/ In p l.
Proof.
  induction l as [|x l IH]; intros seen ND; cbn [dedupe_pts].
  - split; [now apply NoDup_rev|]. intros p. rewrite <- in_rev. cbn. tauto.
  - destruct (existsb (pt_leib_eqb x) seen) eqn:E.
    + apply existsb_leib in E. destruct (IH seen ND) as [N1 N2]. split; [exact N1|].
      intros p. rewrite N2. cbn. split; [tauto|]. intros [H|[<-|H]]; auto.
    + assert (~ In x seen) by (intros Hin; apply existsb_leib in Hin; congruence).
      destruct (IH (x :: seen) ltac:(constructor; auto)) as [N1 N2]. split; [exact N1|].
      intros p. rewrite N2. cbn. tauto.
Qed.

(* the vertex list has no duplicates and holds exactly the coordinates of the cells *)
Theorem vertex_table_nodup cells : NoDup (vertex_table cells).
Proof. unfold vertex_table. apply dedupe_pts_spec. constructor. Qed.

Theorem vertex_table_complete cells r p : In (Some r) cells -> In p r -> In p (vertex_table cells).
Proof.
  intros Hc Hp. unfold vertex_table. apply dedupe_pts_spec; [constructor|]. right.
  apply in_flat_map. exists (Some r). auto.
Qed.

(* every vertex index is valid and resolves to the triangle's own coordinate *)
Theorem index_of_pt_spec p : forall l, In p l -> exists k, index_of_pt p l = Some k /\ nth_error l k = Some p.
Proof.
  induction l as [|q l IH]; intros H; [destruct H|]. cbn [index_of_pt].
  destruct (pt_leib_eqb p q) eqn:E.
  - apply pt_leib_eqb_eq in E. subst. exists O. auto.
  - destruct H as [<-|H]; [rewrite (proj2 (pt_leib_eqb_eq q q) eq_refl) in E; discriminate|].
    destruct (IH H) as (k & -> & Hk). exists (S k). auto.
Qed.

Example ex_fan : fan [(0, 0); (1, 0); (1, 1); (0, 1)] = [((0, 0), (1, 0), (1, 1)); ((0, 0), (1, 1), (0, 1))].
Proof. reflexivity. Qed.

(* a dart (reflex vertex third): two triangles, exact cover accepted by the checker *)
Example ex_dart :
  let r := [(0, 0); (4 # 1, 0); (1, 1); (0, 4 # 1)] in
  match triangulate_ring r with Some ts => partition_okb r ts | None => false end = true.
Proof. vm_compute. reflexivity. Qed.
