From Coq Require Import ZArith List Bool Lia.
From EV Require Import Model.GeomNames.
Import ListNotations.
Open Scope Z_scope.

Lemma memz_spec : forall x l, memz x l = true <-> In x l.
Proof.
  intros x l. unfold memz. rewrite existsb_exists. split.
  - intros [y [Hy He]]. apply Z.eqb_eq in He. now subst.
  - intros H. exists x. split; [exact H|apply Z.eqb_refl].
Qed.

Lemma memz_ext : forall x l l', (In x l <-> In x l') -> memz x l = memz x l'.
Proof.
  intros x l l' H. destruct (memz x l) eqn:E1, (memz x l') eqn:E2; try reflexivity.
  - apply memz_spec in E1. apply H, memz_spec in E1. congruence.
  - apply memz_spec in E2. apply H, memz_spec in E2. congruence.
Qed.

(* what the subset holds: exactly the variables of the dataset that were asked for or are geometry, depth or time
   coordinates, in dataset order *)
Lemma select_spec : forall vars chosen geom depth time out, select_variables vars chosen geom depth time = Some out ->
  (forall v, In v out <-> In v vars /\ (In v chosen \/ In v geom \/ In v depth \/ time = Some v)) /\
  out = filter (fun v => memz v (keep_set chosen geom depth time)) vars.
Proof.
  intros vars chosen geom depth time out H. unfold select_variables in H.
  destruct (forallb _ chosen); [|discriminate]. inversion H; subst. split; [|reflexivity].
  intros v. rewrite filter_In, memz_spec. unfold keep_set. rewrite !in_app_iff. split.
  - intros [Hv [Hc|[Hg|[Hd|Ht]]]]; (split; [exact Hv|]); auto.
    right; right; right. destruct time as [t|]; simpl in Ht; [destruct Ht as [->|[]]; reflexivity|contradiction].
  - intros [Hv [Hc|[Hg|[Hd|Ht]]]]; (split; [exact Hv|]); auto.
    right; right; right. subst time. simpl. now left.
Qed.

(* every geometry variable of the dataset survives *)
Lemma select_keeps_geometry : forall vars chosen geom depth time out g,
  select_variables vars chosen geom depth time = Some out -> In g geom -> In g vars -> In g out.
Proof.
  intros vars chosen geom depth time out g H Hg Hv. apply select_spec in H. destruct H as [H _]. apply H. split; auto.
Qed.

(* refused exactly when something asked for is not in the dataset *)
Lemma select_refused : forall vars chosen geom depth time,
  select_variables vars chosen geom depth time = None <-> exists c, In c chosen /\ ~ In c vars.
Proof.
  intros vars chosen geom depth time. unfold select_variables. destruct (forallb (fun c => memz c vars) chosen) eqn:E.
  - split; [discriminate|]. intros [c [Hc Hn]]. exfalso. rewrite forallb_forall in E. apply Hn, memz_spec, E, Hc.
  - split; [|reflexivity]. intros _.
    induction chosen as [|c r IH]; simpl in E; [discriminate|]. apply andb_false_iff in E. destruct E as [E|E].
    + exists c. split; [now left|]. intro Hin. apply memz_spec in Hin. congruence.
    + destruct (IH E) as [x [Hx Hn]]. exists x. split; [now right|exact Hn].
Qed.

Lemma present_stable : forall b vars vars', (forall v, In v vars' -> In v vars) ->
  (forall v, In v (present b vars) -> In v vars') -> present b vars' = present b vars.
Proof.
  intros b vars vars' Hsub Hkeep. unfold present in *. destruct b as [b|]; [|reflexivity].
  destruct (memz b vars) eqn:E.
  - assert (In b vars') by (apply Hkeep; now left). apply memz_spec in H. now rewrite H.
  - destruct (memz b vars') eqn:E'; [|reflexivity]. apply memz_spec, Hsub, memz_spec in E'. congruence.
Qed.

(* the geometry names of the subset of a CF grid are those of the dataset: keeping some data variables never loses or
   gains a bounds variable *)
Lemma grid_names_of_subset : forall lon lat lb ltb vars chosen depth time out,
  select_variables vars chosen (grid_names lon lat lb ltb vars) depth time = Some out ->
  grid_names lon lat lb ltb out = grid_names lon lat lb ltb vars.
Proof.
  intros lon lat lb ltb vars chosen depth time out H. apply select_spec in H. destruct H as [H _].
  assert (Hsub : forall v, In v out -> In v vars) by (intros v Hv; now apply H in Hv).
  assert (Hin : forall b v, In v (present b vars) -> In v vars).
  { intros b v Hv. unfold present in Hv. destruct b as [b|]; [|contradiction].
    destruct (memz b vars) eqn:E; [|contradiction]. destruct Hv as [<-|[]]. now apply memz_spec. }
  assert (E1 : present lb out = present lb vars).
  { apply present_stable; [exact Hsub|]. intros v Hv. apply H. split; [now apply Hin with lb|].
    right; left. unfold grid_names. simpl. right; right. apply in_app_iff. now left. }
  assert (E2 : present ltb out = present ltb vars).
  { apply present_stable; [exact Hsub|]. intros v Hv. apply H. split; [now apply Hin with ltb|].
    right; left. unfold grid_names. simpl. right; right. apply in_app_iff. now right. }
  unfold grid_names. now rewrite E1, E2.
Qed.

Lemma filter_idem : forall (p : Z -> bool) l, filter p (filter p l) = filter p l.
Proof.
  intros p l. induction l as [|a r IH]; simpl; [reflexivity|].
  destruct (p a) eqn:E; simpl; [rewrite E; f_equal; exact IH|exact IH].
Qed.

(* selecting again with the same request changes nothing *)
Lemma select_idempotent : forall vars chosen geom depth time out,
  select_variables vars chosen geom depth time = Some out -> select_variables out chosen geom depth time = Some out.
Proof.
  intros vars chosen geom depth time out H. unfold select_variables in H.
  destruct (forallb (fun c => memz c vars) chosen) eqn:E; [|discriminate]. inversion H; subst. clear H.
  unfold select_variables.
  assert (E2 : forallb (fun c => memz c (filter (fun v => memz v (keep_set chosen geom depth time)) vars)) chosen = true).
  { apply forallb_forall. intros c Hc. apply memz_spec, filter_In. rewrite forallb_forall in E. split; [apply memz_spec, E, Hc|].
    apply memz_spec. unfold keep_set. apply in_app_iff. now left. }
  rewrite E2. f_equal. apply filter_idem.
Qed.

(* dropping the geometry of a subset leaves what was asked for and the depth and time coordinates *)
Lemma drop_geometry_spec : forall vars geom v, In v (drop_geometry vars geom) <-> In v vars /\ ~ In v geom.
Proof.
  intros vars geom v. unfold drop_geometry. rewrite filter_In. split.
  - intros [Hv Hn]. split; [exact Hv|]. intro Hg. apply memz_spec in Hg. rewrite Hg in Hn. discriminate.
  - intros [Hv Hn]. split; [exact Hv|]. destruct (memz v geom) eqn:E; [|reflexivity]. exfalso. now apply Hn, memz_spec.
Qed.

(* the mesh: the names do not depend on the data variables at all, and the four required variables are always among them *)
Lemma ugrid_names_required : forall m, In (m_var m) (ugrid_names m) /\ In (m_face_node m) (ugrid_names m)
  /\ In (m_node_x m) (ugrid_names m) /\ In (m_node_y m) (ugrid_names m).
Proof. intros m. unfold ugrid_names. simpl. auto 10. Qed.

Lemma ugrid_names_optional : forall m x, In x (ugrid_names m) <->
  x = m_var m \/ x = m_face_node m \/ x = m_node_x m \/ x = m_node_y m \/ m_face_edge m = Some x \/ m_face_face m = Some x
  \/ m_edge_node m = Some x \/ m_edge_face m = Some x \/ m_edge_x m = Some x \/ m_edge_y m = Some x \/ m_face_x m = Some x
  \/ m_face_y m = Some x.
Proof.
  intros m x. unfold ugrid_names. rewrite !in_app_iff. simpl.
  assert (O : forall o, In x (opt o) <-> o = Some x).
  { intros [y|]; simpl; split; try (intros [->|[]]; reflexivity); try (intros E; inversion E; now left); try contradiction; discriminate. }
  rewrite !O. intuition congruence.
Qed.

(* non-vacuity *)
Example ex_select :
  select_variables [1; 2; 3; 4; 5; 6; 7; 8] [5] (grid_names 2 1 (Some 4) (Some 99) [1; 2; 3; 4; 5; 6; 7; 8]) [7] (Some 8)
  = Some [1; 2; 4; 5; 7; 8]
  /\ select_variables [1; 2; 3] [9] [1; 2] [] None = None
  /\ drop_geometry [1; 2; 4; 5; 7; 8] [2; 1; 4] = [5; 7; 8].
Proof. vm_compute. repeat split. Qed.
