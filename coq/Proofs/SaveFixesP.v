From Coq Require Import ZArith List Bool Lia.
From EV Require Import Model.SaveFixes.
Import ListNotations.
Open Scope Z_scope.

(* after the fix-up a variable is written with exactly the fill value its source declared: none gains one, none loses
   or changes one *)
Lemma written_is_declared : forall v, written_fill (disable_one v) = declared_fill v.
Proof.
  intros [n h e a]. destruct h, e as [[e|]|], a as [a|]; reflexivity.
Qed.

Lemma saved_spec : forall vs, saved vs = map (fun v => (s_name v, declared_fill v)) vs.
Proof.
  intros vs. unfold saved, disable_default_fill_value. rewrite map_map. apply map_ext. intros v.
  rewrite written_is_declared. f_equal. unfold disable_one. destruct (_ && _ && _); reflexivity.
Qed.

(* the fix-up changes nothing but the encoding entry, and only where nothing was declared *)
Lemma disable_one_keeps : forall v, s_name (disable_one v) = s_name v /\ s_attr (disable_one v) = s_attr v /\
  s_has_nan (disable_one v) = s_has_nan v /\ (declared_fill v <> None -> disable_one v = v).
Proof.
  intros [n h e a]. unfold disable_one, declared_fill. simpl.
  destruct h, e as [[e|]|], a as [a|]; simpl; repeat split; congruence.
Qed.

Lemma disable_idempotent : forall v, disable_one (disable_one v) = disable_one v.
Proof.
  intros [n h e a]. destruct h, e as [[e|]|], a as [a|]; reflexivity.
Qed.

(* without the fix-up the writer adds its default to every undeclared variable that has a NaN *)
Lemma without_fixup_refuted : exists v, written_fill v <> declared_fill v.
Proof. exists {| s_name := 1; s_has_nan := true; s_enc := None; s_attr := None |}. vm_compute. discriminate. Qed.

(* skipping coordinate variables leaves their default in the file *)
Lemma data_only_refuted : exists vs, saved_data_only vs <> map (fun p : svar * bool => (s_name (fst p), declared_fill (fst p))) vs.
Proof.
  exists [({| s_name := 1; s_has_nan := true; s_enc := None; s_attr := None |}, true)]. vm_compute. discriminate.
Qed.

Example saved_example :
  saved [ {| s_name := 1; s_has_nan := true; s_enc := None; s_attr := None |};
          {| s_name := 2; s_has_nan := true; s_enc := Some (Some 999); s_attr := None |};
          {| s_name := 3; s_has_nan := false; s_enc := None; s_attr := Some 7 |};
          {| s_name := 4; s_has_nan := true; s_enc := Some None; s_attr := None |};
          {| s_name := 5; s_has_nan := false; s_enc := None; s_attr := None |} ]
  = [ (1, None); (2, Some 999); (3, Some 7); (4, None); (5, None) ].
Proof. vm_compute. reflexivity. Qed.
