(* C03, the converse direction: wind arbitrary flat data onto a grid, flatten it again - the original values come
   back under the original labels. *)
From Coq Require Import ZArith List Lia Bool.
From EV Require Import Base.Index Base.LArr Model.Flatten Proofs.FlattenP.
Import ListNotations.
Open Scope Z_scope.

Lemma index_of_app_notin d (l1 l2 : list name) : ~ In d l1 -> index_of d (l1 ++ l2) = (length l1 + index_of d l2)%nat.
Proof.
  induction l1 as [|x xs IH]; intros H; [reflexivity|]. cbn [app index_of length].
  destruct (Z.eqb_spec d x) as [->|N]; [exfalso; apply H; now left|].
  rewrite IH; [lia|]. intros Hin. apply H. now right.
Qed.

Lemma split_at_index d (l : list name) : In d l ->
  l = firstn (index_of d l) l ++ d :: skipn (S (index_of d l)) l /\ ~ In d (firstn (index_of d l) l).
Proof.
  induction l as [|x xs IH]; intros H; [destruct H|]. cbn [index_of].
  destruct (Z.eqb_spec d x) as [->|N].
  - cbn. split; [reflexivity|tauto].
  - destruct H as [->|H]; [congruence|]. destruct (IH H) as [E Hn]. cbn [firstn skipn app]. split.
    + f_equal. exact E.
    + intros [->|Hin]; [congruence|auto].
Qed.

Lemma filter_notin_id (G l : list name) : (forall d, In d l -> ~ In d G) -> filter (fun d => negb (mem d G)) l = l.
Proof.
  induction l as [|x xs IH]; intros H; [reflexivity|]. cbn [filter].
  replace (mem x G) with false by (symmetry; apply mem_false; apply H; now left). cbn [negb]. f_equal.
  apply IH. intros d Hd. apply H. now right.
Qed.

Lemma filter_in_nil (G l : list name) : (forall d, In d l -> In d G) -> filter (fun d => negb (mem d G)) l = [].
Proof.
  induction l as [|x xs IH]; intros H; [reflexivity|]. cbn [filter].
  replace (mem x G) with true by (symmetry; apply mem_In; apply H; now left). cbn [negb].
  apply IH. intros d Hd. apply H. now right.
Qed.

Lemma filter_ne_id lin (l : list name) : ~ In lin l -> filter (fun d => negb (d =? lin)) l = l.
Proof.
  induction l as [|x xs IH]; intros H; [reflexivity|]. cbn [filter].
  destruct (Z.eqb_spec x lin) as [->|N]; [exfalso; apply H; now left|]. cbn [negb]. f_equal.
  apply IH. intros Hin. apply H. now right.
Qed.

Lemma filter_split_lin lin (pre post : list name) : ~ In lin pre -> ~ In lin post ->
  filter (fun d => negb (d =? lin)) (pre ++ lin :: post) = pre ++ post.
Proof.
  intros H1 H2. rewrite filter_app. f_equal; [now apply filter_ne_id|].
  cbn [filter]. rewrite Z.eqb_refl. cbn [negb]. now apply filter_ne_id.
Qed.

Lemma map_nth_index_of_1 (G : list name) : NoDup G -> forall gs : list Z, length G = length gs ->
  map (fun d => nth (index_of d G) gs 1) G = gs.
Proof.
  induction 1 as [|g G' Hg NDG' IH]; intros [|s gs'] C3; try discriminate; [reflexivity|].
  cbn [map index_of]. rewrite Z.eqb_refl. cbn [nth]. f_equal.
  transitivity (map (fun d => nth (index_of d G') gs' 1) G'); [|apply IH; cbn in C3; lia].
  apply map_ext_in. intros d Hd. destruct (Z.eqb_spec d g) as [->|N]; [contradiction|reflexivity].
Qed.

Section Converse.
  Context {A : Type}.
  Notation larr := (larr A).

  Theorem ravel_wind (y : larr) G gs lin w r :
    NoDup (dims y) -> length (sizes y) = length (dims y) -> NoDup G -> G <> [] ->
    (forall d, In d G -> ~ In d (dims y)) -> pos_shape gs ->
    wind_dim G gs lin y = Some w -> ravel_dims G (Some lin) w = Some r ->
    dims r = filter (fun d => negb (Z.eqb d lin)) (dims y) ++ [lin] /\
    forall env, env_in y env -> get r env = get y env.
  Proof.
    intros NDy Ly NDG GN Hfresh Pgs Hw Hr.
    unfold wind_dim in Hw. destruct (mem lin (dims y)) eqn:M; [|discriminate]. apply mem_In in M.
    set (p := index_of lin (dims y)) in *.
    destruct ((size_of y lin =? prod gs) && forallb (fun s => 0 <=? s) gs && (length G =? length gs)%nat) eqn:C; [|discriminate].
    apply andb_true_iff in C as [C C3]. apply andb_true_iff in C as [C1 _].
    apply Z.eqb_eq in C1. apply Nat.eqb_eq in C3.
    set (pre := firstn p (dims y)) in *. set (post := skipn (S p) (dims y)) in *.
    set (wrec := {| dims := pre ++ G ++ post;
                    sizes := firstn p (sizes y) ++ gs ++ skipn (S p) (sizes y);
                    at_ := fun idx => at_ y (firstn p idx ++ [ravel_or0 gs (firstn (length gs) (skipn p idx))]
                                               ++ skipn (p + length gs) idx) |}) in *.
    injection Hw as <-.
    destruct (split_at_index lin (dims y) M) as [Esplit Hpre]. fold p in Esplit, Hpre. fold pre post in Esplit. fold pre in Hpre.
    assert (Lpre : length pre = p).
    { unfold pre. apply firstn_length_le. pose proof (index_of_lt lin (dims y) M). fold p in H. lia. }
    assert (Hpost : ~ In lin post).
    { rewrite Esplit in NDy. apply NoDup_remove_2 in NDy. intros Hin. apply NDy. apply in_or_app. now right. }
    assert (Hpre_y : forall d, In d pre -> In d (dims y)) by (intros d Hd; rewrite Esplit; apply in_or_app; now left).
    assert (Hpost_y : forall d, In d post -> In d (dims y)) by (intros d Hd; rewrite Esplit; apply in_or_app; right; now right).
    (* the other dimensions of the wound array: everything but the grid *)
    assert (Ho : others wrec G = pre ++ post).
    { unfold others. cbn [dims wrec]. rewrite !filter_app.
      rewrite (filter_notin_id G pre) by (intros d Hd; intros Hg; apply (Hfresh d Hg); auto).
      rewrite (filter_in_nil G G) by auto.
      rewrite (filter_notin_id G post) by (intros d Hd; intros Hg; apply (Hfresh d Hg); auto). reflexivity. }
    pose proof (ravel_get wrec G (Some lin) r) as RG.
    pose proof Hr as Hinv. apply ravel_dims_inv in Hinv as (_ & _ & _ & l & Hl & Hlin & Hd & _ & _).
    specialize (Hlin lin eq_refl). subst l. rewrite Ho in Hd.
    split.
    { rewrite Hd. f_equal. pose proof (filter_split_lin lin pre post Hpre Hpost) as F.
      rewrite <- Esplit in F. now rewrite F. }
    intros env Henv. rewrite (RG env Hr). rewrite Hd, last_last.
    set (envw := env_of wrec G lin env).
    unfold get at 1. cbn [dims at_ wrec].
    (* the sizes of the grid dimensions in the wound array are gs *)
    assert (Hgs : map (size_of wrec) G = gs).
    { unfold size_of. cbn [dims sizes wrec].
      assert (Lf : length (firstn p (sizes y)) = p).
      { apply firstn_length_le. pose proof (index_of_lt lin (dims y) M). fold p in H. lia. }
      clear - NDG C3 Hfresh Hpre_y Lpre Lf.
      assert (E : forall d, In d G -> nth (index_of d (pre ++ G ++ post)) (firstn p (sizes y) ++ gs ++ skipn (S p) (sizes y)) 1
                                   = nth (index_of d G) gs 1).
      { intros d Hd. rewrite index_of_app_notin by (intros Hin; apply (Hfresh d Hd); auto).
        rewrite app_nth2 by lia. rewrite Lpre, Lf. replace (p + index_of d (G ++ post) - p)%nat with (index_of d (G ++ post)) by lia.
        assert (I : index_of d (G ++ post) = index_of d G).
        { clear - Hd. induction G as [|g G IH]; [destruct Hd|]. cbn [app index_of].
          destruct (Z.eqb_spec d g); [reflexivity|]. destruct Hd as [->|Hd]; [congruence|]. f_equal. auto. }
        rewrite I. apply app_nth1. rewrite <- C3. now apply index_of_lt. }
      rewrite (map_ext_in _ _ G E). now apply map_nth_index_of_1. }
    (* the labelling of the wound array *)
    assert (Epre : map envw pre = map env pre).
    { apply map_ext_in. intros d Hdp. unfold envw, env_of.
      replace (mem d G) with false by (symmetry; apply mem_false; intros Hg; apply (Hfresh d Hg); auto). reflexivity. }
    assert (Epost : map envw post = map env post).
    { apply map_ext_in. intros d Hdp. unfold envw, env_of.
      replace (mem d G) with false by (symmetry; apply mem_false; intros Hg; apply (Hfresh d Hg); auto). reflexivity. }
    assert (EG : map envw G = unravel_aux gs (env lin)).
    { erewrite map_ext_in.
      2:{ intros d Hdg. unfold envw, env_of. apply mem_In in Hdg. rewrite Hdg, Hgs. reflexivity. }
      apply map_nth_index_of; [exact NDG|]. rewrite unravel_aux_length. lia. }
    rewrite !map_app, Epre, Epost, EG.
    assert (Lmp : length (map env pre) = p) by (rewrite map_length; exact Lpre).
    rewrite firstn_app, firstn_all2 by lia. replace (p - length (map env pre))%nat with 0%nat by lia.
    cbn [firstn]. rewrite app_nil_r.
    rewrite skipn_app, skipn_all2 by lia. replace (p - length (map env pre))%nat with 0%nat by lia. cbn [skipn app].
    rewrite firstn_app, firstn_all2 by (rewrite unravel_aux_length; lia).
    replace (length gs - length (unravel_aux gs (env lin)))%nat with 0%nat by (rewrite unravel_aux_length; lia).
    cbn [firstn]. rewrite app_nil_r.
    rewrite skipn_app, skipn_all2 by lia. replace (p + length gs - length (map env pre))%nat with (length gs) by lia.
    rewrite skipn_app, skipn_all2 by (rewrite unravel_aux_length; lia).
    replace (length gs - length (unravel_aux gs (env lin)))%nat with 0%nat by (rewrite unravel_aux_length; lia).
    cbn [skipn app].
    (* the linear index is in range, so unravel then ravel gives it back *)
    assert (Rng : 0 <= env lin < prod gs).
    { rewrite <- C1. unfold size_of. fold p. apply (in_box_env env (dims y) (sizes y)); auto. }
    assert (RU : ravel_or0 gs (unravel_aux gs (env lin)) = env lin).
    { unfold ravel_or0. rewrite (ravel_unravel_aux gs Pgs (env lin) Rng). reflexivity. }
    rewrite RU. unfold get. f_equal. rewrite Esplit, map_app. reflexivity.
  Qed.
End Converse.

(* non-vacuity: a (t, index) variable wound onto a 2 x 3 grid and flattened again *)
Example ex_wind_then_ravel :
  let y := mk [5; 9] [2; 6] [1; 2; 3; 4; 5; 6; 7; 8; 9; 10; 11; 12] in
  match wind_dim [1; 2] [2; 3] 9 y with
  | Some w => option_map (fun r => (dims r, to_list r)) (ravel_dims [1; 2] (Some 9) w)
  | None => None
  end = Some ([5; 9], [1; 2; 3; 4; 5; 6; 7; 8; 9; 10; 11; 12]).
Proof. vm_compute. reflexivity. Qed.
