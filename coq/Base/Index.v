(* Row-major index algebra: numpy.ravel_multi_index / numpy.unravel_index
   (mode='raise', order='C') as total functions returning [None] where numpy raises. *)
From Coq Require Import ZArith List Lia Bool FinFun.
Import ListNotations.
Open Scope Z_scope.

Fixpoint prod (s : list Z) : Z := match s with [] => 1 | x :: xs => x * prod xs end.

(* numpy.ravel_multi_index(idx, shape): ValueError on a negative, too large or
   wrong-arity index. *)
Fixpoint ravel (shape idx : list Z) : option Z :=
  match shape, idx with
  | [], [] => Some 0
  | s :: ss, i :: is =>
      if (0 <=? i) && (i <? s) then
        match ravel ss is with Some r => Some (i * prod ss + r) | None => None end
      else None
  | _, _ => None
  end.

Fixpoint unravel_aux (shape : list Z) (n : Z) : list Z :=
  match shape with [] => [] | s :: ss => (n / prod ss) :: unravel_aux ss (n mod prod ss) end.

(* numpy.unravel_index(n, shape): ValueError outside [0, prod shape). *)
Definition unravel (shape : list Z) (n : Z) : option (list Z) :=
  if (0 <=? n) && (n <? prod shape) then Some (unravel_aux shape n) else None.

Definition pos_shape (s : list Z) := Forall (fun x => 0 < x) s.

(* componentwise range: the index addresses a location of the grid *)
Inductive in_box : list Z -> list Z -> Prop :=
| in_box_nil : in_box [] []
| in_box_cons s ss i is : 0 <= i < s -> in_box ss is -> in_box (s :: ss) (i :: is).

(* lexicographic order on equal-length index lists *)
Inductive lex_lt : list Z -> list Z -> Prop :=
| lex_here i j is js : i < j -> length is = length js -> lex_lt (i :: is) (j :: js)
| lex_next i is js : lex_lt is js -> lex_lt (i :: is) (i :: js).

Lemma prod_pos s : pos_shape s -> 0 < prod s.
Proof. induction 1; simpl; nia. Qed.

Lemma prod_app s1 s2 : prod (s1 ++ s2) = prod s1 * prod s2.
Proof. induction s1 as [|x xs IH]; cbn [prod app]; [ring | rewrite IH; ring]. Qed.

Lemma ravel_range shape : pos_shape shape -> forall idx n, ravel shape idx = Some n -> 0 <= n < prod shape.
Proof.
  induction 1 as [|s ss Hs Hss IH]; intros [|i is] n; simpl; try discriminate.
  - intros [= <-]; lia.
  - destruct ((0 <=? i) && (i <? s)) eqn:E; try discriminate.
    destruct (ravel ss is) as [r|] eqn:R; try discriminate.
    intros [= <-]. specialize (IH _ _ R). pose proof (prod_pos _ Hss).
    apply andb_true_iff in E as [E1 E2]. apply Z.leb_le in E1. apply Z.ltb_lt in E2. nia.
Qed.

Lemma unravel_ravel shape : pos_shape shape -> forall idx n, ravel shape idx = Some n -> unravel shape n = Some idx.
Proof.
  intros Hp idx n H. unfold unravel. pose proof (ravel_range _ Hp _ _ H) as Hr.
  replace ((0 <=? n) && (n <? prod shape)) with true
    by (symmetry; apply andb_true_iff; split; [apply Z.leb_le|apply Z.ltb_lt]; lia).
  f_equal. clear Hr. revert idx n H.
  induction Hp as [|s ss Hs Hss IH]; intros [|i is] n; simpl; try discriminate; auto.
  destruct ((0 <=? i) && (i <? s)) eqn:E; try discriminate.
  destruct (ravel ss is) as [r|] eqn:R; try discriminate.
  intros [= <-]. pose proof (ravel_range _ Hss _ _ R). pose proof (prod_pos _ Hss).
  rewrite Z.add_comm, Z.div_add, Z.mod_add by lia.
  rewrite Z.div_small, Z.mod_small by lia. simpl. f_equal. apply IH; auto.
Qed.

Lemma ravel_unravel_aux shape : pos_shape shape -> forall n, 0 <= n < prod shape ->
  ravel shape (unravel_aux shape n) = Some n.
Proof.
  intros Hp. induction Hp as [|s ss Hs Hss IH]; intros n [E1 E2]; simpl in *.
  - f_equal; lia.
  - pose proof (prod_pos _ Hss) as Hpp.
    assert (0 <= n / prod ss < s).
    { split. apply Z.div_pos; lia. apply Z.div_lt_upper_bound; lia. }
    replace ((0 <=? n / prod ss) && (n / prod ss <? s)) with true
      by (symmetry; apply andb_true_iff; split; [apply Z.leb_le|apply Z.ltb_lt]; lia).
    rewrite IH; try (apply Z.mod_pos_bound; lia).
    f_equal. rewrite (Z.div_mod n (prod ss)) at 3 by lia. lia.
Qed.

Lemma ravel_unravel shape : pos_shape shape -> forall n idx, unravel shape n = Some idx -> ravel shape idx = Some n.
Proof.
  intros Hp n idx. unfold unravel. destruct ((0 <=? n) && (n <? prod shape)) eqn:E; try discriminate.
  intros [= <-]. apply andb_true_iff in E as [E1 E2]. apply Z.leb_le in E1. apply Z.ltb_lt in E2.
  apply ravel_unravel_aux; auto.
Qed.

Lemma unravel_some_iff shape n : (exists idx, unravel shape n = Some idx) <-> 0 <= n < prod shape.
Proof.
  unfold unravel. destruct ((0 <=? n) && (n <? prod shape)) eqn:E.
  - apply andb_true_iff in E as [E1 E2]. apply Z.leb_le in E1. apply Z.ltb_lt in E2.
    split; [lia | eauto].
  - split; [intros [idx H]; discriminate|].
    intros [H1 H2]. apply andb_false_iff in E as [E|E]; [apply Z.leb_gt in E | apply Z.ltb_ge in E]; lia.
Qed.

Lemma ravel_some_iff shape idx : (exists n, ravel shape idx = Some n) <-> in_box shape idx.
Proof.
  revert idx. induction shape as [|s ss IH]; intros [|i is]; simpl.
  - split; [constructor | eauto].
  - split; [intros [n H]; discriminate | inversion 1].
  - split; [intros [n H]; discriminate | inversion 1].
  - destruct ((0 <=? i) && (i <? s)) eqn:E.
    + apply andb_true_iff in E as [E1 E2]. apply Z.leb_le in E1. apply Z.ltb_lt in E2.
      split.
      * intros [n H]. destruct (ravel ss is) as [r|] eqn:R; try discriminate.
        constructor; [lia|]. apply IH. eauto.
      * inversion 1 as [|? ? ? ? Hi Hb]; subst. apply IH in Hb as [r Hr]. rewrite Hr. eauto.
    + split; [intros [n H]; discriminate|].
      inversion 1 as [|? ? ? ? Hi Hb]; subst.
      apply andb_false_iff in E as [E|E]; [apply Z.leb_gt in E | apply Z.ltb_ge in E]; lia.
Qed.

Lemma unravel_in_box shape : pos_shape shape -> forall n idx, unravel shape n = Some idx -> in_box shape idx.
Proof. intros Hp n idx H. apply ravel_some_iff. exists n. apply ravel_unravel; auto. Qed.

Lemma ravel_inj shape : pos_shape shape -> forall i1 i2 n,
  ravel shape i1 = Some n -> ravel shape i2 = Some n -> i1 = i2.
Proof.
  intros Hp i1 i2 n H1 H2. apply unravel_ravel in H1; auto. apply unravel_ravel in H2; auto. congruence.
Qed.

Lemma in_box_length s i : in_box s i -> length i = length s.
Proof. induction 1; simpl; congruence. Qed.

(* "row-major": the lexicographic order on in-range indexes is the order of linear indexes *)
Lemma ravel_lex shape : pos_shape shape -> forall i1 i2 n1 n2,
  ravel shape i1 = Some n1 -> ravel shape i2 = Some n2 -> (lex_lt i1 i2 <-> n1 < n2).
Proof.
  induction 1 as [|s ss Hs Hss IH]; intros [|a1 r1] [|a2 r2] n1 n2; simpl; try discriminate.
  - intros [= <-] [= <-]. split; [inversion 1 | lia].
  - destruct ((0 <=? a1) && (a1 <? s)) eqn:E1; try discriminate.
    destruct (ravel ss r1) as [m1|] eqn:R1; try discriminate.
    destruct ((0 <=? a2) && (a2 <? s)) eqn:E2; try discriminate.
    destruct (ravel ss r2) as [m2|] eqn:R2; try discriminate.
    intros [= <-] [= <-].
    pose proof (ravel_range _ Hss _ _ R1). pose proof (ravel_range _ Hss _ _ R2).
    pose proof (prod_pos _ Hss).
    split.
    + inversion 1; subst.
      * nia.
      * assert (m1 < m2) by (apply (IH r1 r2); auto). nia.
    + intros Hlt. destruct (Z.lt_trichotomy a1 a2) as [L|[L|L]].
      * constructor 1; auto.
        assert (B1 : in_box ss r1) by (apply ravel_some_iff; eauto).
        assert (B2 : in_box ss r2) by (apply ravel_some_iff; eauto).
        rewrite (in_box_length _ _ B1), (in_box_length _ _ B2). reflexivity.
      * subst. constructor 2. apply (IH r1 r2 m1 m2); auto. nia.
      * nia.
Qed.

(* the lemma behind every reshape: splitting a shape splits the linear index *)
Lemma unravel_aux_app s1 : pos_shape s1 -> forall s2 a b, pos_shape s2 ->
  0 <= a < prod s1 -> 0 <= b < prod s2 ->
  unravel_aux (s1 ++ s2) (a * prod s2 + b) = unravel_aux s1 a ++ unravel_aux s2 b.
Proof.
  induction 1 as [|s ss Hs Hss IH]; intros s2 a b H2 Ha Hb; simpl in *.
  - assert (a = 0) by lia; subst; simpl; reflexivity.
  - pose proof (prod_pos _ Hss). pose proof (prod_pos _ H2). rewrite prod_app.
    pose proof (Z.div_mod a (prod ss) ltac:(lia)) as Da.
    pose proof (Z.mod_pos_bound a (prod ss) ltac:(lia)) as Ma.
    assert (E1: (a * prod s2 + b) / (prod ss * prod s2) = a / prod ss).
    { symmetry. apply Z.div_unique with ((a mod prod ss) * prod s2 + b); nia. }
    assert (E2: (a * prod s2 + b) mod (prod ss * prod s2) = (a mod prod ss) * prod s2 + b).
    { symmetry. apply Z.mod_unique with (a / prod ss); nia. }
    rewrite E1, E2. f_equal. apply IH; auto; try lia.
Qed.

Lemma ravel_app s1 : forall s2 i1 i2 a b,
  ravel s1 i1 = Some a -> ravel s2 i2 = Some b ->
  ravel (s1 ++ s2) (i1 ++ i2) = Some (a * prod s2 + b).
Proof.
  induction s1 as [|s ss IH]; intros s2 [|i is] i2 a b; simpl; try discriminate.
  - intros [= <-] ->. f_equal; lia.
  - destruct ((0 <=? i) && (i <? s)); try discriminate.
    destruct (ravel ss is) as [r|] eqn:R; try discriminate.
    intros [= <-] H2. rewrite (IH _ _ _ _ _ R H2), prod_app. f_equal; ring.
Qed.

Lemma unravel_aux_length s n : length (unravel_aux s n) = length s.
Proof. revert n; induction s; simpl; auto. Qed.

(* enumeration used by the counting theorem *)
Definition zrange (lo n : Z) : list Z := map (fun d => lo + Z.of_nat d) (seq 0 (Z.to_nat n)).

Lemma in_zrange lo n x : In x (zrange lo n) <-> lo <= x < lo + n.
Proof.
  unfold zrange. rewrite in_map_iff. split.
  - intros [d [<- Hd]]. apply in_seq in Hd. lia.
  - intros H. exists (Z.to_nat (x - lo)). split; [lia|]. apply in_seq. lia.
Qed.

Lemma zrange_length lo n : length (zrange lo n) = Z.to_nat n.
Proof. unfold zrange. now rewrite map_length, seq_length. Qed.

Lemma zrange_NoDup lo n : NoDup (zrange lo n).
Proof.
  unfold zrange. apply Injective_map_NoDup; [|apply seq_NoDup].
  intros a b H. lia.
Qed.
