(* Labelled arrays (xarray.DataArray as far as dims / shape / values are concerned).
   An array is a list of dimension names, their sizes and an index function; [get] reads the value under
   a labelling of the dimensions, which is what a user of xarray observes.  The definitions are executable:
   [of_list] builds an array from C-order flat data, [to_list] flattens it again. *)
From Coq Require Import ZArith List Lia Bool.
From EV Require Import Base.Index.
Import ListNotations.
Open Scope Z_scope.

Definition name := Z.

Definition mem (d : name) (l : list name) : bool := existsb (Z.eqb d) l.

Lemma mem_In d l : mem d l = true <-> In d l.
Proof.
  unfold mem. rewrite existsb_exists. split.
  - intros [x [H E]]. apply Z.eqb_eq in E. subst; auto.
  - intros H. exists d. split; auto. apply Z.eqb_refl.
Qed.

Lemma mem_false d l : mem d l = false <-> ~ In d l.
Proof. rewrite <- mem_In. destruct (mem d l); split; congruence. Qed.

Fixpoint index_of (d : name) (l : list name) : nat :=
  match l with [] => 0%nat | x :: xs => if Z.eqb d x then 0%nat else S (index_of d xs) end.

Lemma index_of_lt d l : In d l -> (index_of d l < length l)%nat.
Proof.
  induction l as [|x xs IH]; simpl; [tauto|]. intros H.
  destruct (Z.eqb_spec d x); [lia|]. destruct H; [congruence|]. specialize (IH H). lia.
Qed.

Lemma nth_index_of {B} (f : name -> B) (dflt : B) d l :
  In d l -> nth (index_of d l) (map f l) dflt = f d.
Proof.
  induction l as [|x xs IH]; simpl; [tauto|]. intros [->|H].
  - rewrite Z.eqb_refl. reflexivity.
  - destruct (Z.eqb d x) eqn:E. apply Z.eqb_eq in E; subst; reflexivity. simpl. auto.
Qed.

Lemma map_nth_index_of (l : list name) (v : list Z) :
  NoDup l -> length v = length l -> map (fun d => nth (index_of d l) v 0) l = v.
Proof.
  intros ND. revert v. induction ND as [|x xs Hx ND IH]; intros [|y ys] L; simpl in *; try discriminate; auto.
  rewrite Z.eqb_refl. f_equal.
  transitivity (map (fun d => nth (index_of d xs) ys 0) xs); [|apply IH; lia].
  apply map_ext_in. intros d Hd.
  destruct (Z.eqb d x) eqn:E; [apply Z.eqb_eq in E; subst; contradiction | reflexivity].
Qed.

Fixpoint nodupb (l : list name) : bool :=
  match l with [] => true | x :: xs => negb (mem x xs) && nodupb xs end.

Lemma nodupb_NoDup l : nodupb l = true <-> NoDup l.
Proof.
  induction l as [|x xs IH]; simpl.
  - split; [constructor | reflexivity].
  - rewrite andb_true_iff, negb_true_iff, mem_false, IH. split.
    + intros [H1 H2]; constructor; auto.
    + inversion 1; auto.
Qed.

Section LArr.
  Context {A : Type}.

  Record larr := { dims : list name; sizes : list Z; at_ : list Z -> A }.

  Definition get (a : larr) (env : name -> Z) : A := at_ a (map env (dims a)).

  Definition size_of (a : larr) (d : name) : Z := nth (index_of d (dims a)) (sizes a) 1.

  (* the labelling addresses an element of the array *)
  Definition env_in (a : larr) (env : name -> Z) : Prop := in_box (sizes a) (map env (dims a)).

  Definition wf (a : larr) : Prop :=
    NoDup (dims a) /\ length (sizes a) = length (dims a) /\ pos_shape (sizes a).

  (* C-order flat data <-> array *)
  Definition of_list (dflt : A) (ds : list name) (ss : list Z) (data : list A) : larr :=
    {| dims := ds; sizes := ss;
       at_ := fun idx => match ravel ss idx with Some n => nth (Z.to_nat n) data dflt | None => dflt end |}.

  Definition to_list (a : larr) : list A :=
    map (fun n => at_ a (unravel_aux (sizes a) n)) (zrange 0 (prod (sizes a))).

  (* DataArray.transpose(order...) *)
  Definition transpose_to (order : list name) (a : larr) : larr :=
    {| dims := order; sizes := map (size_of a) order;
       at_ := fun idx => at_ a (map (fun d => nth (index_of d order) idx 0) (dims a)) |}.

  Lemma transpose_get (a : larr) order env :
    incl (dims a) order -> get (transpose_to order a) env = get a env.
  Proof.
    intros Hincl. unfold get; cbn [transpose_to at_ dims]. f_equal.
    apply map_ext_in. intros d Hd. apply nth_index_of. apply Hincl, Hd.
  Qed.

  Lemma size_of_nth (a : larr) : length (sizes a) = length (dims a) -> NoDup (dims a) ->
    map (size_of a) (dims a) = sizes a.
  Proof.
    intros L ND. unfold size_of.
    generalize dependent (sizes a). generalize dependent (dims a). clear a.
    intros l ND. induction ND as [|x xs Hx ND IH]; intros [|y ys] L; simpl in *; try discriminate; auto.
    rewrite Z.eqb_refl. f_equal.
    transitivity (map (fun d => nth (index_of d xs) ys 1) xs); [|apply IH; lia].
    apply map_ext_in. intros d Hd.
    destruct (Z.eqb d x) eqn:E; [apply Z.eqb_eq in E; subst; contradiction | reflexivity].
  Qed.

  Lemma to_list_length (a : larr) : length (to_list a) = Z.to_nat (prod (sizes a)).
  Proof. unfold to_list. now rewrite map_length, zrange_length. Qed.

  Lemma to_list_nth (a : larr) dflt n : 0 <= n < prod (sizes a) ->
    nth (Z.to_nat n) (to_list a) dflt = at_ a (unravel_aux (sizes a) n).
  Proof.
    intros Hn. unfold to_list, zrange.
    rewrite map_map.
    rewrite nth_indep with (d' := at_ a (unravel_aux (sizes a) (0 + Z.of_nat 0))).
    2:{ rewrite map_length, seq_length. lia. }
    rewrite (map_nth (fun d => at_ a (unravel_aux (sizes a) (0 + Z.of_nat d)))).
    rewrite seq_nth by lia. do 2 f_equal. lia.
  Qed.
End LArr.

Arguments larr : clear implicits.
