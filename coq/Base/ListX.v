(* list lemmas shared by several proofs *)
From Coq Require Import ZArith List Lia Bool Sorted.
From EV Require Import Base.Index.
Import ListNotations.
Open Scope Z_scope.

Lemma map_nth_d {A B} (f : A -> B) l n d d0 : f d0 = d -> nth n (map f l) d = f (nth n l d0).
Proof. intros <-. apply map_nth. Qed.

Lemma zrange_cons lo n : (0 < n)%nat -> zrange lo (Z.of_nat n) = lo :: zrange (lo + 1) (Z.of_nat (pred n)).
Proof.
  intros H. destruct n as [|n]; [lia|]. unfold zrange. rewrite !Nat2Z.id. cbn [pred seq map].
  f_equal; [lia|]. rewrite <- seq_shift, map_map. apply map_ext. intros; lia.
Qed.

(* enumerate: (position, element) pairs *)
Definition enum {A} (lo : Z) (l : list A) : list (Z * A) := combine (zrange lo (Z.of_nat (length l))) l.

Lemma enum_cons {A} lo (a : A) l : enum lo (a :: l) = (lo, a) :: enum (lo + 1) l.
Proof. unfold enum. cbn [length]. rewrite zrange_cons by lia. reflexivity. Qed.

Lemma in_enum {A} (l : list A) : forall lo n x,
  In (n, x) (enum lo l) <-> lo <= n /\ nth_error l (Z.to_nat (n - lo)) = Some x.
Proof.
  induction l as [|a l IH]; intros lo n x.
  - cbn. split; [tauto|]. intros [_ H]. destruct (Z.to_nat (n - lo)); discriminate.
  - rewrite enum_cons. cbn [In]. rewrite IH. split.
    + intros [[= <- <-]|[H1 H2]].
      * split; [lia|]. now rewrite Z.sub_diag.
      * split; [lia|]. replace (Z.to_nat (n - lo)) with (S (Z.to_nat (n - (lo + 1)))) by lia. exact H2.
    + intros [H1 H2]. destruct (Z.eq_dec n lo) as [->|N].
      * left. rewrite Z.sub_diag in H2. cbn in H2. congruence.
      * right. split; [lia|].
        replace (Z.to_nat (n - lo)) with (S (Z.to_nat (n - (lo + 1)))) in H2 by lia. exact H2.
Qed.

(* positions selected by a predicate, in order *)
Definition positions_where {A} (p : A -> bool) (lo : Z) (l : list A) : list Z :=
  map fst (filter (fun kp => p (snd kp)) (enum lo l)).

Lemma positions_where_cons {A} (p : A -> bool) lo a l :
  positions_where p lo (a :: l) =
  if p a then lo :: positions_where p (lo + 1) l else positions_where p (lo + 1) l.
Proof. unfold positions_where. rewrite enum_cons. cbn [filter snd]. destruct (p a); reflexivity. Qed.

Lemma in_positions_where {A} (p : A -> bool) lo l n :
  In n (positions_where p lo l) <-> lo <= n /\ exists x, nth_error l (Z.to_nat (n - lo)) = Some x /\ p x = true.
Proof.
  unfold positions_where. rewrite in_map_iff. split.
  - intros [[k x] [<- H]]. apply filter_In in H as [Hin Hp]. apply in_enum in Hin as [H1 H2]. cbn in *. eauto.
  - intros [H1 [x [H2 Hp]]]. exists (n, x). split; auto. apply filter_In. split; auto. apply in_enum. auto.
Qed.

Lemma positions_where_lb {A} (p : A -> bool) l : forall lo n, In n (positions_where p lo l) -> lo <= n.
Proof. intros lo n H. apply in_positions_where in H. tauto. Qed.

(* strictly increasing: labels keep the request order *)
Lemma positions_where_sorted {A} (p : A -> bool) l : forall lo, StronglySorted Z.lt (positions_where p lo l).
Proof.
  induction l as [|a l IH]; intros lo.
  - constructor.
  - rewrite positions_where_cons. destruct (p a); [|apply IH].
    constructor; [apply IH|]. apply Forall_forall. intros n Hn. apply positions_where_lb in Hn. lia.
Qed.

(* the selected elements, in order, are the elements at the selected positions *)
Lemma filter_positions {A} (p : A -> bool) l : forall lo,
  map (fun n => nth_error l (Z.to_nat (n - lo))) (positions_where p lo l) = map Some (filter p l).
Proof.
  induction l as [|a l IH]; intros lo; [reflexivity|].
  rewrite positions_where_cons. cbn [filter]. destruct (p a).
  - cbn [map]. rewrite Z.sub_diag. cbn [Z.to_nat nth_error]. f_equal.
    rewrite <- (IH (lo + 1)). apply map_ext_in. intros n Hn. apply positions_where_lb in Hn.
    replace (Z.to_nat (n - lo)) with (S (Z.to_nat (n - (lo + 1)))) by lia. reflexivity.
  - rewrite <- (IH (lo + 1)). apply map_ext_in. intros n Hn. apply positions_where_lb in Hn.
    replace (Z.to_nat (n - lo)) with (S (Z.to_nat (n - (lo + 1)))) by lia. reflexivity.
Qed.
