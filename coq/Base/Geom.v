(* Exact planar predicates over Q: executable specifications of "intersects / touches / simple".
   They are not verified against GEOS; the correspondence checks validate them on every generated case
   (all generated coordinates are dyadic rationals, on which GEOS' predicates are exact). *)
From Coq Require Import ZArith QArith List Bool Lia.
Import ListNotations.
Open Scope Q_scope.

Definition pt := (Q * Q)%type.
Definition ring := list pt.           (* vertices without the closing repeat *)

Definition px (p : pt) := fst p.
Definition py (p : pt) := snd p.

Definition cross (o a b : pt) : Q :=
  (px a - px o) * (py b - py o) - (py a - py o) * (px b - px o).

Definition sgn (q : Q) : Z := Z.sgn (Qnum q).
Definition orient (o a b : pt) : Z := sgn (cross o a b).

Definition qleb (a b : Q) : bool := Qle_bool a b.
Definition qmin (a b : Q) : Q := if qleb a b then a else b.
Definition qmax (a b : Q) : Q := if qleb a b then b else a.
Definition qeqb (a b : Q) : bool := Qeq_bool a b.
Definition pt_eqb (a b : pt) : bool := qeqb (px a) (px b) && qeqb (py a) (py b).

(* p lies on the closed segment ab *)
Definition on_seg (a b p : pt) : bool :=
  (orient a b p =? 0)%Z &&
  qleb (qmin (px a) (px b)) (px p) && qleb (px p) (qmax (px a) (px b)) &&
  qleb (qmin (py a) (py b)) (py p) && qleb (py p) (qmax (py a) (py b)).

(* closed segments ab and cd share at least one point *)
Definition seg_meet (a b c d : pt) : bool :=
  let o1 := orient a b c in let o2 := orient a b d in
  let o3 := orient c d a in let o4 := orient c d b in
  ((o1 * o2 <? 0)%Z && (o3 * o4 <? 0)%Z)
  || on_seg a b c || on_seg a b d || on_seg c d a || on_seg c d b.

(* edges of a ring: consecutive pairs, last back to first *)
Definition edges (r : ring) : list (pt * pt) :=
  match r with
  | [] => []
  | v :: _ => combine r (tl r ++ [v])
  end.

(* point on the boundary of the ring *)
Definition on_boundary (r : ring) (p : pt) : bool :=
  existsb (fun e => on_seg (fst e) (snd e) p) (edges r).

(* crossing-number test for a point not on the boundary: count edges crossing the horizontal ray to +x *)
Definition crosses_ray (p : pt) (e : pt * pt) : bool :=
  let (a, b) := e in
  let up := negb (qleb (py p) (py a)) in      (* a strictly below p *)
  let up' := negb (qleb (py p) (py b)) in
  if Bool.eqb up up' then false
  else
    (* the edge straddles the horizontal line through p; is the crossing to the right of p? *)
    let o := orient a b p in
    if up then (* a below, b above or level: crossing is right of p iff p is left of a->b *) (0 <? o)%Z
    else (o <? 0)%Z.

Definition strictly_inside (r : ring) (p : pt) : bool :=
  Nat.odd (length (filter (crosses_ray p) (edges r))).

(* the point lies in the closed polygon (interior or boundary): shapely's intersects for a point *)
Definition pt_meets_ring (r : ring) (p : pt) : bool := on_boundary r p || strictly_inside r p.

(* ---- simplicity of a ring: shapely.is_valid for the hole-free polygons emsarray builds ---- *)
Fixpoint all_pairs {A} (l : list A) : list (A * A) :=
  match l with
  | [] => []
  | x :: xs => map (fun y => (x, y)) xs ++ all_pairs xs
  end.

Definition indexed {A} (l : list A) : list (nat * A) := combine (seq 0 (length l)) l.

Definition edges_ok (n : nat) (p : (nat * (pt * pt)) * (nat * (pt * pt))) : bool :=
  let '((k, (a, b)), (l, (c, d))) := p in
  if (Nat.eqb (S k) l) then
    (* consecutive edges share b = c only *)
    negb (on_seg a b d) && negb (on_seg c d a)
  else if (Nat.eqb k 0 && Nat.eqb (S l) n) then
    (* last edge meets the first at d = a only *)
    negb (on_seg a b c) && negb (on_seg c d b)
  else negb (seg_meet a b c d).

(* GEOS accepts repeated consecutive points: drop them (cyclically) before testing *)
Fixpoint dedupe_consecutive (r : ring) : ring :=
  match r with
  | a :: ((b :: _) as t) => if pt_eqb a b then dedupe_consecutive t else a :: dedupe_consecutive t
  | _ => r
  end.

Definition dedupe_ring (r : ring) : ring :=
  let d := dedupe_consecutive r in
  match d with
  | a :: _ :: _ => if pt_eqb a (last d a) then removelast d else d
  | _ => d
  end.

Definition ring_simple (r0 : ring) : bool :=
  let r := dedupe_ring r0 in
  (3 <=? length r)%nat &&
  forallb (edges_ok (length r)) (all_pairs (indexed (edges r))).

(* shoelace: twice the signed area *)
Definition area2 (r : ring) : Q :=
  fold_right (fun e acc => (px (fst e) * py (snd e) - px (snd e) * py (fst e)) + acc) 0 (edges r).

(* polygon (closed region of a simple ring) meets a segment / another ring: used for clip geometries.
   Two closed regions meet iff some pair of edges meet, or one contains a vertex of the other. *)
Definition ring_meets_seg (r : ring) (a b : pt) : bool :=
  existsb (fun e => seg_meet (fst e) (snd e) a b) (edges r) || pt_meets_ring r a.

Definition ring_meets_ring (r s : ring) : bool :=
  existsb (fun e => existsb (fun f => seg_meet (fst e) (snd e) (fst f) (snd f)) (edges s)) (edges r)
  || match s with v :: _ => pt_meets_ring r v | [] => false end
  || match r with v :: _ => pt_meets_ring s v | [] => false end.

(* bounding box of a list of points *)
Definition bbox (ps : list pt) : option (Q * Q * Q * Q) :=
  match ps with
  | [] => None
  | p :: rest =>
      Some (fold_left (fun '(x0, y0, x1, y1) q =>
                         (qmin x0 (px q), qmin y0 (py q), qmax x1 (px q), qmax y1 (py q)))
                      rest (px p, py p, px p, py p))
  end.
