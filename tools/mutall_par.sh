#!/bin/bash
# Regression over every seeded change, one scratch worktree per property (under /tmp, removed afterwards), properties in
# parallel: apply the patch in the worktree, run the property's check with VERIF_REPO pointing at it, undo.  Nothing is
# recorded in the meta.json files (those hold the runs made against /repo itself); the log lists what is not caught.
# usage: tools/mutall_par.sh [tier] [jobs]          (evidence/ is overwritten by these runs: re-run the checks afterwards)
cd /verif || exit 2
tier=${1:-quick}; jobs=${2:-7}
mkdir -p /tmp/mutwt work
one_property() {
  prop=$1; tier=$2
  wt=/tmp/mutwt/$prop
  git -C /repo worktree add --detach -f $wt HEAD > /dev/null 2>&1
  for d in seeded/*/; do
    d=${d%/}
    [ -f $d/patch.diff ] && [ -f $d/meta.json ] || continue
    p=$(python3 -c "import json;print(json.load(open('$d/meta.json'))['property'])" 2>/dev/null)
    [ "$p" = "$prop" ] || continue
    /venv/bin/python tools/mutcheck.py $d --checks $prop --tier $tier --repo $wt 2>&1 | grep -v WARNING | python3 -c "
import json,sys
try:
    o=json.load(sys.stdin)
    for k,c in o.get('checks',{}).items():
        print(('caught ' if c['rc'] else 'MISSED ') + o['mutation'].split('/')[-1], k, [l[:150] for l in c['lines'] if l.startswith('  leg')][:1])
except Exception as e:
    print('ERROR $d', e)"
  done
  git -C /repo worktree remove --force $wt > /dev/null 2>&1
}
export -f one_property
printf 'C%02d\n' $(seq 1 20) | xargs -P $jobs -I{} bash -c "one_property {} $tier"
rmdir /tmp/mutwt 2>/dev/null
echo done
