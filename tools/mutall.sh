#!/bin/bash
# Regression over every seeded change: apply it to /repo, run the check of its property, undo it; report what is not caught.
# usage: tools/mutall.sh [tier]      (sequential: it patches /repo, run nothing else against /repo meanwhile)
cd /verif || exit 2
tier=${1:-quick}
for d in seeded/C??-? seeded/defect-*; do
  [ -f $d/patch.diff ] || continue
  prop=$(python3 -c "import json;print(json.load(open('$d/meta.json'))['property'])")
  /venv/bin/python tools/mutcheck.py $d --checks $prop --tier $tier --record 2>&1 | grep -v WARNING | python3 -c "
import json,sys
o=json.load(sys.stdin)
for k,c in o.get('checks',{}).items():
    print(('caught ' if c['rc'] else 'MISSED ') + o['mutation'].split('/')[-1], k, [l[:150] for l in c['lines'] if l.startswith('  leg')][:1])"
done
git -C /repo status --short | grep -v egg-info
echo done
