#!/bin/bash
# Take finished sub-agent deliverables /tmp/mut/out_<id> into seeded/<id>-<suffix>, validate them and run the property's check.
# usage: tools/mutround.sh <suffix> <id>...
suf=$1; shift
cd /verif || exit 2
for c in "$@"; do
  d=seeded/$c-$suf
  mkdir -p $d
  cp /tmp/mut/out_$c/patch.diff /tmp/mut/out_$c/demo.py /tmp/mut/out_$c/meta.json $d/ || { echo "$c: deliverables missing"; continue; }
  /venv/bin/python tools/mutcheck.py $d --validate --checks $c --record 2>&1 | grep -v WARNING | python3 -c "
import json,sys
o=json.load(sys.stdin)
print(o['mutation'].split('/')[-1], 'valid=%s' % (o.get('validated') or o.get('validation') or {}).get('valid'), {k:(c['rc'], [l[:230] for l in c['lines'] if l.startswith('  leg')][:1]) for k,c in o.get('checks',{}).items()})"
  git -C /repo worktree remove --force /tmp/mut/wt_$c 2>/dev/null
done
git -C /repo status --short | grep -v egg-info
