#!/bin/bash
# Regression over the seeded changes, those of the named properties first.  usage: tools/regress_priority.sh <jobs> <property>...
cd /verif || exit 2
jobs=$1; shift
names=$(python3 - "$@" <<'PY'
import json, os, sys
pri = sys.argv[1:]
out = []
for d in sorted(os.listdir('/verif/seeded')):
    p = f'/verif/seeded/{d}'
    if os.path.isfile(p + '/patch.diff') and os.path.isfile(p + '/meta.json'):
        m = json.load(open(p + '/meta.json'))
        if m.get('stale') or m.get('invalidated'):
            continue
        out.append((pri.index(m['property']) if m['property'] in pri else 99, d))
out.sort()
print(' '.join(d for _, d in out))
PY
)
exec tools/mutsome_par.sh $jobs $names
