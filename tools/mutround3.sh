#!/bin/bash
# Round of minimal changes: each sub-agent leaves three deliverables /tmp/mut/out_<id>/m1..m3.  Take them into
# seeded/<id>-<suffix>1..3, validate each (scratch worktree) and run the property's check against the agent's (clean) worktree
# with the patch applied, so that /repo is not touched while other runs read it.
# usage: tools/mutround3.sh <suffix> <id>...
suf=$1; shift
cd /verif || exit 2
for c in "$@"; do
  wt=/tmp/mut/wt_$c
  [ -d $wt ] || git -C /repo worktree add --detach -f $wt HEAD > /dev/null 2>&1
  git -C $wt checkout -- . 2>/dev/null
  for k in 1 2 3; do
    src=/tmp/mut/out_$c/m$k
    d=seeded/$c-$suf$k
    [ -f $src/patch.diff ] || { echo "$c m$k: deliverables missing"; continue; }
    mkdir -p $d
    cp $src/patch.diff $src/demo.py $src/meta.json $d/
    python3 - $d/meta.json $c <<'PY'
import json, sys
p, c = sys.argv[1:3]
try:
    m = json.load(open(p))
except Exception:
    m = {}
m['property'] = c
json.dump(m, open(p, 'w'), indent=1)
PY
    /venv/bin/python tools/mutcheck.py $d --validate --checks $c --record --repo $wt 2>&1 | grep -v WARNING | python3 -c "
import json,sys
o=json.load(sys.stdin)
print(o['mutation'].split('/')[-1], 'valid=%s' % (o.get('validated') or o.get('validation') or {}).get('valid'), {k:(c['rc'], [l[:230] for l in c['lines'] if l.startswith('  leg')][:1]) for k,c in o.get('checks',{}).items()})"
  done
  git -C /repo worktree remove --force $wt 2>/dev/null
done
