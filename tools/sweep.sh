#!/bin/bash
# Run every quick check under several seeds on the unchanged tree and list anything that is not a clean pass.
# usage: tools/sweep.sh seed...
cd /verif || exit 2
for s in "$@"; do
  VERIF_SEED=$s tools/run_all.sh quick 6 > work/sweep_$s.log 2>&1
  echo "seed $s: $(grep -c ' 0 violations' work/sweep_$s.log) clean, $(grep -c VIOLATIONS work/sweep_$s.log) with violations"
  grep "VIOLATIONS in" work/sweep_$s.log
  for f in $(grep "VIOLATIONS in" work/sweep_$s.log | sed 's/VIOLATIONS in //'); do cp $f work/sweep_${s}_$(basename $f); done
done
