#!/usr/bin/env python3
"""Record the content hash of every emsarray source file at the commit the checks were last validated against.
The checks compare /repo's working tree with this list on every run: when a source file differs (somebody changed the
code), the quick tier explores further (extra passes with fresh seeds) before it answers.  Never written at check time.
usage: tools/mkanchors.py"""
import hashlib
import json
import os
import subprocess

REPO = '/repo'
files = {}
for root, _, names in os.walk(f'{REPO}/src/emsarray'):
    for n in sorted(names):
        if n.endswith('.py'):
            p = os.path.join(root, n)
            files[os.path.relpath(p, REPO)] = hashlib.sha256(open(p, 'rb').read()).hexdigest()
commit = subprocess.run(['git', '-C', REPO, 'rev-parse', 'HEAD'], capture_output=True, text=True).stdout.strip()
dirty = subprocess.run(['git', '-C', REPO, 'status', '--porcelain', '--untracked-files=no', '--', 'src'],
                       capture_output=True, text=True).stdout.strip()
if dirty:
    raise SystemExit('refusing: /repo/src has uncommitted changes\n' + dirty)
json.dump({'commit': commit, 'files': dict(sorted(files.items()))}, open('/verif/anchors.json', 'w'), indent=1)
print(f'{len(files)} files at {commit[:7]}')
