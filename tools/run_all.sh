#!/bin/bash
# Run every registered check (tier $1, default quick) with up to $2 (default 6) in parallel and summarise.
# usage: tools/run_all.sh [quick|thorough] [jobs]
cd /verif || exit 2
tier=${1:-quick}; jobs=${2:-6}
ids=$(python3 -c "import json; print(' '.join(c['property_id'] for c in json.load(open('MANIFEST.json'))['checks']))")
mkdir -p work
printf '%s\n' $ids | xargs -P "$jobs" -I{} sh -c "./check {} $tier > work/all_{}.log 2>&1; echo \"{} rc=\$?\""
echo ---
grep -h "$tier:" work/all_C*.log | cut -c1-170
grep -l "^VIOLATION" work/all_C*.log | sed 's/^/VIOLATIONS in /'
exit 0
