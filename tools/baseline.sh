#!/bin/bash
# Run the repository's pinned test suite with the verification guard OFF and compare with BASELINE.json.
# usage: tools/baseline.sh [repo_dir]   (default /repo)
REPO=${1:-/repo}
OUT=$(mktemp -d /tmp/baseline.XXXXXX)
unset EMSARRAY_VERIF
cd "$REPO" || exit 2
PYTHONPATH="$REPO/src" /venv/bin/python -m pytest -ra -q -p no:cacheprovider --timeout=900 \
   --continue-on-collection-errors --junitxml="$OUT/junit.xml" > "$OUT/log.txt" 2>&1
/venv/bin/python - "$OUT/junit.xml" <<'PY'
import json, sys
import xml.etree.ElementTree as ET
base = json.load(open('/root/.vp/BASELINE.json'))
want = set(base['stable_pass'])
got = set()
for tc in ET.parse(sys.argv[1]).getroot().iter('testcase'):
    ok = not any(ch.tag in ('failure', 'error', 'skipped') for ch in tc)
    if ok:
        got.add(f"{tc.get('classname')}::{tc.get('name')}")
missing = sorted(want - got)
print(f'baseline stable_pass={len(want)} passing_now={len(got)} missing={len(missing)}')
for m in missing[:40]:
    print('  MISSING', m)
sys.exit(1 if missing else 0)
PY
rc=$?
rm -rf "$OUT"
exit $rc
