#!/bin/bash
# usage: goal.sh File.v LINE  -- show the goal just before LINE (1-based) of a Coq file in /verif/coq
f=$1; n=$2
head -n $((n-1)) "$f" > /tmp/_goal.v
echo "Show. Abort All." >> /tmp/_goal.v
cd /verif/coq && timeout 120 coqc -Q . EV /tmp/_goal.v 2>&1 | head -${3:-60}
