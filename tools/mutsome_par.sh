#!/bin/bash
# Run the named seeded changes (seeded/<name>) against the check of their own property, several in parallel, each in its own
# scratch worktree under /tmp/mutwt (removed afterwards).  usage: tools/mutsome_par.sh <jobs> <name>...
cd /verif || exit 2
jobs=$1; shift
mkdir -p /tmp/mutwt
one() {
  m=$1
  p=$(python3 -c "import json;print(json.load(open('seeded/$m/meta.json'))['property'])")
  wt=/tmp/mutwt/$m
  git -C /repo worktree add --detach -f $wt HEAD > /dev/null 2>&1
  /venv/bin/python tools/mutcheck.py seeded/$m --checks $p --repo $wt 2>&1 | grep -v WARNING | python3 -c "
import json,sys
try:
    o=json.load(sys.stdin)
    for k,c in o.get('checks',{}).items():
        print(('caught ' if c['rc'] else 'MISSED ') + o['mutation'].split('/')[-1], k, [l[:220] for l in c['lines'] if l.startswith('  leg')][:1])
except Exception as e:
    print('ERROR $m', e)"
  git -C /repo worktree remove --force $wt > /dev/null 2>&1
}
export -f one
printf '%s\n' "$@" | xargs -P $jobs -I{} bash -c "one {}"
