#!/usr/bin/env python3
"""Regenerate /verif/MANIFEST.json from the table below and validate it against the schema."""
import json
import os
import subprocess
import sys

V = '/verif'
TITLES = {}
for line in open(f'{V}/properties.jsonl'):
    p = json.loads(line)
    TITLES[p['id']] = p['title']

# pid -> (technique, level text, level note, design ref)
CHECKS = {
    'C01': (
        'Coq proof (bijection, totality, counting, row-major by induction over shapes) + vm_compute correspondence',
        'Theorems C01_* in coq/Props/C01.v prove, for every rank, shape with sizes >= 1, grid kind and index, that the '
        'model of ravel_index / wind_index / grid_size is a bijection between [0, size) and the in-range native indexes, '
        'rejects everything else and orders indexes row-major.  The model is tied to the code on every run by evaluating '
        'it inside Coq (vm_compute) on the same datasets, kinds, linear indexes (with a margin) and native indexes (a box '
        'one larger than the grid on every side, plus wrong arity) as dataset.ems.* and diffing the tables.',
        'Trusted: Coq kernel + vm_compute; hand-written model IndexConv.v (numpy.ravel_multi_index / unravel_index '
        'semantics are modelled); harness and generators.  Print Assumptions: closed under the global context.',
        'DESIGN.md section 4 C01'),
}

NOT_YET = 'check not built yet in this session (work in progress; the design in DESIGN.md section 4 applies)'


def main():
    checks = []
    for pid, (tech, text, note, ref) in sorted(CHECKS.items()):
        checks.append({
            'property_id': pid,
            'quick_cmd': f'./check {pid} quick',
            'thorough_cmd': f'./check {pid} thorough',
            'evidence_file': f'/verif/evidence/{pid}.json',
            'replay_cmd_template': f'./check {pid} --replay {{path}}',
            'engine': 'coq+correspondence',
            'level_claimed': {'category': 'proof', 'text': text, 'design_ref': ref},
            'level_note': note,
            'technique': tech,
        })
    na = [{'property_id': pid, 'reason': NOT_YET} for pid in sorted(TITLES) if pid not in CHECKS]
    extra_na = {}
    for e in na:
        if e['property_id'] in extra_na:
            e['reason'] = extra_na[e['property_id']]
    man = {
        'version': 1,
        'setup_cmd': './setup.sh',
        'hooks': {
            'guard': 'EMSARRAY_VERIF',
            'enable': 'no hooks are needed: every observation goes through the public API of /repo/src (PYTHONPATH); '
                      './check exports EMSARRAY_VERIF=1 for uniformity',
            'baseline_off_cmd': '/verif/tools/baseline.sh',
            'source_commits': [],
            'add_only': True,
        },
        'engines': [{
            'name': 'coq+correspondence',
            'path': '/verif/check',
            'serves_properties': sorted(CHECKS),
            'kind_free_text': 'Coq 8.16.1 theorems about hand-written Gallina models (coq/), the models evaluated by '
                              'coqc/vm_compute on generated inputs and diffed against emsarray run from /repo/src '
                              '(harness/), property predicates evaluated directly on the implementation as the '
                              'failing-input search',
        }],
        'checks': checks,
        'not_applicable': na,
        'notes': 'See DESIGN.md.  known_findings.json lists genuine defects (fixed or recorded); seeded/ holds '
                 'validated mutations and which checks catch them.',
    }
    with open(f'{V}/MANIFEST.json', 'w') as f:
        json.dump(man, f, indent=1)
    try:
        import jsonschema
        jsonschema.validate(man, json.load(open('/root/.vp/MANIFEST.schema.json')))
        print('MANIFEST.json valid;', len(checks), 'checks,', len(na), 'not_applicable')
    except ImportError:
        print('jsonschema unavailable; wrote MANIFEST.json unvalidated')


if __name__ == '__main__':
    main()
