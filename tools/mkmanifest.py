#!/usr/bin/env python3
"""Regenerate /verif/MANIFEST.json from the table below and validate it against the schema."""
import json
import os
import subprocess
import sys

V = '/verif'
TITLES = {}
for line in open(f'{V}/properties.jsonl'):
    p = json.loads(line)
    TITLES[p['id']] = p['title']

# pid -> (technique, level text, level note, design ref)
CHECKS = {
    'C01': (
        'Coq proof (bijection, totality, counting, row-major by induction over shapes) + vm_compute correspondence',
        'Theorems C01_* in coq/Props/C01.v prove, for every rank, shape with sizes >= 1, grid kind and index, that the '
        'model of ravel_index / wind_index / grid_size is a bijection between [0, size) and the in-range native indexes, '
        'rejects everything else and orders indexes row-major.  The model is tied to the code on every run by evaluating '
        'it inside Coq (vm_compute) on the same datasets, kinds, linear indexes (with a margin) and native indexes (a box '
        'one larger than the grid on every side, plus wrong arity) as dataset.ems.* and diffing the tables.',
        'Trusted: Coq kernel + vm_compute; hand-written model IndexConv.v (numpy.ravel_multi_index / unravel_index '
        'semantics are modelled); harness and generators.  Print Assumptions: closed under the global context.',
        'DESIGN.md section 4 C01'),
}

CHECKS.update({
    'C02': (
        'Coq proof (row-major position lemmas for every polygon / centre / flattened element, holes keep slots) + '
        'vm_compute correspondence',
        'Theorems C02_* prove for every grid shape and hole pattern that position n of the cell-by-cell enumerations '
        '(polygons, centres), of the flattened variable and of the spatial-index hits all denote the cell whose indexes are '
        'the row-major unravelling of n, and that dropping geometry never shifts a later cell.  Tied to the code per run: '
        'polygons and centres position by position against the model, every cell of every variable (flattened element vs '
        'select_index(wind_index(n)) vs the raw array at the model\'s index), STRtree hits vs the model.',
        'Trusted: Coq kernel; models Polygons.v / Flatten.v / Lookup.v / IndexConv.v; Geom predicates are executable '
        'specifications validated against GEOS per case; shapely polygon construction and STRtree are not modelled.',
        'DESIGN.md section 4 C02'),
    'C03': (
        'Coq proof (wind o ravel = id and ravel o wind = id through labelled get, fresh dimension by pigeonhole, refusal) + vm_compute correspondence',
        'Theorems C03_* prove for any rank, any position / order of the grid dimensions and any sizes that flattening then '
        'winding returns the original value under every labelling with the grid dimensions restored after the untouched '
        'other dimensions, that values are only moved (C03_ravel_get), that a variable on no grid is refused and that the '
        'default linear name is unused.  The same executable definitions are evaluated by coqc on generated variables (all '
        'permutations of <= 3 extra dimensions in the thorough tier, default / custom / colliding names, wind by position, '
        'axis and name, wind-then-ravel) and diffed against ems.ravel / ems.wind / utils.*.',
        'Trusted: Coq kernel; model Flatten.v (numpy transpose/reshape and xarray dims semantics are modelled). Both '
        'directions are theorems: C03_wind_ravel (flatten then wind) and C03_ravel_wind (wind then flatten, the linear '
        'dimension anywhere among the dimensions).',
        'DESIGN.md section 4 C03'),
    'C04': (
        'Coq proof (lowest-index hit for every hit order, parametric in the intersection predicate) + vm_compute correspondence',
        'Theorems C04_* prove for every polygon list with holes and every permutation in which the spatial index may '
        'report its hits that sort-and-take-first returns an intersecting cell with geometry, that no intersecting cell '
        'has a lower linear index, and that nothing is returned iff no cell meets the point.  Per run the model (exact '
        'rational point-in-polygon) and a polygon-by-polygon GEOS oracle are compared with get_index_for_point on vertices, '
        'edge midpoints, interior, just-outside and far points, each point looked up twice in different orders.',
        'Trusted: Coq kernel; the predicate `meets` is a parameter of the theorems; its instance Geom.pt_meets_ring is an '
        'executable specification validated against GEOS on every case; STRtree not modelled.',
        'DESIGN.md section 4 C04'),
    'C05': (
        'Coq proof (vectorised isel through labelled get; hit/miss bookkeeping for error/drop/fill) + vm_compute correspondence',
        'Theorems C05_* prove that row k of a selection is the stored value at the k-th requested index under any labelling '
        'of the other dimensions, which variables are kept, that error names exactly the misses, drop keeps the hits in '
        'request order under strictly increasing original labels, and fill keeps every row.  Per run the model is evaluated '
        'on generated index lists (repeats, any order, mixed/empty) and point lists (interior, boundary, misses; first point '
        'missing) and diffed against select_indexes / select_points / extract_points / extract_dataframe; values are also '
        'compared bit-for-bit with the raw arrays at the cell a polygon-by-polygon oracle assigns.',
        'Trusted: Coq kernel; model Select.v (xarray pointwise isel, pandas merge are modelled).',
        'DESIGN.md section 4 C05'),
    'C06': (
        'Coq proof (cell-wise polygon position per convention, hole iff missing coordinate or non-simple ring, corner = '
        'nanmean) + exact-rational vm_compute correspondence',
        'Theorems C06_* state per convention which coordinates form the polygon at each position, when a cell has none and '
        'what synthesised bounds are.  Per run the model computes every polygon exactly (rationals) from the generated '
        'coordinates and the implementation\'s polygons, mask, InvalidPolygonWarning, bounds and geometry are compared with '
        'it, with coordinate / bounds variables held as coordinates and as plain variables.  C06_cf2d/cf1d_bounds_accepted_iff, '
        '_refused_bounds_ignored, _accepted_bounds_used: a stored bounds variable is used exactly when it is laid out (y, x, 4) / '
        '(axis, 2), per coordinate; in any other layout it plays no part (never a transposed reading of the numbers); the '
        'model takes the stored layout and decides itself, datasets with refused layouts are generated in every run.',
        'Trusted: Coq kernel; model Polygons.v; ring_simple is an executable specification of shapely.is_valid validated per '
        'case; unary_union is GEOS (geometry compared with the union of the polygons by shapely.equals).',
        'DESIGN.md section 4 C06'),
})

CHECKS.update({
    'C07': (
        'Coq proof (blur = Chebyshev dilation, ring composition, smear = incident faces, node-sharing buffer, contiguous '
        'renumbering, monotonicity) + exhaustive vm_compute correspondence of the primitives',
        'Theorems C07_* prove for every array shape, buffer size, mesh and face subset that blur_mask as coded is dilation by '
        'the eight-neighbour ball (and s+1 rings = s rings then one), that smear marks exactly the edges / nodes of marked '
        'faces with the right shapes, that buffer_faces adds exactly the node-sharing faces in face order, that kept elements '
        'are renumbered contiguously in original order, and that enlarging mask or buffer never unmarks.  Per run: every boolean '
        'array of the listed shapes (bit-pattern enumeration, all sizes / pad_axes) is pushed through masking.blur_mask / '
        'smear_mask and the model; make_clip_mask of every convention x generated geometries x buffers and mesh face subsets '
        'are compared with the model and with an independent dilation / ring oracle.',
        'Trusted: Coq kernel; models Mask.v / UMask.v; which cells meet the geometry comes from Geom predicates validated '
        'against GEOS per case (monotonicity in the geometry is therefore checked per case, not proved).',
        'DESIGN.md section 4 C07'),
})

CHECKS.update({
    'C10': (
        'Coq proof (codec round trip for every encoding; soundness of the verified topology checker) + vm_compute correspondence',
        'Theorems C10_* prove that decoding what a writer stored gives back the faces for every encoding (0/1-based, NaN / '
        '_FillValue attribute / no fill, either dimension first) and that the executable checker topology_okb accepts only '
        'tables in which a face\'s k-th edge joins its k-th consecutive node pair, the edge list is duplicate-free and covers '
        'exactly the sides of the faces, an edge lists exactly the faces containing it and adjacency is symmetric and means '
        'sharing an edge.  Per run each generated mesh is written under every encoding and with sampled / all 16 subsets of '
        'the optional tables; face_node_array must equal the mesh, supplied tables must be used as given, the raw stored cells '
        'are decoded by the model and diffed, the implementation\'s five tables go through the verified checker (edge numbering '
        'of derived tables is Python-set order, so they are validated against the relation) and the derivations that are '
        'deterministic given their inputs (face_edge from edge_node, edge_face from face_edge, face_face from edge_face) are '
        'compared exactly with the model.  C10_derived_face_edge / edge_face / face_face prove that those three '
        'derivations, as modelled from the code, always produce tables the relation accepts (for every valid face and edge list).  '
        'C10_fill_is_no_element / C10_decimal_digits (model Fill.v) prove that the all-nines value marking a missing entry in the '
        'normalised tables is the number of no node, face or edge; sensible_fill_value is compared with the model per mesh and on '
        'counts of every magnitude.',
        'Trusted: Coq kernel; model Topology.v; python restatement of the relation (cross-checked against the verified '
        'checker per case).  Without any edge dimension (none declared or implied) the code refuses edge-based tables; that is '
        'outside the property\'s quantifier and only counted.',
        'DESIGN.md section 4 C10'),
})

CHECKS.update({
    'C12': (
        'Coq proof (argmax of the running valid count = last valid layer; orientation independence through the normalisation model; static floor) + vm_compute correspondence',
        'Theorems C12_* prove for every column (any length, gaps, fully dry) that the index computed as coded (cumsum of the '
        'validity indicator with NaN skipped, argmax with first-maximum tie-break) is the last layer holding data, or 0 with a '
        'missing result when nothing is valid; that for each of the four encodings {up, down} x {deep-first, surface-first} of '
        'the same physical column normalise-then-reduce returns the floor value of the physical column; and that under a '
        'static floor the index taken from the reference variable is every variable\'s own floor (with the moving-floor '
        'behaviour documented by a _refuted witness).  Per run: generated datasets of every convention with one or two depth '
        'dimensions, one or two coordinates per dimension, every orientation, variables on every grid kind with the depth '
        'dimension anywhere, floors from dry to fully wet with gaps, through operations.depth.ocean_floor and the accessor; '
        'every reduced column is compared with the deepest physically valid value and with the model; untouched variables, '
        'removed depth dimensions / coordinates, unchanged polygons and purity are checked on the implementation.  Model '
        'FloorPlan.v holds the loops of ocean_floor over depth dimensions, data variables and dimension sets: '
        'C12_other_variables_untouched, C12_every_depth_variable_reduced (none skipped or dropped; reduced at the floor of the '
        'first data variable on the same depth and horizontal dimensions), C12_group_shares_reference, '
        'C12_depth_dimensions_removed and C12_depth_dimension_order_irrelevant (the code visits them in hash order); per run the '
        'variables present in the result and their dimension sets are compared with the model plan (datasets also hold variables '
        'along a depth dimension only, which go with the dimension).  Model DepthCoord.v holds which variables the accessor '
        'hands to ocean_floor as depth coordinates (Convention.depth_coordinates, depth_coordinate, '
        'get_depth_coordinate_for_data_array, get_grid_kind, and the fixed-name lookups of the SHOC conventions): '
        'C12_depth_coordinates_spec (marked by one of five attributes and on no grid, dataset order), '
        'C12_bathymetry_is_not_a_depth_coordinate, C12_depth_markers (each marker suffices; positive read without regard to '
        'case), C12_grid_kind, C12_default_depth_coordinate (least size, first of the smallest), '
        'C12_depth_coordinate_for_array (unique fit, two that fit are refused), C12_shoc_depth_coordinates (fixed order, file '
        'order irrelevant); per run datasets of six families carrying variables with every mixture of the markers on and off '
        'the grids are asked all four questions and compared with the model.',
        'Trusted: Coq kernel; models Depth.v (xarray cumsum(skipna) / argmax / isel semantics modelled), FloorPlan.v (the '
        'order of dimensions within a reduced variable is left to xarray and compared as a set) and DepthCoord.v (attribute '
        'strings as ASCII codes: str.lower modelled on ASCII only, which is what is generated).',
        'DESIGN.md section 4 C12'),
    'C13': (
        'Coq proof (loop invariant over the depth coordinates of a dimension: rows, physical depths and bounds reversed together; order; idempotence) + vm_compute correspondence',
        'Theorems C13_* prove for any number of depth coordinates sharing a dimension that normalisation keeps or reverses the '
        'data rows, every coordinate\'s physical depths and its bounds together, records the requested sign, and for a '
        'monotone coordinate with >= 2 levels establishes the requested order, is idempotent, never fails, and is the identity '
        'when both options are unset.  Per run all 9 option pairs are applied (twice) to generated datasets of every '
        'convention (positive attribute present / guessed, bounds, dimension coordinate or not, a second coordinate on the '
        'same dimension), through the function and the accessor; coordinates, attributes, bounds and level tags are diffed '
        'against the model, and sign, order, association of data with physical depth, bounds, idempotence and purity are '
        'evaluated directly on the implementation.',
        'Trusted: Coq kernel; model Depth.v.  C13_order / C13_idempotent are stated for a dimension with one depth '
        'coordinate (with several, the last one processed decides the order - the multi-coordinate loop is covered by '
        'C13_association and by correspondence).',
        'DESIGN.md section 4 C13'),
})

CHECKS.update({
    'C17': (
        'Coq proof (offset format / cftime zone reading round trip for every offset in (-24h, 24h); shape of the rendered string) + vm_compute correspondence + netCDF save/reopen differential',
        'Theorems C17_* prove that the offset as the (repaired) code writes it is read back exactly by the model of cftime\'s zone '
        'parser for every offset strictly between -24 h and +24 h, that the whole string has the form "<unit> since YYYY-MM-DD '
        'HH:MM:SS [+-]HH:MM", that a reader honouring it resolves the same UTC instant, and (as _refuted witnesses) that the '
        'formatter as it was before fix db07e4e fails at -09:30 and +05:00.  Per run: every 15-minute offset -12:00..+14:00 x '
        'periods x epochs x six spellings goes through format_time_units_for_ems and is compared character by character with '
        'the model, matched against the EMS form and re-read with cftime against an independently computed UTC instant; datasets '
        'of every convention are written (fill values none / -999 / 0, float or packed int16), reopened, saved through '
        'dataset.ems.to_netcdf (time encoded as read, with an integer dtype that forces xarray to re-base, or overridden by '
        'the caller) and reopened: convention, polygons, every value, every instant, raw _FillValue / missing_value attributes '
        'and the units string; the time axis carries no bounds, bounds inheriting its units, or bounds with units of their '
        'own.  C17_time_coordinate_* (model TimeCoord.v of Convention.time_coordinate): the variable taken for the time '
        'coordinate is the first decoded time variable that is not the bounds of another variable, wherever the bounds are '
        'listed (the _refuted witness documents the defect repaired in 171c774); compared per run with the implementation.  '
        'C17_no_fill_value_gained / C17_fixup_minimal / C17_fixup_idempotent (model SaveFixes.v of disable_default_fill_value and '
        'the rule by which the writer picks a fill value): every variable, coordinates included, is written with exactly the '
        'fill value its source declared; the _refuted witnesses show the fix-up is needed and needed on coordinates; the '
        '_FillValue attributes of every saved file are compared with the model per run.',
        'Trusted: Coq kernel; models TimeUnits.v, TimeCoord.v, SaveFixes.v (the writer\'s rule - encoding entry, then attribute, '
        'then NaN for types that have one - is xarray\'s, modelled and compared per run).  PARTIAL: calendar arithmetic (cftime, datetime), the netCDF write/read and '
        'xarray\'s CF encoding are not modelled - the file round trip is established per run only.  parse_zone is a model of '
        'cftime\'s zone-designator reading validated by probing and by the per-run re-read.',
        'DESIGN.md section 4 C17'),
})

CHECKS.update({
    'C20': (
        'Coq proof (bounds recogniser = the declarative grammar, both directions; three commas; no other characters; exit statuses) + vm_compute correspondence + CLI-vs-library differential runs',
        'Theorems C20_* prove that the model of bounds_re.fullmatch accepts a string exactly when the whole string is four '
        'decimals (NUMBER, NUMBER., .NUMBER, NUMBER.NUMBER with optional minus and single inner underscores) separated by '
        'commas with optional white space around the commas, hence that it contains exactly three commas, that appending a '
        'fifth field is rejected, that no other character can occur, that every failure maps to a non-zero exit status and '
        'what guess_format returns for every extension.  Per run: grammar strings and 28 near misses of each go through '
        'geometry_argument / bounds_argument and the model (acceptance and the exact rational value of each field); GeoJSON '
        'strings and files with and without bbox members, unsupported / missing / malformed inputs; clip, extract-points '
        '(hits, misses first / in the middle, empty spreadsheet rows x error / drop / fill) and export-geometry (explicit and '
        'guessed formats) are run in-process through emsarray.cli.main on datasets written to disk and compared with the '
        'library calls: file bytes or reopened dataset content, exit status, and absence of partial output on failure.',
        'Trusted: Coq kernel; model CliArgs.v (ASCII only: Python\'s \\d and \\s also match non-ASCII digits and blanks, '
        'which the generators do not produce).  PARTIAL: that each command equals its library call is a differential run '
        '(implementation against implementation), not a theorem; argparse is not modelled.',
        'DESIGN.md section 4 C20'),
})

CHECKS.update({
    'C11': (
        'Coq proof (stable descending sort head = earliest most specific match; registered-first dedupe; binding state machine invariants by induction over op histories) + vm_compute correspondence',
        'Theorems C11_* prove, for any check function and any registration, that the class chosen by the model of '
        'registry.guess_convention matches, that no matching class is more specific, that every class listed before it is '
        'strictly less specific, that nothing is chosen iff nothing matches, that a manually registered class is never beaten '
        'on a tie by an entry-point class, that SHOC markers exclude the generic CF classes and that UGrid needs the marker and '
        'a 2-D mesh variable; and for the binding state machine (access / construct+bind / copy), by induction over all '
        'histories, that a binding once made stays, later accesses return that object and change nothing, a second '
        'attachment is refused, a copy is fresh and independent and no object is shared by two datasets.  Per run: datasets of '
        'every convention and their near misses x registration orders of synthetic conventions against the model and against '
        '"most specific, earliest listed" computed on the implementation; every op sequence up to length 3 (thorough 4) plus '
        'random longer ones on detectable and undetectable datasets, object identities canonicalised by order of creation.',
        'Trusted: Coq kernel; model Registry.v.  The feature extraction (which CF markers / attributes a dataset carries) is a '
        'python restatement of the documented detection rules; importlib.metadata entry-point order is read at run time and '
        'passed to the model; xarray\'s per-object accessor cache is not modelled.',
        'DESIGN.md section 4 C11'),
})

CHECKS.update({
    'C16': (
        'Coq proof (int32 / length-prefixed string codes, injectivity of the per-variable encoding and of the whole stream for equal ranks; single-edit corollaries) + byte-exact vm_compute correspondence',
        'Theorems C16_* prove that the byte stream fed to the hash (per geometry variable: length-prefixed name and dtype '
        'name, int32 size and shape, raw C-order bytes, marshal version, attribute count, length-prefixed attribute bytes; '
        'then module, class and version) determines every geometry variable and the convention whenever the inventories have '
        'the same ranks, hence that any single edit of a name, dtype, same-rank shape, value or attribute byte, or of the '
        'convention, changes the stream.  Per run the exact stream is captured with a recording hash object and compared byte '
        'for byte with the model evaluated in Coq on an independent reading of the geometry variables; non-geometry edits '
        '(data variables, global attributes, time steps, Fortran memory layout) must leave it unchanged, each listed geometry '
        'edit must change it, the inventory is compared with the generator\'s knowledge of the geometry variables, and keys '
        'of files are recomputed in fresh interpreters with PYTHONHASHSEED 0 / 1 / random.  C16_remembered_results_sound / C16_coarse_key_refuted (generic model Memo): results remembered under a key are answered as fresh in every session iff the key separates requests with different answers.',
        'Trusted: Coq kernel; model CacheKey.v (ASCII names).  PARTIAL: key inequality additionally needs BLAKE2b collision '
        'resistance; attribute serialisation is CPython marshal (its dependence on object state is the recorded known finding '
        'cache-key-marshal-object-state); the rank is not length-prefixed, so simultaneous edits of rank, data and attribute '
        'bytes are outside what is proved.',
        'DESIGN.md section 4 C16'),
})

CHECKS.update({
    'C15': (
        'Coq proof (export list = cells with polygons in increasing linear order, each with its own index and polygon; recorded native index ravels back to the cell) + vm_compute correspondence + file round trips through independent readers',
        'Theorems C15_* prove for every polygon list and hole pattern that the exported features are exactly the cells that '
        'have a polygon, in strictly increasing linear order, each carrying the index and polygon of its own cell, and (with '
        'C01) that the recorded native index identifies that same cell.  Per run every dataset (holes, invalid cells, 11x12 '
        'grids whose native indexes have different printed widths, coordinates scaled by 1/3 so they need 16-17 significant '
        'digits) is exported in the four formats, each file is read back with an independent reader (json, pyshp, shapely) '
        'and compared with the model list (positions, native indexes) and with the dataset polygons coordinate by coordinate '
        '(bit patterns, up to start vertex and ring orientation); the command line tool is run on files whose missing '
        'coordinates are stored with a fill value and its output compared byte for byte with the library\'s.',
        'Trusted: Coq kernel; model Export.v / IndexConv.v.  PARTIAL: the serialisers (json/geojson, pyshp, GEOS WKT/WKB) are '
        'not modelled; the file round trip is established per run only.',
        'DESIGN.md section 4 C15'),
    'C19': (
        'Coq proof (selecting polygons and values with the same mask keeps them paired; plotted pair iff same cell; colour limits attained and bounding; arrows position-wise) + vm_compute correspondence',
        'Theorems C19_* prove for every mask, polygon list and value list that compressing both with the same mask yields '
        'the pairs (polygon of n, value of n) of exactly the cells with geometry, in order, that the default colour limits '
        'are attained by plotted values and bound all of them, and that position n of a quiver is cell n.  Per run the '
        'PolyCollection paths / array / clim and the Quiver X, Y, U, V and transforms are read back from the matplotlib '
        'artists for datasets with and without holes, variables by name or array with dimensions in any order, user array / '
        'clim / transform overrides, and a leftover dimension (must be refused); values are cell tags so a permutation '
        'cannot hide.  Model PlotArgs.v holds what make_poly_collection / make_quiver draw or refuse as decided by their '
        'arguments: C19_values_only_from_the_cells_grid, C19_leftover_dimension_refused, C19_other_grid_refused (a variable '
        'on mesh nodes or edges is refused however many locations that grid has - the statement that exposed the defect '
        'repaired by e11dbf7), C19_user_overrides, C19_quiver_components; per run every kind of variable (on the cells, on '
        'another grid, with a leftover dimension, on no grid) x array / clim / transform supplied or not is put to both '
        'functions and the outcome class compared with the model; a mesh with as many nodes as faces and cells wider than '
        'half a turn are in every run.',
        'Trusted: Coq kernel; models Export.v, PlotArgs.v (exceptions mapped to outcome classes by type and message).  '
        'PARTIAL: matplotlib itself (rendering, transforms, its own colour autoscaling) is not modelled.',
        'DESIGN.md section 4 C19'),
})

CHECKS.update({
    'C08': (
        'Coq proof (crop box tight and containing every selected cell; selected value kept at the shifted index for every other index; unselected cell = fill; unmaskable cropped only; mesh rows = rows of the kept elements in order) + vm_compute correspondence + netCDF clip flows',
        'Theorems C08_* prove for every mask, every variable (any extra dimensions) and every fill that the crop box computed '
        'as coded contains every selected cell and touches one on each side, that a selected cell keeps its value at its index '
        'minus the crop offset, that an unselected cell of the crop holds the fill, that a variable without fill is cropped '
        'only, and for meshes that the clipped rows are the rows of the kept elements in increasing order.  Per run datasets '
        'of every convention are written to netCDF and reopened (some with mask_and_scale=False), clipped with generated '
        'geometries and buffers directly or with a mask saved, reloaded and applied to a second dataset with other data; every '
        'variable (float, int, int with _FillValue incl. 0, int with missing_value, any grid kind, extra dimensions in any '
        'position, non-spatial, coordinates, attributes) is compared with what the property demands, computed independently '
        'from the mask, and the crop plan / kept elements are compared with the model.  Model AttrMerge.v holds utils.dataset_like / _update_no_clobber for the attributes and encoding of a variable of the '
        'reassembled dataset: C08_attributes_pass_through, C08_update_no_clobber (and, in C09, C09_result_can_be_saved with '
        'C09_old_dataset_like_refuted for the code before d4bc755); per run 60 (600) sample / reassembled pairs with every mixture '
        'of names held as attribute or encoding entry are put through utils.dataset_like and compared with the model.',
        'Trusted: Coq kernel; model Clip.v.  PARTIAL: the netCDF write / open_mfdataset round trip inside apply_clip_mask is '
        'not modelled (values are compared after it, under xarray\'s default decoding).',
        'DESIGN.md section 4 C08'),
    'C09': (
        'Coq proof (updated connectivity rows = kept rows entrywise renumbered; references in range; renumbered node keeps its coordinates hence kept faces keep their polygon; dropped element has no new index) + vm_compute correspondence + clip / save / reopen flows',
        'Theorems C09_* prove that the rows of an updated connectivity table are the rows of the kept elements in order with '
        'every entry mapped through the column table, that every entry is a surviving element under the new numbering or '
        'fill, that a kept node renumbered through the table still has its coordinates (so each selected face has exactly '
        'its original polygon) and that a dropped element gets no new index.  Per run the clips of C08 are inspected: same '
        'convention class, also after saving and reopening; polygons of selected cells equal to the originals and no new '
        'polygon where geometry is stored explicitly; every connectivity variable of the input present, equal to the model, '
        'consistent with the others (relation of C10), same integer type and start_index in the saved file; '
        'select_variables on subsets of the data variables (bounds as plain variables and as coordinates) leaves polygons '
        'and convention identical.  Model Fill.v holds the choice of the value that stands for a missing entry in a clipped '
        'integer table (all nines beyond every count, fitted to the stored type): C09_fill_fits_stored_type, '
        'C09_entries_survive_signed / _unsigned prove that every entry written is read back as the element it names and every '
        'missing entry as missing (for unsigned types while the type has a spare value), C09_old_fill_refuted carries the '
        'witness of the defect repaired by 524840a; per run the fill stored in every saved table is compared with the model and '
        'meshes stored as int8 / int16 / uint8 / uint16, some using every positive value of the type, are clipped and reopened.  '
        'Model GeomNames.v holds get_all_geometry_names of the three convention families, select_variables and drop_geometry: '
        'C09_select_variables_spec (the subset = asked for + geometry + depth + time, dataset order, every geometry variable '
        'survives, an unknown name is refused), C09_subset_has_the_same_geometry_variables (no bounds variable lost or gained), '
        'C09_select_idempotent_drop_exact, C09_mesh_geometry_variables; per run the names, the variables of subsets (asked by name '
        'or as arrays, unknown names included) and what drop_geometry leaves are compared with the model on datasets of every '
        'convention with depth and time coordinates.',
        'Trusted: Coq kernel; models Clip.v / UMask.v / Topology.v / Fill.v / GeomNames.v.  PARTIAL: save / reopen and convention detection of the '
        'result are established per run only; polygons are compared only where geometry is stored explicitly (bounds, nodes) '
        'as the property states.',
        'DESIGN.md section 4 C09'),
})

CHECKS.update({
    'C14': (
        'Coq proof (n-2 triangles for fan and every ear-clipping run; signed areas add up to the cell area by the shoelace ear identity; corners are cell vertices; vertex table without duplicates, complete, lookups valid) + exact rational checker and vm_compute correspondence per run',
        'Theorems C14_* prove for every ring that the triangulation as coded (fan for strictly convex cells, ear clipping '
        'scanning i = 0.. with the boundary / midpoint ear test otherwise) yields n-2 triangles whenever it returns, that '
        'their signed areas add up to the signed area of the cell for the fan and for every clipping sequence, that every '
        'corner is a vertex of the cell, and that the vertex table has no duplicates, contains every cell coordinate and '
        'resolves every lookup.  Per run every cell of generated datasets (holes, invalid cells, synthesised bounds with '
        'repeated vertices) and of single-face meshes of eight special shapes in every rotation and both windings, placed '
        'after a cell without geometry, is triangulated by emsarray; the triangles go through the exact rational checker '
        'partition_okb evaluated in Coq (count, orientation, non-degenerate, on cell vertices, inside the cell, pairwise '
        'interior-disjoint, areas adding up) and are compared one by one with the model triangulation; tags, vertex '
        'indices and duplicates are checked on the implementation.',
        'Trusted: Coq kernel; models Triangulate.v / Geom.v (Geom predicates are executable specifications).  PARTIAL, said '
        'plainly: that an ear always exists (two-ears theorem) and that inside + interior-disjoint + equal area means exact '
        'cover are classical geometry not formalised here; the exact-cover claim is decided per run by the checker on the '
        'implementation\'s output and by correspondence, not by a closed theorem (C14_partition_partial).',
        'DESIGN.md section 4 C14'),
})

CHECKS.update({
    'C18': (
        'Coq proof (start <= end, stable lexicographic ordering by (start, end) as a sorted permutation, contiguous pieces telescope, prepared data column k = column of piece k\'s cell) + exact rational clipping oracle and vm_compute correspondence of the ordering',
        'Theorems C18_* prove for every list of path pieces that each listed piece has start <= end, that the listing is '
        'sorted by (start, end) and is a permutation of the pieces (none lost or invented), that each names the cell of a '
        'piece, that contiguous pieces telescope to (last end - first start), and that column k of the data prepared for '
        'plotting is the column of piece k\'s cell; C18_measured_from_last_vertex_before, _picked_vertex_starts_the_leg, '
        '_every_point_measured, _accumulated_monotone and _path_order_is_distance_order (model TransectDist.v of Transect.points / '
        'distance_along_line) prove that a point is measured from the last path vertex at or before it, that accumulated '
        'distances never decrease, and hence that order along the path is order of the reported distance.  Per run an exact rational oracle clips every leg of generated simple '
        'polylines (across, inside / outside ends, bends that leave and re-enter, along a cell edge in either direction, '
        'through a vertex, missing) against every cell of generated grids and meshes with holes; the implementation\'s '
        'pieces must cover per cell exactly the same part of the path (coordinates within 1e-9 degrees), lie within their '
        'cell, name its linear and native index, be listed by increasing distance, share their distance where they meet, '
        'and be ordered as the model orders the exact positions; the vertex each end of a piece is measured from is '
        'computed by the model from the vertices\' normalised positions and the reported distance must be that vertex\'s '
        'distance plus the geodesic distance from it; prepare_data_array_for_transect is compared with the raw '
        'array at every depth.',
        'Trusted: Coq kernel; model Transect.v; the python clipping oracle (exact Fractions).  PARTIAL: containment and '
        'coverage are decided per run against the oracle with a 1e-9 degree tolerance (GEOS constructs the cut points in '
        'floating point); metre distances come from cartopy / pyproj projections that are not modelled: every piece\'s start '
        'and end distance is compared per run (1e-6 relative) with the geodesic distance accumulated per path vertex '
        '(pyproj.Geod), on datasets at the equator and at 56N+, in addition to order, start <= end and equality where pieces '
        'meet; cfunits is replaced by a stand-in (udunits2 is absent from this sandbox) and, because this sandbox\'s cartopy / '
        'PROJ pair mis-projects PlateCarree latitudes (DESIGN.md section 14), the point projection is taken from the geodetic '
        'form of the same CRS when that fault is detected.',
        'DESIGN.md section 4 C18'),
})

NOT_YET = 'check not built yet in this session (work in progress; the design in DESIGN.md section 4 applies)'


def main():
    checks = []
    shared = {'C01', 'C02', 'C03', 'C04', 'C05', 'C06', 'C07', 'C10', 'C11', 'C12', 'C13', 'C14', 'C15', 'C18', 'C19'}
    added = {
        'C01': '  Every question is asked again after the dataset was used in bulk (geometry exported, spatial index built, every '
               'cell located): the answers, refusals included, must be what they were; meshes with a named but unused edge dimension '
               'whose edges are known through a face_edge table only, and one- and two-cell meshes without a face_dimension attribute, '
               'are fixed inputs.',
        'C13': '  The accessor\'s choice of "all depth coordinates" is compared per run with model DepthCoord.v (theorems in '
               'Props/C12.v) on datasets carrying every mixture of the depth markers on and off the grids; the shared leg observes the '
               'bounds of a dimension coordinate as well.',
        'C16': '  Geometry held in less common ways - CF grids opened with decode_coords=\'all\' (bounds named in the encoding), a mesh '
               'with a face_edge table and no edge_dimension attribute - must be in the inventory, and a one-value edit of it must '
               'change the hashed bytes.',
        'C17': '  Datasets assembled in memory (time units without a stored dtype, records on fractions of the unit) are saved through '
               'the convention: no variable gains a fill value, the units have the EMS form, the instants are kept.',
    }
    for pid, (tech, text, note, ref) in sorted(CHECKS.items()):
        text += added.get(pid, '')
        if pid in shared:
            text += ('  Shared leg (harness/traits.py, DESIGN section 14): the same generated content held lazily from a file, '
                     'undecoded (mask_and_scale=False, signed and unsigned padding), in dask chunks, derived from an opened file, '
                     'big-endian, as transposed views, in mixed precision, with narrow tables, with its convention made explicitly from the '
                     'documented keyword options, with an x-major first variable, opened with decode_coords=\'all\', with permuted index labels '
                     'on its grid dimensions and with its geometry variables held as coordinates is observed through this '
                     'property\'s entry point and must be answered as its plain in-memory holder is; the cells involved are '
                     'compared with the coordinate model of C06.  History part: the same question again on the same object, after '
                     'other datasets (same shape and names; a near twin) were processed, after other questions - some refused - were '
                     'asked first, after the data were replaced in place, and against a fresh interpreter; the dataset asked about is '
                     'left as it was.')
        checks.append({
            'property_id': pid,
            'quick_cmd': f'./check {pid} quick',
            'thorough_cmd': f'./check {pid} thorough',
            'evidence_file': f'/verif/evidence/{pid}.json',
            'replay_cmd_template': f'./check {pid} --replay {{path}}',
            'engine': 'coq+correspondence',
            'level_claimed': {'category': 'proof', 'text': text, 'design_ref': ref},
            'level_note': note,
            'technique': tech,
        })
    na = [{'property_id': pid, 'reason': NOT_YET} for pid in sorted(TITLES) if pid not in CHECKS]
    extra_na = {}
    for e in na:
        if e['property_id'] in extra_na:
            e['reason'] = extra_na[e['property_id']]
    man = {
        'version': 1,
        'setup_cmd': './setup.sh',
        'hooks': {
            'guard': 'EMSARRAY_VERIF',
            'enable': 'no hooks are needed: every observation goes through the public API of /repo/src (PYTHONPATH); '
                      './check exports EMSARRAY_VERIF=1 for uniformity',
            'baseline_off_cmd': '/verif/tools/baseline.sh',
            'source_commits': [],
            'add_only': True,
        },
        'engines': [{
            'name': 'coq+correspondence',
            'path': '/verif/check',
            'serves_properties': sorted(CHECKS),
            'kind_free_text': 'Coq 8.16.1 theorems about hand-written Gallina models (coq/), the models evaluated by '
                              'coqc/vm_compute on generated inputs and diffed against emsarray run from /repo/src '
                              '(harness/), property predicates evaluated directly on the implementation as the '
                              'failing-input search',
        }],
        'checks': checks,
        'not_applicable': na,
        'notes': 'See DESIGN.md.  known_findings.json lists genuine defects (fixed or recorded); seeded/ holds '
                 'validated mutations and which checks catch them.',
    }
    with open(f'{V}/MANIFEST.json', 'w') as f:
        json.dump(man, f, indent=1)
    try:
        import jsonschema
        jsonschema.validate(man, json.load(open('/root/.vp/MANIFEST.schema.json')))
        print('MANIFEST.json valid;', len(checks), 'checks,', len(na), 'not_applicable')
    except ImportError:
        print('jsonschema unavailable; wrote MANIFEST.json unvalidated')


if __name__ == '__main__':
    main()
