#!/bin/bash
# Run checks against an already validated seeded mutation and record the outcome.  usage: tools/mutrun.sh <seeded-dir-name> <check>...
cd /verif || exit 2
m=$1; shift
/venv/bin/python tools/mutcheck.py seeded/$m --checks "$(echo "$@" | tr " " ,)" --record 2>&1 | grep -v WARNING | python3 -c "
import json,sys
o=json.load(sys.stdin)
print(o['mutation'].split('/')[-1], {k:(c['rc'], [l[:230] for l in c['lines'] if l.startswith('  leg')][:1]) for k,c in o.get('checks',{}).items()})"
git -C /repo status --short | grep -v egg-info
exit 0
