#!/usr/bin/env python3
"""Validate a seeded mutation and run checks against it.

usage: mutcheck.py <mutation_dir> [--validate] [--checks C01,C03] [--tier quick]
  --validate : in a scratch worktree: patch applies, baseline still passes, demo fails with / passes without
  --checks   : apply the patch to /repo, run ./check for each property, undo the patch (always)
"""
import argparse
import json
import os
import subprocess
import sys
import tempfile
import time


def sh(cmd, **kw):
    return subprocess.run(cmd, shell=True, capture_output=True, text=True, **kw)


def validate(mdir):
    wt = tempfile.mkdtemp(prefix='val-', dir='/tmp')
    os.rmdir(wt)
    out = {}
    try:
        r = sh(f'git -C /repo worktree add -q --detach {wt} HEAD')
        assert r.returncode == 0, r.stderr
        env = f'TREE={wt} PYTHONPATH={wt}/src'
        r = sh(f'cd {wt} && {env} timeout 600 /venv/bin/python -W ignore {mdir}/demo.py')
        out['demo_pristine_rc'] = r.returncode
        r = sh(f'git -C {wt} apply {mdir}/patch.diff')
        out['apply_rc'] = r.returncode
        if r.returncode != 0:
            out['apply_err'] = r.stderr[-500:]
            return out
        r = sh(f'/verif/tools/baseline.sh {wt}')
        out['baseline'] = r.stdout.strip().splitlines()[0] if r.stdout.strip() else r.stderr[-300:]
        out['baseline_rc'] = r.returncode
        r = sh(f'cd {wt} && {env} timeout 600 /venv/bin/python -W ignore {mdir}/demo.py')
        out['demo_mutated_rc'] = r.returncode
        out['demo_mutated_tail'] = (r.stdout + r.stderr)[-400:]
        out['valid'] = (out['demo_pristine_rc'] == 0 and out['baseline_rc'] == 0 and out['demo_mutated_rc'] != 0)
    finally:
        sh(f'git -C /repo worktree remove --force {wt}')
    return out


def run_checks(mdir, checks, tier, repo='/repo'):
    res = {}
    st = sh(f'git -C {repo} status --porcelain --untracked-files=no').stdout.strip()
    assert st == '', f'{repo} not clean: {st}'
    r = sh(f'git -C {repo} apply {mdir}/patch.diff')
    assert r.returncode == 0, r.stderr
    try:
        for c in checks:
            t = time.time()
            r = sh(f'cd /verif && VERIF_REPO={repo} VERIF_COQCHK=0 ./check {c} {tier}')
            lines = [l for l in r.stdout.splitlines() if l.startswith(('VIOLATION', 'KNOWN-FINDING', '  leg='))]
            res[c] = {'rc': r.returncode, 'lines': lines[:6], 'wall_s': round(time.time() - t, 1)}
    finally:
        sh(f'git -C {repo} checkout -- .')
    return res


def main():
    ap = argparse.ArgumentParser()
    ap.add_argument('mdir')
    ap.add_argument('--validate', action='store_true')
    ap.add_argument('--checks', default='')
    ap.add_argument('--tier', default='quick')
    ap.add_argument('--record', action='store_true')
    ap.add_argument('--repo', default='/repo', help='tree to patch and check (default /repo; a scratch worktree for regressions)')
    a = ap.parse_args()
    mdir = os.path.abspath(a.mdir)
    out = {'mutation': mdir}
    if a.validate:
        out['validation'] = validate(mdir)
    if a.checks:
        out['checks'] = run_checks(mdir, a.checks.split(','), a.tier, a.repo)
    if a.record:
        mp = os.path.join(mdir, 'meta.json')
        try:
            meta = json.load(open(mp))
        except Exception:
            meta = {}
        if 'validation' in out:
            meta['validated'] = out['validation']
        if 'checks' in out:
            runs = meta.setdefault('check_runs', {})
            for c, r in out['checks'].items():
                runs[c] = {'tier': a.tier, 'rc': r['rc'], 'lines': r['lines'][:4]}
            meta['caught_by'] = sorted(c for c, r in runs.items() if r['rc'] == 1)
            meta['what_was_run'] = ('tools/mutcheck.py: scratch worktree (patch applies, baseline.sh passes, demo fails '
                                    'with / passes without); then git -C /repo apply, ./check <id> <tier>, git checkout')
        json.dump(meta, open(mp, 'w'), indent=1)
    print(json.dumps(out, indent=1))


if __name__ == '__main__':
    main()
