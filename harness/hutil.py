"""Helpers shared by the property modules."""
from __future__ import annotations

import math
import re

import numpy

from coqio import Some, to_coq, tup

NANCODE = -1


class Names:
    """dimension / variable names <-> the integers the model uses.
    'index' is 0 and 'index_k' is -(k+1) (the model's find_unused candidates)."""
    def __init__(self):
        self.fwd = {}
        self.bwd = {}

    def code(self, name):
        name = str(name)
        if name == 'index':
            return 0
        m = re.fullmatch(r'index_(\d+)', name)
        if m:
            return -(int(m.group(1)) + 1)
        if name not in self.fwd:
            c = len(self.fwd) + 1
            self.fwd[name] = c
            self.bwd[c] = name
        return self.fwd[name]

    def name(self, code):
        if code == 0:
            return 'index'
        if code < 0:
            return f'index_{-code - 1}'
        return self.bwd[code]


def val_code(x):
    """data values are small integers stored as floats or ints; NaN -> NANCODE"""
    x = float(x)
    if math.isnan(x):
        return NANCODE
    assert x == int(x), x
    return int(x)


def flat_codes(arr):
    return [val_code(x) for x in numpy.asarray(arr).reshape(-1)]


def larr_literal(names: Names, da):
    """xarray.DataArray -> Coq `mk dims sizes data`"""
    dims = [names.code(d) for d in da.dims]
    return f'(mk {to_coq(dims)} {to_coq([int(s) for s in da.shape])} {to_coq(flat_codes(da.values))})'


def show_da(names: Names, da):
    """the observation compared with the model's `show`"""
    return Some(tup([names.code(d) for d in da.dims], [int(s) for s in da.shape], flat_codes(da.values)))


def attempt(f, *a, **kw):
    try:
        return ('ok', f(*a, **kw))
    except Exception as e:      # noqa: BLE001 - every exception class is an error outcome
        return ('err', type(e).__name__)


def nan_equal(a, b):
    a = numpy.asarray(a, dtype='f8')
    b = numpy.asarray(b, dtype='f8')
    if a.shape != b.shape:
        return False
    return bool(numpy.all((a == b) | (numpy.isnan(a) & numpy.isnan(b))))
