"""./check <Cxx> [quick|thorough] [--replay file]"""
import importlib
import os
import sys
import warnings

warnings.simplefilter('ignore')
sys.path.insert(0, os.path.dirname(__file__))


def main():
    pid = sys.argv[1]
    mod = importlib.import_module(f'props.{pid.lower()}')
    import common
    sys.exit(common.main_wrapper(pid, mod.run))


if __name__ == '__main__':
    main()
