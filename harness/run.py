"""./check <Cxx> [quick|thorough] [--replay file]"""
import importlib
import os
import sys
import warnings

warnings.simplefilter('ignore')
sys.path.insert(0, os.path.dirname(__file__))


def main():
    try:
        # netCDF4 / HDF5 are not thread safe and emsarray opens its clip pieces with lock=False:
        # keep dask single threaded inside the harness so a check cannot die of a segmentation fault
        import dask
        dask.config.set(scheduler='synchronous')
    except ImportError:
        pass
    pid = sys.argv[1]
    mod = importlib.import_module(f'props.{pid.lower()}')
    import common
    sys.exit(common.main_wrapper(pid, mod.run))


if __name__ == '__main__':
    main()
