"""Python <-> Coq term I/O for the correspondence check.

The harness writes a `cases.v` that evaluates the model's executable definitions on concrete inputs
with `Eval vm_compute` (the kernel's own evaluator, no extraction), one `Eval` per case, and parses the
printed normal forms back into Python values.
"""
from __future__ import annotations

import os
import re
import subprocess
import tempfile
from concurrent.futures import ThreadPoolExecutor
from fractions import Fraction

COQ_DIR = '/verif/coq'


class Some:
    def __init__(self, v):
        self.v = v

    def __eq__(self, o):
        return isinstance(o, Some) and self.v == o.v

    def __repr__(self):
        return f'Some({self.v!r})'

    def __hash__(self):
        return hash(('Some', repr(self.v)))


class Ctor:
    """A constructor applied to arguments (also used for bare identifiers)."""
    def __init__(self, name, *args):
        self.name = name
        self.args = tuple(args)

    def __eq__(self, o):
        return isinstance(o, Ctor) and self.name == o.name and self.args == o.args

    def __repr__(self):
        return f'{self.name}{self.args!r}' if self.args else self.name

    def __hash__(self):
        return hash((self.name, repr(self.args)))


def tup(*xs):
    """Coq's (a, b, c) is the left-nested pair ((a, b), c): always build 2-tuples"""
    t = xs[0]
    for x in xs[1:]:
        t = (t, x)
    return t


class Nat(int):
    pass


class Raw(str):
    """Coq text passed through unchanged."""


def to_coq(v) -> str:
    if isinstance(v, Raw):
        return str(v)
    if v is None:
        return 'None'
    if isinstance(v, Some):
        return f'(Some {to_coq(v.v)})'
    if isinstance(v, bool):
        return 'true' if v else 'false'
    if isinstance(v, Nat):
        return f'{int(v)}%nat'
    if isinstance(v, int):
        return f'({int(v)})' if v < 0 else str(int(v))
    if isinstance(v, Fraction):
        return f'(Qmake ({v.numerator}) {v.denominator})'
    if isinstance(v, list):
        return '[' + '; '.join(to_coq(x) for x in v) + ']'
    if isinstance(v, tuple):
        return '(' + ', '.join(to_coq(x) for x in v) + ')'
    if isinstance(v, Ctor):
        if not v.args:
            return v.name
        return '(' + v.name + ' ' + ' '.join(to_coq(a) for a in v.args) + ')'
    if isinstance(v, str):
        return v
    # numpy integers
    try:
        import numpy
        if isinstance(v, numpy.integer):
            return to_coq(int(v))
        if isinstance(v, numpy.bool_):
            return to_coq(bool(v))
    except ImportError:
        pass
    raise TypeError(f'cannot serialise {type(v)}: {v!r}')


_tok = re.compile(r'\s*(?:(\{\||\|\}|:=|[\[\]\(\);,#:])|(-?\d+)|([A-Za-z_][A-Za-z_0-9\.\']*)|(%[A-Za-z_]+))')


def _tokens(s):
    pos = 0
    out = []
    n = len(s)
    while pos < n:
        m = _tok.match(s, pos)
        if not m:
            if s[pos:].strip() == '':
                break
            raise ValueError(f'cannot tokenise at {s[pos:pos+40]!r}')
        pos = m.end()
        if m.group(4):
            continue   # scope annotation
        if m.group(1):
            out.append(('p', m.group(1)))
        elif m.group(2):
            out.append(('i', int(m.group(2))))
        else:
            out.append(('w', m.group(3)))
    return out


class _P:
    def __init__(self, toks):
        self.t = toks
        self.i = 0

    def peek(self):
        return self.t[self.i] if self.i < len(self.t) else ('e', None)

    def take(self):
        t = self.peek()
        self.i += 1
        return t

    def term(self):
        # application:  head atom*   |  atom # atom
        kind, val = self.peek()
        if kind == 'w' and val not in ('true', 'false', 'None'):
            self.take()
            args = []
            while self._starts_atom():
                args.append(self.atom())
            if val == 'Some' and len(args) == 1:
                return Some(args[0])
            return Ctor(val, *args)
        a = self.atom()
        if self.peek() == ('p', '#'):
            self.take()
            b = self.atom()
            return Fraction(a, b)
        return a

    def _starts_atom(self):
        kind, val = self.peek()
        if kind in ('i', 'w'):
            return True
        return kind == 'p' and val in ('[', '(')

    def atom(self):
        kind, val = self.take()
        if kind == 'i':
            return val
        if kind == 'w':
            if val == 'true':
                return True
            if val == 'false':
                return False
            if val == 'None':
                return None
            return Ctor(val)
        if kind == 'p' and val == '[':
            items = []
            if self.peek() == ('p', ']'):
                self.take()
                return items
            while True:
                items.append(self.term())
                k, v = self.take()
                if (k, v) == ('p', ']'):
                    return items
                if (k, v) != ('p', ';'):
                    raise ValueError(f'expected ; or ] got {v!r}')
        if kind == 'p' and val == '(':
            items = [self.term()]
            while True:
                k, v = self.take()
                if (k, v) == ('p', ')'):
                    break
                if (k, v) != ('p', ','):
                    raise ValueError(f'expected , or ) got {v!r}')
                items.append(self.term())
            return tup(*items)
        raise ValueError(f'unexpected token {val!r}')


def parse_coq(text: str):
    toks = _tokens(text)
    # cut at the top-level ':' that introduces the type
    depth = 0
    cut = len(toks)
    for n, (k, v) in enumerate(toks):
        if k == 'p' and v in '[(':
            depth += 1
        elif k == 'p' and v in '])':
            depth -= 1
        elif k == 'p' and v == ':' and depth == 0:
            cut = n
            break
    p = _P(toks[:cut])
    v = p.term()
    if p.i != cut:
        raise ValueError(f'trailing tokens after term: {toks[p.i:p.i+5]}')
    return v


HEADER = '''From Coq Require Import ZArith List Bool QArith.
Import ListNotations.
Open Scope Z_scope.
Set Printing Width 2000000.
Set Printing Depth 100000000.
'''


class CoqError(RuntimeError):
    pass


def coq_eval(requires: list[str], exprs: list[str], prelude: str = '', timeout: int = 600,
             keep: str | None = None):
    """Evaluate each Coq expression with vm_compute and return the parsed normal forms."""
    if not exprs:
        return []
    d = tempfile.mkdtemp(prefix='evcases_', dir=os.environ.get('VERIF_WORK', '/verif/work'))
    path = os.path.join(d, 'cases.v')
    with open(path, 'w') as f:
        f.write(HEADER)
        for r in requires:
            f.write(f'From EV Require Import {r}.\n')
        f.write(prelude + '\n')
        for n, e in enumerate(exprs):
            f.write(f'Definition case_{n} := {e}.\nEval vm_compute in case_{n}.\n')
    cmd = f'ulimit -s unlimited 2>/dev/null; exec coqc -noglob -Q {COQ_DIR} EV -o {d}/cases.vo {path}'
    try:
        r = subprocess.run(['bash', '-c', cmd], capture_output=True, text=True, timeout=timeout)
    except subprocess.TimeoutExpired:
        raise CoqError(f'coqc timed out on {path}')
    if r.returncode != 0:
        raise CoqError(f'coqc failed on {path}:\n{r.stderr[-3000:]}\n{r.stdout[-500:]}')
    chunks = re.split(r'^\s+= ', r.stdout, flags=re.M)[1:]
    if len(chunks) != len(exprs):
        raise CoqError(f'expected {len(exprs)} results, got {len(chunks)} from {path}')
    vals = [parse_coq(re.split(r'\n\s*: ', c)[0]) for c in chunks]
    if keep is None:
        import shutil
        shutil.rmtree(d, ignore_errors=True)
    return vals


def coq_eval_sharded(requires, exprs, prelude='', shard=200, workers=8, timeout=900):
    shards = [exprs[i:i + shard] for i in range(0, len(exprs), shard)]
    with ThreadPoolExecutor(max_workers=workers) as ex:
        res = list(ex.map(lambda s: coq_eval(requires, s, prelude, timeout), shards))
    out = []
    for r in res:
        out.extend(r)
    return out
