"""Dataset generators.  Every random choice comes from the `random.Random` passed in.

All coordinates are dyadic rationals k/8 (exactly representable floats); data values are small integers,
unique per element, so a misplaced value cannot hide.  Each generator returns a `DS` carrying the
xarray dataset and a pure-Python description (`spec`) from which the model's inputs are built.
"""
from __future__ import annotations

import itertools
from fractions import Fraction

import numpy
import xarray

F8 = 8.0


def fr(x):
    """exact rational of a float (None for NaN)"""
    x = float(x)
    if x != x:
        return None
    return Fraction(x)


class DS:
    def __init__(self, family, ds, spec):
        self.family = family
        self.ds = ds
        self.spec = spec

    def __repr__(self):
        return f'<DS {self.family} {self.spec.get("label", "")}>'


# --------------------------------------------------------------------------------------------
# data variables

def add_data_vars(rng, ds, kinds, *, n_extra_max=2, allow_time=True, names_prefix='v', dtypes=('f8',),
                  every_kind=True, fixed_extra=None):
    """Add data variables on each grid kind with extra dimensions in a random order.
    kinds: dict kind -> list of dimension names.  Returns list of (name, kind, dims)."""
    out = []
    counter = [1]
    extra_pool = [('time', rng.randint(1, 3)), ('k', rng.randint(1, 3)), ('e', 2)]
    for kind, gdims in kinds.items():
        if any(x not in ds.sizes for x in gdims):
            continue            # a grid kind whose dimension no variable uses (declared edge dimension, nothing on edges)
        nvars = rng.randint(1, 2) if every_kind else rng.randint(0, 1)
        for v in range(nvars):
            if fixed_extra is not None:
                extra = list(fixed_extra)
            else:
                extra = rng.sample(extra_pool, rng.randint(0, min(n_extra_max, len(extra_pool))))
            dims = [d for d, _ in extra] + list(gdims)
            rng.shuffle(dims)
            sizes = dict(extra)
            shape = [sizes[d] if d in sizes else ds.sizes[d] for d in dims]
            n = int(numpy.prod(shape))
            dt = rng.choice(dtypes)
            data = (numpy.arange(n) + counter[0]).reshape(shape)
            counter[0] += n + 7
            attrs = {}
            if dt == 'f8':
                data = data.astype('f8')
                if n > 2 and rng.random() < 0.4:
                    flat = data.reshape(-1)
                    flat[rng.randrange(n)] = numpy.nan
            elif dt == 'i4':
                data = data.astype('i4')
            elif dt == 'i4fill':
                data = data.astype('i4')
                attrs['_FillValue'] = numpy.int32(-999)
            elif dt == 'i4fill0':
                # zero is the fill value (no genuine zero among the data: the counter starts at 1)
                data = data.astype('i4')
                attrs['_FillValue'] = numpy.int32(0)
            elif dt == 'i4missing':
                data = data.astype('i4')
                attrs['missing_value'] = numpy.int32(-999)
            name = f'{names_prefix}_{kind}_{v}'
            ds[name] = xarray.DataArray(data, dims=dims, attrs=attrs)
            out.append((name, kind, dims))
    return out


def add_time(ds, n=None, units='days since 1990-01-01 00:00:00 +10', name='time', dim='time'):
    if dim in ds.sizes:
        n = ds.sizes[dim]
    elif n is None:
        n = 2
    da = xarray.DataArray(numpy.arange(n, dtype='f8'), dims=[dim],
                          attrs={'standard_name': 'time', 'units': units, 'coordinate_type': 'time'})
    return ds.assign_coords({name: da})


# --------------------------------------------------------------------------------------------
# axis generators (dyadic)

def axis_values(rng, n, *, descending=None, uniform=None):
    if descending is None:
        descending = rng.random() < 0.4
    if uniform is None:
        uniform = rng.random() < 0.5
    start = rng.randint(-40, 40)
    if uniform:
        step = rng.choice([2, 4, 8, 12])
        vals = [start + step * i for i in range(n)]
    else:
        vals = [start]
        for _ in range(n - 1):
            vals.append(vals[-1] + rng.choice([2, 4, 6, 8, 16]))
    if descending:
        vals = [-v for v in vals]
    return [v / F8 for v in vals]


def contiguous_bounds(rng, vals):
    """bounds (n,2) contiguous, each containing its centre; dyadic (/16)."""
    n = len(vals)
    if n == 1:
        return [[vals[0] - 0.5, vals[0] + 0.5]]
    mids = [(vals[i] + vals[i + 1]) / 2 for i in range(n - 1)]
    first = vals[0] - (vals[1] - vals[0]) * rng.choice([0.5, 0.25, 1.0])
    last = vals[-1] + (vals[-1] - vals[-2]) * rng.choice([0.5, 0.25, 1.0])
    edges = [first] + mids + [last]
    return [[edges[i], edges[i + 1]] for i in range(n)]


# --------------------------------------------------------------------------------------------
# CF 1-D

def cf1d(rng, *, ny=None, nx=None, bounds=None, as_coords=None, dim_names=None, min_len=2, bad_bounds=None, mixed_dtypes=None, global_lon=False, bounds_on=None):
    # bounds_on: 'lat' / 'lon' - only that coordinate declares bounds (legal CF); the other one's cells come from its centres
    ny = ny or rng.randint(min_len, 6)
    nx = nx or rng.randint(min_len, 6)
    if bounds is None:
        bounds = rng.random() < 0.5
    if as_coords is None:
        as_coords = rng.random() < 0.7
    if dim_names is None:
        dim_names = rng.choice([('lat', 'lon'), ('y', 'x'), ('latitude', 'longitude')])
    ydim, xdim = dim_names
    lat = axis_values(rng, ny)
    lon = axis_values(rng, nx)
    if global_lon:
        # evenly spaced longitudes all the way round the globe (a global model): 360 / nx degrees apart
        nx = nx if 360 % nx == 0 else 12
        start = rng.choice([0.0, -180.0, 15.0, -172.5])
        lon = [start + (360.0 / nx) * i for i in range(nx)]
    if mixed_dtypes in ('lon_int', 'lat_int'):
        # one axis in whole degrees stored as integers (coordinate and bounds), the other fractional float64
        start = rng.randint(-20, 20)
        ints = [float(start + 2 * i) for i in range(nx if mixed_dtypes == 'lon_int' else ny)]
        if mixed_dtypes == 'lon_int':
            lon = ints
        else:
            lat = ints
        bounds = True
    elif mixed_dtypes == 'lon_f4':
        # longitude single precision; latitude double precision with digits single precision cannot hold
        lat = [v + 2.0 ** -26 for v in lat]
        bounds = True
    latname, lonname = (ydim, xdim) if rng.random() < 0.6 else ('the_lat', 'the_lon')
    # which marker identifies the coordinates
    marker = rng.choice(['units', 'standard_name', 'axis'])
    lat_attrs = {'units': {'units': 'degrees_north'}, 'standard_name': {'standard_name': 'latitude'},
                 'axis': {'axis': 'Y'}}[marker]
    lon_attrs = {'units': {'units': 'degrees_east'}, 'standard_name': {'standard_name': 'longitude'},
                 'axis': {'axis': 'X'}}[marker]
    spec = {'ny': ny, 'nx': nx, 'lat': lat, 'lon': lon, 'ydim': ydim, 'xdim': xdim, 'bounds': None,
            'latname': latname, 'lonname': lonname, 'as_coords': as_coords}
    variables = {}
    if bounds:
        lat_b = contiguous_bounds(rng, lat)
        lon_b = contiguous_bounds(rng, lon)
        if mixed_dtypes == 'lon_int':
            lon_b = [[v - 1.0, v + 1.0] for v in lon]
        if mixed_dtypes == 'lat_int':
            lat_b = [[v - 1.0, v + 1.0] for v in lat]
        lat_attrs = dict(lat_attrs, bounds='lat_bnds')
        lon_attrs = dict(lon_attrs, bounds='lon_bnds')
        variables['lat_bnds'] = ((ydim, 'bnds'), numpy.array(lat_b))
        variables['lon_bnds'] = ((xdim, 'bnds'), numpy.array(lon_b))
        spec['bounds'] = {'lat': lat_b, 'lon': lon_b}
        if bounds_on in ('lat', 'lon'):
            drop = 'lon' if bounds_on == 'lat' else 'lat'
            variables.pop(f'{drop}_bnds')
            (lon_attrs if drop == 'lon' else lat_attrs).pop('bounds')
            spec['bounds'] = None
            spec['bounds_on'] = bounds_on
        if bad_bounds:
            # bounds variables the convention must refuse (wrong layout): the cells are then derived from the centres
            if bad_bounds == 'transposed':
                variables['lat_bnds'] = (('bnds', ydim), numpy.array(lat_b).T)
                variables['lon_bnds'] = (('bnds', xdim), numpy.array(lon_b).T)
            else:
                variables['lat_bnds'] = ((ydim, 'bnds'), numpy.column_stack([numpy.array(lat_b), numpy.array(lat_b)[:, :1]]))
                variables['lon_bnds'] = ((xdim, 'bnds'), numpy.column_stack([numpy.array(lon_b), numpy.array(lon_b)[:, :1]]))
            spec['bounds'] = None
            spec['bad_bounds'] = bad_bounds
    coordvars = {latname: ((ydim,), numpy.array(lat), lat_attrs), lonname: ((xdim,), numpy.array(lon), lon_attrs)}
    if mixed_dtypes:
        dt = {'lon_int': ('i4', None), 'lat_int': (None, 'i4'), 'lon_f4': ('f4', None)}[mixed_dtypes]
        for (cname, bname), t in (((lonname, 'lon_bnds'), dt[0]), ((latname, 'lat_bnds'), dt[1])):
            if t:
                coordvars[cname] = (coordvars[cname][0], coordvars[cname][1].astype(t), coordvars[cname][2])
                variables[bname] = (variables[bname][0], variables[bname][1].astype(t))
        spec['mixed_dtypes'] = mixed_dtypes
    if as_coords:
        ds = xarray.Dataset(data_vars=variables, coords=coordvars)
    else:
        # the coordinate variables can only be plain variables when their name differs from the dimension
        if latname == ydim:
            ds = xarray.Dataset(data_vars=variables, coords=coordvars)
            spec['as_coords'] = True
        else:
            ds = xarray.Dataset(data_vars={**coordvars, **variables})
    spec['label'] = f'cf1d {ny}x{nx} bounds={bool(bounds)}' + (f' refused-bounds={bad_bounds}' if bad_bounds else '') + (
        f' dtypes={mixed_dtypes}' if mixed_dtypes else '') + (' global' if global_lon else '') + (f' bounds-on-{bounds_on}-only' if bounds_on else '')
    spec['nx'] = nx
    spec['kinds'] = {'face': [ydim, xdim]}
    spec['kind_order'] = ['face']
    return DS('cf1d', ds, spec)


# --------------------------------------------------------------------------------------------
# CF 2-D and SHOC simple

def curvilinear_centres(rng, ny, nx):
    """skewed / rotated lattice of cell centres, dyadic; returns (lon, lat) integer-eighth arrays"""
    ax, ay = rng.choice([(8, 0), (8, 2), (6, -2), (8, 4)])       # step along i
    bx, by = rng.choice([(0, 8), (2, 8), (-2, 6), (-4, 8)])      # step along j
    if rng.random() < 0.25:                                        # transposed-looking grid
        ax, ay, bx, by = bx, by, ax, ay
    ox, oy = rng.randint(-80, 80), rng.randint(-80, 80)
    lon = numpy.array([[ox + ax * i + bx * j for i in range(nx)] for j in range(ny)], dtype='f8') / F8
    lat = numpy.array([[oy + ay * i + by * j for i in range(nx)] for j in range(ny)], dtype='f8') / F8
    return lon, lat, (ax, ay, bx, by, ox, oy)


def hole_pattern(rng, ny, nx, kind=None):
    holes = numpy.zeros((ny, nx), dtype=bool)
    kind = kind or rng.choice(['none', 'none', 'corner', 'edge', 'interior', 'random', 'river', 'river_i'])
    if kind == 'corner':
        holes[rng.choice([0, ny - 1]), rng.choice([0, nx - 1])] = True
    elif kind == 'edge':
        holes[0, rng.randrange(nx)] = True
    elif kind == 'interior' and ny > 2 and nx > 2:
        holes[rng.randrange(1, ny - 1), rng.randrange(1, nx - 1)] = True
    elif kind == 'random':
        for j in range(ny):
            for i in range(nx):
                holes[j, i] = rng.random() < 0.25
    elif kind == 'river' and ny > 2:
        # leave a one-cell-wide river in row 1
        holes[0, :] = True
        holes[2, :] = True
    elif kind == 'river_i' and nx > 2:
        # a one-cell-wide channel running along the first dimension, open water at its mouth
        holes[:, 0] = True
        holes[:, 2] = True
        if ny > 2:
            holes[ny - 1, :] = False
    elif kind == 'mostly_dry':
        # only the last rows have cells (a wet patch at the end of a large, mostly dry domain)
        holes[:, :] = True
        holes[max(0, ny - 2):, :] = False
    if holes.all():
        holes[0, 0] = False
    return holes, kind


def cf2d(rng, *, ny=None, nx=None, bounds=None, holes=None, shoc_simple=False, as_coords=None, invalid=None, bad_bounds=None, overlap=False, lon_transposed=False):
    ny = ny or rng.randint(1, 5)
    nx = nx or rng.randint(1, 5)
    if bounds is None:
        bounds = rng.random() < 0.5
    if as_coords is None:
        as_coords = rng.random() < 0.7
    lon, lat, params = curvilinear_centres(rng, ny, nx)
    hole, hole_kind = hole_pattern(rng, ny, nx, holes)
    ydim, xdim = ('j', 'i') if shoc_simple else rng.choice([('y', 'x'), ('nj', 'ni'), ('eta', 'xi')])
    lat_attrs = {'standard_name': 'latitude', 'units': 'degrees_north'}
    lon_attrs = {'standard_name': 'longitude', 'units': 'degrees_east'}
    if not shoc_simple and rng.random() < 0.5:
        lat_attrs.pop('standard_name')
        lon_attrs.pop('standard_name')
    spec = {'ny': ny, 'nx': nx, 'ydim': ydim, 'xdim': xdim, 'hole_kind': hole_kind, 'as_coords': as_coords,
            'bounds': None, 'lon_b': None, 'lat_b': None}
    variables = {}
    ax, ay, bx, by, ox, oy = params
    if bounds:
        # explicit corner bounds: centre +- half steps, in the order (j-,i-), (j-,i+), (j+,i+), (j+,i-)
        lon_b = numpy.empty((ny, nx, 4))
        lat_b = numpy.empty((ny, nx, 4))
        # footprints larger than the spacing (overlap=True): neighbouring cells overlap, as sensor footprints do
        half = 0.75 if overlap else 0.5
        for c, (dj, di) in enumerate([(-1, -1), (-1, 1), (1, 1), (1, -1)]):
            lon_b[:, :, c] = lon + (ax * di + bx * dj) * half / F8
            lat_b[:, :, c] = lat + (ay * di + by * dj) * half / F8
        lon_b[hole] = numpy.nan
        lat_b[hole] = numpy.nan
        if bad_bounds:
            invalid = False
        if invalid is None:
            invalid = rng.random() < 0.25
        if invalid:
            # a self-intersecting (bow-tie) cell: two corners swapped
            cand = [(j, i) for j in range(ny) for i in range(nx) if not hole[j, i]]
            j, i = rng.choice(cand)
            lon_b[j, i, [1, 2]] = lon_b[j, i, [2, 1]]
            lat_b[j, i, [1, 2]] = lat_b[j, i, [2, 1]]
            spec['invalid_cell'] = (j, i)
        variables['lon_bnds'] = ((ydim, xdim, 'nv'), lon_b)
        variables['lat_bnds'] = ((ydim, xdim, 'nv'), lat_b)
        lat_attrs['bounds'] = 'lat_bnds'
        lon_attrs['bounds'] = 'lon_bnds'
        spec['bounds'] = True
        spec['lon_b'] = lon_b
        spec['lat_b'] = lat_b
        if bad_bounds:
            # bounds variables the convention must refuse (wrong layout): the cells are then derived from the centres
            perm = {'xy_nv': (1, 0, 2), 'nv_yx': (2, 0, 1), 'nv_xy': (2, 1, 0), 'lat_only_xy_nv': (1, 0, 2)}.get(bad_bounds)
            for nm, arr in (('lon_bnds', lon_b), ('lat_bnds', lat_b)):
                if bad_bounds == 'lat_only_xy_nv' and nm == 'lon_bnds':
                    continue            # the longitude bounds stay usable: the two coordinates are decided independently
                if perm:
                    dims3 = (ydim, xdim, 'nv')
                    variables[nm] = (tuple(dims3[k] for k in perm), numpy.transpose(arr, perm))
                else:       # five vertices per cell
                    variables[nm] = ((ydim, xdim, 'nv'), numpy.concatenate([arr, arr[:, :, :1]], axis=2))
            spec['bounds'] = None
            spec['lon_b'] = spec['lat_b'] = None
            spec['bad_bounds'] = bad_bounds
    lon = lon.copy()
    lat = lat.copy()
    lon[hole] = numpy.nan
    lat[hole] = numpy.nan
    latname, lonname = ('latitude', 'longitude') if rng.random() < 0.5 else ('lat2', 'lon2')
    coordvars = {latname: ((ydim, xdim), lat, lat_attrs), lonname: ((ydim, xdim), lon, lon_attrs)}
    if lon_transposed:
        # the longitude stored with its dimensions the other way round (auxiliary coordinates may order them freely)
        coordvars[lonname] = ((xdim, ydim), numpy.ascontiguousarray(lon.T), lon_attrs)
    attrs = {'ems_version': 'v1.2.3'} if shoc_simple else {}
    if as_coords:
        ds = xarray.Dataset(data_vars=variables, coords=coordvars, attrs=attrs)
        # coordinates first in variable order (as in real files)
        ds = xarray.Dataset(coords=coordvars, attrs=attrs).assign(
            {k: xarray.DataArray(v[1], dims=v[0]) for k, v in variables.items()})
    else:
        ds = xarray.Dataset(data_vars={**coordvars, **variables}, attrs=attrs)
    spec.update({'latname': latname, 'lonname': lonname, 'lat': lat, 'lon': lon, 'hole': hole,
                 'label': f'{"shoc_simple" if shoc_simple else "cf2d"} {ny}x{nx} bounds={bool(bounds)} holes={hole_kind}'
                          + (f' refused-bounds={bad_bounds}' if bad_bounds else '') + (' overlapping' if overlap else '')
                          + (' lon(x,y)' if lon_transposed else ''),
                 'kinds': {'face': [ydim, xdim]}, 'kind_order': ['face']})
    return DS('shoc_simple' if shoc_simple else 'cf2d', ds, spec)


# --------------------------------------------------------------------------------------------
# Arakawa C / SHOC standard

def arakawa(rng, *, nj=None, ni=None, holes=None, shoc=True, invalid=None, transposed_coords=(), orphan_nodes=False, plain=False, thirds=False):
    nj = nj or rng.randint(1, 5)
    ni = ni or rng.randint(1, 5)
    ax, ay = rng.choice([(8, 0), (8, 2), (6, -2)])
    bx, by = rng.choice([(0, 8), (2, 8), (-2, 6)])
    ox, oy = rng.randint(-80, 80), rng.randint(-80, 80)

    def grid(sj, si, offj, offi):
        # coordinates in sixteenths to keep half-steps exact
        x = numpy.array([[ox * 2 + ax * (2 * i + offi) + bx * (2 * j + offj) for i in range(si)]
                         for j in range(sj)], dtype='f8') / 16.0
        y = numpy.array([[oy * 2 + ay * (2 * i + offi) + by * (2 * j + offj) for i in range(si)]
                         for j in range(sj)], dtype='f8') / 16.0
        return x, y
    xg, yg = grid(nj + 1, ni + 1, 0, 0)
    xc, yc = grid(nj, ni, 1, 1)
    xl, yl = grid(nj, ni + 1, 1, 0)
    xb, yb = grid(nj + 1, ni, 0, 1)
    hole, hole_kind = hole_pattern(rng, nj, ni, holes)
    # a node is missing when every face around it is a hole (masked land region)
    node_missing = numpy.ones((nj + 1, ni + 1), dtype=bool)
    for j in range(nj):
        for i in range(ni):
            if not hole[j, i]:
                node_missing[j:j + 2, i:i + 2] = False
    if orphan_nodes:
        # a ragged land mask: some nodes of the masked region keep their coordinates although every cell around them still
        # lacks another corner (such a node belongs to no cell that has a polygon)
        for (j, i) in [(jj, ii) for jj in range(nj + 1) for ii in range(ni + 1) if node_missing[jj, ii]]:
            around = [(a, b) for a in (j - 1, j) for b in (i - 1, i) if 0 <= a < nj and 0 <= b < ni]
            others_missing = all(any(node_missing[c, e] for c in (a, a + 1) for e in (b, b + 1) if (c, e) != (j, i)) for a, b in around)
            if others_missing and rng.random() < 0.6:
                node_missing[j, i] = False
    if invalid is None:
        invalid = rng.random() < 0.2
    if invalid and ni >= 1:
        # swap two neighbouring nodes: the cells around them become self-intersecting
        j, i = rng.randrange(nj + 1), rng.randrange(ni)
        xg[j, [i, i + 1]] = xg[j, [i + 1, i]]
        yg[j, [i, i + 1]] = yg[j, [i + 1, i]]
    xg[node_missing] = numpy.nan
    yg[node_missing] = numpy.nan
    xc[hole] = numpy.nan
    yc[hole] = numpy.nan
    if thirds:
        # coordinates that single precision cannot hold (a third of the sixteenths)
        for arr_ in (xg, yg, xc, yc, xl, yl, xb, yb):
            arr_ /= 3.0
    names = {'face': ('y_centre', 'x_centre'), 'left': ('y_left', 'x_left'),
             'back': ('y_back', 'x_back'), 'node': ('y_grid', 'x_grid')}
    dims = {'face': ('j_centre', 'i_centre'), 'left': ('j_left', 'i_left'),
            'back': ('j_back', 'i_back'), 'node': ('j_node', 'i_node')}
    arrays = {'face': (yc, xc), 'left': (yl, xl), 'back': (yb, xb), 'node': (yg, xg)}
    coords = {}
    for kind in ['face', 'left', 'back', 'node']:
        for (nm, arr, sn) in [(names[kind][0], arrays[kind][0], 'latitude'), (names[kind][1], arrays[kind][1], 'longitude')]:
            coords[nm] = (dims[kind], arr, {'long_name': f'{sn} at {kind}', 'units': 'degrees_north' if sn == 'latitude' else 'degrees_east'})
            if nm in transposed_coords:
                # the same coordinate stored with its dimensions the other way round (i, j): legal, xarray aligns by name
                coords[nm] = (dims[kind][::-1], arr.T.copy(), coords[nm][2])
    ds = xarray.Dataset(coords=coords, attrs={'title': 'generated SHOC standard'})
    if plain:
        # not a SHOC file: an Arakawa C grid with names of its own, given to the convention by hand
        # (ArakawaC(dataset, coordinate_names=...).bind(), the documented way)
        ren = {'y_centre': 'lat_face', 'x_centre': 'lon_face', 'y_left': 'lat_left', 'x_left': 'lon_left',
               'y_back': 'lat_back', 'x_back': 'lon_back', 'y_grid': 'lat_node', 'x_grid': 'lon_node'}
        ds = ds.rename(ren)
        from emsarray.conventions.arakawa_c import ArakawaC
        ArakawaC(ds, coordinate_names={'face': ('lat_face', 'lon_face'), 'left': ('lat_left', 'lon_left'),
                                       'back': ('lat_back', 'lon_back'), 'node': ('lat_node', 'lon_node')}).bind()
    spec = {'nj': nj, 'ni': ni, 'hole': hole, 'hole_kind': hole_kind, 'xg': xg, 'yg': yg, 'xc': xc, 'yc': yc,
            'node_missing': node_missing,
            'label': f'shoc_standard {nj}x{ni} holes={hole_kind}' + (f' stored-ij={sorted(transposed_coords)}' if transposed_coords else '') + (' plain ArakawaC' if plain else '') + (' thirds' if thirds else ''),
            'kinds': {k: list(dims[k]) for k in ['face', 'left', 'back', 'node']},
            'kind_order': ['face', 'left', 'back', 'node']}
    return DS('shoc_standard', ds, spec)


# --------------------------------------------------------------------------------------------
# UGRID

def lattice_mesh(rng, w=None, h=None, *, jitter=True, variety=True, drop=True):
    """Planar mesh from a w x h lattice of unit squares: returns (nodes [(x8,y8)], faces [[node...]])
    with faces that are triangles, quads, pentagons, hexagons (collinear vertices) and concave octagons,
    wound either way, starting anywhere."""
    w = w or rng.randint(1, 4)
    h = h or rng.randint(1, 4)
    ox, oy = rng.randint(-40, 40), rng.randint(-40, 40)

    def nid(i, j):
        return j * (w + 1) + i
    nodes = []
    for j in range(h + 1):
        for i in range(w + 1):
            x, y = (ox + 8 * i), (oy + 8 * j)
            if jitter and 0 < i < w and 0 < j < h:
                x += rng.choice([-2, -1, 0, 0, 1, 2])
                y += rng.choice([-2, -1, 0, 0, 1, 2])
            nodes.append((x, y))
    used = numpy.zeros((h, w), dtype=bool)
    faces = []
    cells = [(j, i) for j in range(h) for i in range(w)]
    rng.shuffle(cells)
    for (j, i) in cells:
        if used[j, i]:
            continue
        r = rng.random() if variety else 1.0
        quad = [nid(i, j), nid(i + 1, j), nid(i + 1, j + 1), nid(i, j + 1)]     # anticlockwise
        if r < 0.12 and i + 1 < w and not used[j, i + 1]:
            # hexagon from two squares side by side (two collinear vertices when not jittered)
            used[j, i] = used[j, i + 1] = True
            faces.append([nid(i, j), nid(i + 1, j), nid(i + 2, j), nid(i + 2, j + 1), nid(i + 1, j + 1), nid(i, j + 1)])
        elif r < 0.2 and i + 1 < w and j + 1 < h and not used[j, i + 1] and not used[j + 1, i]:
            # concave L-shaped octagon from three squares
            used[j, i] = used[j, i + 1] = used[j + 1, i] = True
            faces.append([nid(i, j), nid(i + 1, j), nid(i + 2, j), nid(i + 2, j + 1), nid(i + 1, j + 1),
                          nid(i + 1, j + 2), nid(i, j + 2), nid(i, j + 1)])
        elif r < 0.3 and j + 1 < h and not used[j + 1, i]:
            # pentagon (square + triangle of the square above) and the remaining triangle
            used[j, i] = used[j + 1, i] = True
            faces.append([nid(i, j), nid(i + 1, j), nid(i + 1, j + 1), nid(i + 1, j + 2), nid(i, j + 1)])
            faces.append([nid(i, j + 1), nid(i + 1, j + 2), nid(i, j + 2)])
        elif r < 0.55:
            used[j, i] = True
            if rng.random() < 0.5:
                faces.append([quad[0], quad[1], quad[2]])
                faces.append([quad[0], quad[2], quad[3]])
            else:
                faces.append([quad[0], quad[1], quad[3]])
                faces.append([quad[1], quad[2], quad[3]])
        else:
            used[j, i] = True
            faces.append(quad)
    # drop some faces (interior boundary edges), keep at least one
    if drop and len(faces) > 2 and rng.random() < 0.5:
        for _ in range(rng.randint(1, max(1, len(faces) // 4))):
            if len(faces) > 1:
                faces.pop(rng.randrange(len(faces)))
    # orientation and starting vertex
    out = []
    for f in faces:
        if rng.random() < 0.4:
            f = list(reversed(f))
        s = rng.randrange(len(f))
        out.append(f[s:] + f[:s])
    rng.shuffle(out)
    # drop orphan nodes, permute node numbering
    usedn = sorted({n for f in out for n in f})
    perm = list(usedn)
    rng.shuffle(perm)
    new = {old: k for k, old in enumerate(perm)}
    nodes2 = [nodes[old] for old in perm]
    faces2 = [[new[n] for n in f] for f in out]
    return nodes2, faces2


def derive_tables(rng, faces, shuffle_edges=True):
    """A consistent set of optional connectivity tables for a face list."""
    pairs = []
    seen = {}
    for f in faces:
        for a, b in zip(f, f[1:] + f[:1]):
            key = (min(a, b), max(a, b))
            if key not in seen:
                seen[key] = None
                pairs.append(key)
    if shuffle_edges:
        rng.shuffle(pairs)
    edge_node = [list(p) if rng.random() < 0.5 else [p[1], p[0]] for p in pairs]
    eidx = {p: k for k, p in enumerate(pairs)}
    face_edge = [[eidx[(min(a, b), max(a, b))] for a, b in zip(f, f[1:] + f[:1])] for f in faces]
    edge_face = [[] for _ in pairs]
    for fi, es in enumerate(face_edge):
        for e in es:
            edge_face[e].append(fi)
    face_face = [[] for _ in faces]
    for e, fs in enumerate(edge_face):
        if len(fs) == 2:
            a, b = fs
            face_face[a].append(b)
            face_face[b].append(a)
    return edge_node, face_edge, edge_face, face_face


def ugrid(rng, *, w=None, h=None, start_index=None, fill=None, transposed=None, supplied=None,
          edge_dim_declared=None, coords_as_coords=None, face_coords=None, mesh=None, variety=True,
          invalid=None, bare_zero_based=(), extra_width=0, stale_attrs=(), phantom_edge_dim=False, mesh_var_dim=False, node_dtypes=None, placeholder_node=False):
    # stale_attrs: mesh attributes naming optional connectivity variables that are not in the file (emsarray documents this case)
    # phantom_edge_dim: an edge_dimension attribute although nothing is stored on edges (xarray drops unused dimensions)
    # mesh_var_dim: the mesh topology dummy variable has a length-one dimension (`int mesh(one)`), as some writers make it
    # extra_width: face tables wider than the largest face (every row padded with fill entries), as some models write them
    # bare_zero_based: connectivity roles stored zero-based WITHOUT a start_index attribute (UGRID: a missing attribute means
    # 0 for that variable) while the other tables carry the dataset's start_index
    nodes, faces = mesh if mesh is not None else lattice_mesh(rng, w, h, variety=variety)
    if invalid is None:
        invalid = rng.random() < 0.15
    if invalid:
        quads = [k for k, f in enumerate(faces) if len(f) == 4]
        if quads:
            k = rng.choice(quads)
            f = list(faces[k])
            f[1], f[2] = f[2], f[1]
            faces = list(faces)
            faces[k] = f
    if placeholder_node:
        # one more row on the node dimension than the faces use, without coordinates (a placeholder some writers leave)
        nodes = list(nodes) + [(float('nan'), float('nan'))]
    nn, nf = len(nodes), len(faces)
    maxn = max(len(f) for f in faces) + extra_width
    uniform = all(len(f) == maxn for f in faces)
    if start_index is None:
        start_index = rng.choice([0, 1])
    if fill is None:
        fill = rng.choice(['nan', 'attr'])
    if transposed is None:
        transposed = rng.random() < 0.3
    if supplied is None:
        supplied = {k for k in ['edge_node', 'face_edge', 'edge_face', 'face_face'] if rng.random() < 0.4}
    supplied = set(supplied)
    if edge_dim_declared is None:
        edge_dim_declared = rng.random() < 0.5
    if coords_as_coords is None:
        coords_as_coords = rng.random() < 0.3
    if face_coords is None:
        face_coords = rng.random() < 0.5
    edge_node, face_edge, edge_face, face_face = derive_tables(rng, faces)
    ne = len(edge_node)
    FILL = 999999
    fdim, ndim, edim, mdim, two = 'nMesh2_face', 'nMesh2_node', 'nMesh2_edge', 'nMaxMesh2_face_nodes', 'Two'

    def table(rows, width, dims, role, allow_transpose=True):
        """encode a ragged integer table"""
        need_fill = any(len(r) < width or None in r for r in rows)
        si = 0 if role.replace('_connectivity', '') in bare_zero_based else start_index
        attrs = {'cf_role': role, 'start_index': numpy.int32(si)}
        if role.replace('_connectivity', '') in bare_zero_based or (rng.random() < 0.3 and si == 0):
            attrs.pop('start_index')
        mode = fill if need_fill else rng.choice([fill, 'none'])
        if mode == 'attr0' and si != 1:
            mode = 'attr'
        fillv = 0 if mode == 'attr0' else FILL            # one-based tables that write 'nothing here' as 0
        if mode == 'nan':
            arr = numpy.full((len(rows), width), numpy.nan)
            for r, row in enumerate(rows):
                for c, v in enumerate(row):
                    if v is not None:
                        arr[r, c] = v + si
        else:
            arr = numpy.full((len(rows), width), fillv, dtype='i4')
            for r, row in enumerate(rows):
                for c, v in enumerate(row):
                    if v is not None:
                        arr[r, c] = v + si
            if mode in ('attr', 'attr0'):
                attrs['_FillValue'] = numpy.int32(fillv)
        d = list(dims)
        if transposed and allow_transpose:
            arr = arr.T
            d = d[::-1]
        return xarray.DataArray(arr, dims=d, attrs=attrs), mode

    variables = {}
    mesh_attrs = {'cf_role': 'mesh_topology', 'topology_dimension': numpy.int32(2),
                  'node_coordinates': 'Mesh2_node_x Mesh2_node_y', 'face_node_connectivity': 'Mesh2_face_nodes'}
    # face_dimension attribute is required when the table is transposed
    if transposed or rng.random() < 0.6:
        mesh_attrs['face_dimension'] = fdim
    variables['Mesh2'] = xarray.DataArray(numpy.int32(0), attrs=mesh_attrs)
    fn, fn_mode = table(faces, maxn, (fdim, mdim), 'face_node_connectivity')
    variables['Mesh2_face_nodes'] = fn
    enc = {'start_index': start_index, 'fill': fill, 'transposed': transposed, 'face_node_mode': fn_mode}
    if 'edge_node' in supplied:
        t, _ = table(edge_node, 2, (edim, two), 'edge_node_connectivity')
        variables['Mesh2_edge_nodes'] = t
        mesh_attrs['edge_node_connectivity'] = 'Mesh2_edge_nodes'
    if 'edge_face' in supplied:
        # the left/right-of-the-edge convention: a boundary edge may hold its missing face in the FIRST column
        ef_rows = [[None, r[0]] if len(r) == 1 and rng.random() < 0.4 else r for r in edge_face]
        t, _ = table(ef_rows, 2, (edim, two), 'edge_face_connectivity')
        variables['Mesh2_edge_faces'] = t
        mesh_attrs['edge_face_connectivity'] = 'Mesh2_edge_faces'
    has_edge_dim = bool({'edge_node', 'edge_face'} & supplied)
    # a face_edge table only means something when the mesh has edges: the edge dimension is then declared or implied
    # (UGRID requires it; without any edge dimension emsarray cannot even take the geometry inventory of such a file)
    if edge_dim_declared or (transposed and has_edge_dim) or ('face_edge' in supplied and not has_edge_dim):
        mesh_attrs['edge_dimension'] = edim
        has_edge_dim = True
    if 'face_edge' in supplied:
        t, _ = table(face_edge, maxn, (fdim, mdim), 'face_edge_connectivity')
        variables['Mesh2_face_edges'] = t
        mesh_attrs['face_edge_connectivity'] = 'Mesh2_face_edges'
    if 'face_face' in supplied:
        t, _ = table(face_face, maxn, (fdim, mdim), 'face_face_connectivity')
        variables['Mesh2_face_links'] = t
        mesh_attrs['face_face_connectivity'] = 'Mesh2_face_links'
    nx = numpy.array([x for x, y in nodes], dtype='f8') / F8
    ny_ = numpy.array([y for x, y in nodes], dtype='f8') / F8
    y_off = 0.0
    if node_dtypes == 'x_f4':
        # node longitudes in single precision (exactly representable), node latitudes in double precision with digits single
        # precision cannot hold
        nx = nx.astype('f4')
        y_off = 2.0 ** -30
        ny_ = ny_ + y_off
    coordvars = {'Mesh2_node_x': ((ndim,), nx, {'standard_name': 'longitude', 'units': 'degrees_east'}),
                 'Mesh2_node_y': ((ndim,), ny_, {'standard_name': 'latitude', 'units': 'degrees_north'})}
    fx = fy = None
    if face_coords:
        # a point inside each face is not needed: any characteristic point; use vertex mean rounded to 1/64
        fx = numpy.array([round(sum(nodes[n][0] for n in f) / len(f) * 8) / 64.0 for f in faces])
        fy = numpy.array([round(sum(nodes[n][1] for n in f) / len(f) * 8) / 64.0 for f in faces])
        coordvars['Mesh2_face_x'] = ((fdim,), fx, {'standard_name': 'longitude'})
        coordvars['Mesh2_face_y'] = ((fdim,), fy, {'standard_name': 'latitude'})
        mesh_attrs['face_coordinates'] = 'Mesh2_face_x Mesh2_face_y'
    for role in stale_attrs:
        if role not in mesh_attrs:
            mesh_attrs[role] = 'Mesh2_not_in_this_file'
    variables['Mesh2'] = xarray.DataArray(numpy.int32(0), attrs=mesh_attrs)
    if mesh_var_dim:
        variables['Mesh2'] = xarray.DataArray(numpy.zeros(1, dtype='i4'), dims=['one'], attrs=mesh_attrs)
    attrs = {'Conventions': 'UGRID-1.0', 'title': 'generated mesh'}
    if coords_as_coords:
        ds = xarray.Dataset(data_vars=variables, coords=coordvars, attrs=attrs)
    else:
        ds = xarray.Dataset(data_vars={**variables, **{k: xarray.DataArray(v[1], dims=v[0], attrs=v[2])
                                                        for k, v in coordvars.items()}}, attrs=attrs)
    kinds = {'node': [ndim], 'face': [fdim]}
    if has_edge_dim:
        kinds['edge'] = [edim]
        if edim not in ds.sizes and not phantom_edge_dim:
            # the edge dimension is declared but no connectivity variable uses it: give it a size
            # through a data variable (a dimension no variable uses has no size in xarray)
            ds['edge_marker'] = xarray.DataArray(numpy.arange(ne, dtype='f8') + 7000, dims=[edim])
    spec = {'y_off': y_off, 'nodes': nodes, 'faces': faces, 'edge_node': edge_node, 'face_edge': face_edge,
            'edge_face': edge_face, 'face_face': face_face, 'supplied': sorted(supplied), 'enc': enc,
            'has_edge_dim': has_edge_dim, 'edge_dim_declared': 'edge_dimension' in mesh_attrs,
            'coords_as_coords': coords_as_coords, 'face_coords': face_coords, 'fx': fx, 'fy': fy,
            'nn': nn, 'nf': nf, 'ne': ne, 'maxn': maxn, 'uniform': uniform,
            'dims': {'face': fdim, 'node': ndim, 'edge': edim, 'max': mdim, 'two': two},
            'label': f'ugrid nf={nf} nn={nn} maxn={maxn} si={start_index}{"(bare 0: " + ",".join(sorted(bare_zero_based)) + ")" if bare_zero_based else ""} fill={fill} T={transposed} '
                     f'sup={sorted(supplied)} edim={"edge_dimension" in mesh_attrs} coords={coords_as_coords}'
                     + (f' stale={sorted(stale_attrs)}' if stale_attrs else '') + (' phantom-edge-dim' if phantom_edge_dim else '')
                     + (' mesh(one)' if mesh_var_dim else '') + (' plus a node without coordinates' if placeholder_node else ''),
            'kinds': kinds, 'kind_order': ['node', 'face'] + (['edge'] if has_edge_dim else [])}
    return DS('ugrid', ds, spec)


FAMILIES = ['cf1d', 'cf2d', 'shoc_simple', 'shoc_standard', 'ugrid']


def any_dataset(rng, family=None, **kw):
    family = family or rng.choice(FAMILIES)
    if family == 'cf1d':
        return cf1d(rng, **kw)
    if family == 'cf2d':
        return cf2d(rng, **kw)
    if family == 'shoc_simple':
        return cf2d(rng, shoc_simple=True, **kw)
    if family == 'shoc_standard':
        return arakawa(rng, **kw)
    if family == 'ugrid':
        return ugrid(rng, **kw)
    raise ValueError(family)


# --------------------------------------------------------------------------------------------
# depth coordinates (C12, C13)

DEPTH_NAMES = {'shoc_standard': ('z_centre', 'z_grid'), 'shoc_simple': ('zc', 'zcsed')}
TIME_NAMES = {'shoc_standard': 't', 'shoc_simple': 'time'}


def add_depth(rng, ds, *, dim='k', n=None, name=None, up=None, deep_first=None, positive=None, bounds=None,
              second=None, marker=None, second_name=None, int_dtype=None, crossing=False):
    """Add a depth dimension with one (or two) coordinates.  The physical column is `phys` (eighths of a metre,
    positive down, surface first); the file stores it negated when `up` and reversed when `deep_first`.
    positive: 'attr' (attribute says up/down), 'none' (no positive attribute - the code guesses from the values).
    Returns (ds, spec)."""
    n = n or rng.randint(2, 5)
    if up is None:
        up = rng.random() < 0.5
    if deep_first is None:
        deep_first = rng.random() < 0.5
    if positive is None:
        positive = 'attr' if rng.random() < 0.75 else 'none'
    if bounds is None:
        bounds = rng.random() < 0.5
    if second is None:
        second = rng.random() < 0.25
    if name is None:
        name = dim if rng.random() < 0.4 else f'{dim}_centre'
    lo = rng.choice([0, 0, 1, 4])
    steps = [rng.choice([2, 4, 8, 12]) for _ in range(n)]
    edges = [lo]
    for s in steps:
        edges.append(edges[-1] + 2 * s)
    if crossing:
        # heights about a datum inside the column: one thick layer far on the other side of zero, so that most values have one
        # sign and their mean has the other (only the count of signs decides the guessed direction of an unlabelled axis)
        edges[0] = -2000
    phys = [(edges[i] + edges[i + 1]) // 2 for i in range(n)]          # eighths
    pb = [(edges[i], edges[i + 1]) for i in range(n)]

    def store(vals, pairs):
        vals = [-v for v in vals] if up else list(vals)
        pairs = [(-a, -b) for a, b in pairs] if up else list(pairs)
        if deep_first:
            vals, pairs = vals[::-1], pairs[::-1]
        return vals, pairs
    vals, pairs = store(phys, pb)
    attrs = {}
    if positive == 'attr':
        attrs['positive'] = 'up' if up else 'down'
        if rng.random() < 0.3:
            attrs['axis'] = 'Z'
    else:
        attrs[rng.choice(['axis', 'cartesian_axis', 'coordinate_type'])] = 'Z'
    coords = []
    if bounds:
        attrs['bounds'] = f'{name}_bnds'
        ds[f'{name}_bnds'] = xarray.DataArray(numpy.array(pairs, dtype='f8') / F8, dims=[dim, 'bnds2'])
    ds = ds.assign_coords({name: xarray.DataArray(numpy.array(vals, dtype='f8') / F8, dims=[dim], attrs=attrs)})
    if int_dtype:
        # whole numbers stored in an integer type (e.g. uint16 centimetres below the surface)
        ds = ds.assign_coords({name: xarray.DataArray(numpy.array(vals).astype(int_dtype), dims=[dim], attrs=attrs)})
        if bounds:
            ds[f'{name}_bnds'] = xarray.DataArray(numpy.array(pairs).astype(int_dtype), dims=[dim, 'bnds2'])
    coords.append({'name': name, 'attr': attrs.get('positive'), 'vals': vals, 'bounds': pairs if bounds else None})
    if second:
        # a second coordinate on the same dimension (e.g. layer interfaces' mid-depth in another unit): same
        # orientation in the file, its own sign convention
        up2 = rng.random() < 0.5
        v2 = [3 * p + 1 for p in phys]
        v2 = [-v for v in v2] if up2 else v2
        if deep_first:
            v2 = v2[::-1]
        a2 = {'positive': 'up' if up2 else 'down'}
        nm2 = second_name or f'{dim}_alt'
        ds = ds.assign_coords({nm2: xarray.DataArray(numpy.array(v2, dtype='f8') / F8, dims=[dim], attrs=a2)})
        coords.append({'name': nm2, 'attr': a2['positive'], 'vals': v2, 'bounds': None})
    spec = {'dim': dim, 'n': n, 'up': up, 'deep_first': deep_first, 'phys': phys, 'coords': coords}
    return ds, spec


# --------------------------------------------------------------------------------------------
# representation variants of a dataset: the same content held differently (none of them changes what the dataset says)

def prepend_var(ds, name, da):
    """the dataset with `name` as its FIRST data variable"""
    new = xarray.Dataset({name: da}, attrs=ds.attrs)
    new = new.assign({k: v.variable for k, v in ds.data_vars.items()})
    new = new.assign_coords({k: v.variable for k, v in ds.coords.items()})
    new.encoding = dict(ds.encoding)
    return new


def leading_reversed_var(rng, ds, kinds, kind='face', name='aaa_first'):
    """first data variable spans the grid of `kind` with its surface dimensions in REVERSE order (legal: e.g. (lon, lat))"""
    dims = list(kinds[kind])[::-1]
    shape = [ds.sizes[x] for x in dims]
    extra = rng.random() < 0.5
    if extra:
        dims, shape = ['time'] + dims, [ds.sizes.get('time', 2)] + shape
    vals = numpy.arange(int(numpy.prod(shape)), dtype='f8').reshape(shape) + 0.5
    return prepend_var(ds, name, xarray.DataArray(vals, dims=dims, attrs={'long_name': 'stored x-major'}))


def fortran_layout(ds, names=None):
    """every (named) variable of two or more dimensions held column-major in memory (as after .T, loadmat, transpose())"""
    out = ds.copy()
    for n in (names if names is not None else list(ds.variables)):
        v = ds[n]
        if v.ndim >= 2:
            arr = numpy.asfortranarray(v.values)
            new = xarray.Variable(v.dims, arr, v.attrs, v.encoding)
            out = out.assign_coords({n: new}) if n in ds.coords else out.assign({n: new})
    return out


def shift_coordinates(ds, dlon=0.0, dlat=0.0, max_lat=85.0):
    """the same dataset moved east / north: every longitude / latitude variable and its bounds"""
    def which(units, std, axis):
        ns = [n for n, v in ds.variables.items() if v.dtype.kind == 'f' and (
            v.attrs.get('units') == units or v.attrs.get('standard_name') == std or v.attrs.get('axis') == axis)]
        return ns + [ds[n].attrs['bounds'] for n in ns if ds[n].attrs.get('bounds') in ds.variables]
    out = ds.copy(deep=True)
    for names, delta in ((which('degrees_east', 'longitude', 'X'), dlon), (which('degrees_north', 'latitude', 'Y'), dlat)):
        if not delta or not names:
            continue
        if delta == dlat and max(float(numpy.nanmax(ds[n].values)) for n in names) + delta > max_lat:
            continue
        for n in names:
            v = ds[n]
            new = xarray.Variable(v.dims, v.values + delta, v.attrs, v.encoding)
            out = out.assign_coords({n: new}) if n in ds.coords else out.assign({n: new})
    return out


def label_dimensions(rng, ds, dims):
    """give the named dimensions index coordinates with unsorted labels (station numbers, row ids ...): positions, not
    labels, say which cell is which"""
    out = ds
    for k, x in enumerate(dims):
        if x in ds.coords or x not in ds.sizes or str(x) in ('lat', 'lon', 'latitude', 'longitude', 'x', 'y'):
            continue        # (a label coordinate called 'lat' would collide with the latitude column of a points table)
        n = ds.sizes[x]
        labels = [100 * (k + 1) + v for v in range(n)]
        rng.shuffle(labels)
        out = out.assign_coords({x: (x, numpy.array(labels, dtype='i4'), {'long_name': f'{x} label'})})
    out.encoding = dict(ds.encoding)
    return out
