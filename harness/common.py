"""Shared machinery of the checks: proof leg, verdicts, evidence, known findings."""
from __future__ import annotations

import hashlib
import json
import os
import random
import re
import subprocess
import sys
import time
import traceback

VERIF = '/verif'
COQ_DIR = f'{VERIF}/coq'
WORK = os.environ.get('VERIF_WORK', f'{VERIF}/work')
os.makedirs(WORK, exist_ok=True)
os.makedirs(f'{VERIF}/replays', exist_ok=True)
os.makedirs(f'{VERIF}/evidence', exist_ok=True)

FORBIDDEN = re.compile(
    r'\b(Admitted|admit|Axiom|Axioms|Parameter|Parameters|Conjecture|Hypothesis|Variable|Variables|'
    r'Unset\s+Guard|bypass_check|Admit\s+Obligations|type-in-type|impredicative-set)\b')

TRUSTED_BASE_COMMON = [
    'Coq 8.16.1 kernel (coqc; vm_compute used for Examples, *_refuted witnesses and for evaluating the '
    'model in the correspondence check; no native_compute)',
    'no Axiom/Parameter/Admitted in the development (source scan on every run); Print Assumptions of every '
    'property theorem is captured on every run and must be "Closed under the global context" or list only '
    'the standard-library axioms named in DESIGN.md section 8',
    'hand-written Gallina model of the emsarray code, tied to /repo by the correspondence check of this run '
    '(model evaluated by coqc on the same inputs as the implementation, results diffed)',
    'Python harness: generators, exact float<->rational conversion, Coq term printer/parser, canonicalisation',
    'numpy / xarray / shapely-GEOS / netCDF4 / pandas semantics are modelled, not verified',
]


def canon_hash(obj) -> str:
    return hashlib.sha1(json.dumps(obj, sort_keys=True, default=repr).encode()).hexdigest()[:16]


class Ctx:
    def __init__(self, pid: str, tier: str, seed: int):
        self.pid = pid
        self.tier = tier
        self.seed = seed
        self.rng = random.Random(f'{pid}:{seed}')
        self.t0 = time.time()
        self.evaluations = 0
        self.nontrivial = set()
        self.samples = []
        self.hist = {}
        self.violations = []       # (what, replay_path, found_input)
        self.known_hits = []
        self.notes = []
        self.assumptions = []
        self.rule = ''
        self.exhaustive = False
        self.legs = {}
        self.proof = None
        self.traces = 0
        self.known = [k for k in load_known() if k.get('property') == pid]

    # ---- bookkeeping -------------------------------------------------
    def count(self, key, n=1):
        self.hist[key] = self.hist.get(key, 0) + n

    def case(self, canonical, nontrivial: bool, sample=None):
        """Record one explored case."""
        self.evaluations += 1
        if nontrivial:
            self.nontrivial.add(canon_hash(canonical))
        if sample is not None and len(self.samples) < 4:
            self.samples.append(sample)

    def leg(self, name, n=1):
        self.legs[name] = self.legs.get(name, 0) + n

    # ---- verdicts ----------------------------------------------------
    def report(self, leg: str, what: str, case, *, impl=None, model=None, found_input=True, extra=None):
        """A disagreement or predicate failure.  Matched against known findings first."""
        rec = {'property': self.pid, 'leg': leg, 'what': what, 'seed': self.seed, 'tier': self.tier,
               'case': case, 'impl': impl, 'model': model, 'found_failing_input': found_input}
        if extra:
            rec.update(extra)
        for k in self.known:
            if k.get('status') != 'known':
                continue
            if k.get('leg') and k['leg'] != leg:
                continue
            trig = k.get('trigger_fn')
            if trig and _trigger(trig, rec):
                key = k['id']
                if key not in [h[0] for h in self.known_hits]:
                    self.known_hits.append((key, k.get('what', what)))
                    with open(f'{VERIF}/replays/KNOWN_{key}.json', 'w') as f:
                        json.dump(rec, f, indent=1, default=repr)
                return
        # keep at most a few distinct violations per leg
        if sum(1 for v in self.violations if v['leg'] == leg) >= 3:
            return
        n = len(self.violations)
        path = f'{VERIF}/replays/{self.pid}_{leg}_{n}.json'
        with open(path, 'w') as f:
            json.dump(rec, f, indent=1, default=repr)
        rec['replay'] = path
        self.violations.append(rec)

    # ---- proof leg ---------------------------------------------------
    def prove(self):
        self.proof = run_proof_leg(self.pid, thorough=(self.tier == 'thorough'))
        if not self.proof['ok']:
            self.report('proof', 'proof obligation no longer checks: ' + self.proof['error'][:400],
                        {'theorem_file': f'coq/Props/{self.pid}.v'}, found_input=False)

    # ---- finish ------------------------------------------------------
    def finish(self):
        wall = time.time() - self.t0
        pr = self.proof or {'ok': False, 'theorems': [], 'assumptions': {}, 'cmd': '', 'lemmas': 0}
        cov = {
            'obligations': len(pr['theorems']),
            'discharged': len(pr['theorems']) if pr['ok'] else 0,
            'checker_cmd': pr['cmd'],
            'trusted_base': TRUSTED_BASE_COMMON + self.assumptions,
            'theorems': pr['theorems'],
            'print_assumptions': pr['assumptions'],
            'supporting_lemmas_qed': pr.get('lemmas', 0),
            'coqchk': pr.get('coqchk'),
            'evaluations': self.evaluations,
            'distinct_nontrivial': len(self.nontrivial),
            'rule': self.rule,
            'samples': self.samples or [{'note': 'no generated cases in this run'}],
            'traces_validated_against_impl': self.evaluations,
            'input_distribution': dict(sorted(self.hist.items())),
            'correspondence_legs': self.legs,
            'exhaustive': self.exhaustive,
            'known_findings_seen': [k for k, _ in self.known_hits],
            'notes': self.notes,
        }
        ev = {
            'property_id': self.pid, 'tier': self.tier, 'seed': self.seed, 'level': 'proof',
            'coverage': cov, 'assumptions': self.assumptions, 'wall_s': round(wall, 2),
            'violations': len(self.violations),
        }
        with open(f'{VERIF}/evidence/{self.pid}.json', 'w') as f:
            json.dump(ev, f, indent=1, default=repr)
        for key, what in self.known_hits:
            print(f'KNOWN-FINDING: property={self.pid} {key}: {what}')
        for v in self.violations:
            tail = '' if v['found_failing_input'] else ' no-failing-input-found'
            print(f"VIOLATION property={self.pid} replay={v['replay']}{tail}")
            print(f"  leg={v['leg']}: {v['what'][:300]}")
        print(f'{self.pid} {self.tier}: {self.evaluations} cases, {len(self.nontrivial)} distinct non-trivial, '
              f'{cov["discharged"]}/{cov["obligations"]} theorems, {len(self.violations)} violations, '
              f'{len(self.known_hits)} known findings, {wall:.1f}s')
        return 1 if self.violations else 0


def load_known():
    p = f'{VERIF}/known_findings.json'
    if not os.path.exists(p):
        return []
    with open(p) as f:
        return json.load(f).get('findings', [])


def _trigger(name, rec):
    import triggers
    return getattr(triggers, name)(rec)


def _closure(vfile, seen):
    """Local .v files a file depends on (via `From EV Require Import`)."""
    if vfile in seen:
        return
    seen.add(vfile)
    try:
        src = open(vfile).read()
    except OSError:
        return
    for m in re.finditer(r'From EV Require (?:Import|Export)\s+(.*?)\.(?=\s|$)', src, flags=re.S):
        for mod in m.group(1).split():
            _closure(os.path.join(COQ_DIR, mod.replace('.', '/') + '.v'), seen)


def strip_comments(src):
    out = []
    depth = 0
    i = 0
    while i < len(src):
        if src.startswith('(*', i):
            depth += 1
            i += 2
        elif src.startswith('*)', i) and depth:
            depth -= 1
            i += 2
        else:
            if not depth:
                out.append(src[i])
            i += 1
    return ''.join(out)


def run_proof_leg(pid, thorough=False):
    res = {'ok': False, 'error': '', 'theorems': [], 'assumptions': {}, 'cmd': '', 'lemmas': 0}
    prop = f'{COQ_DIR}/Props/{pid}.v'
    if not os.path.exists(prop):
        res['error'] = f'{prop} missing'
        return res
    # 1. (incremental) build of the dependency closure, serialised across concurrent checks
    mk = (f'cd {COQ_DIR} && flock .lock sh -c "test -f Makefile || coq_makefile -f _CoqProject -o Makefile >/dev/null; '
          f'timeout 1500 make -j8 Props/{pid}.vo"')
    r = subprocess.run(['bash', '-c', mk], capture_output=True, text=True)
    if r.returncode != 0:
        res['error'] = 'make failed: ' + (r.stderr or r.stdout)[-1500:]
        return res
    # 2. source scan of the closure
    files = set()
    _closure(prop, files)
    lemmas = 0
    for f in sorted(files):
        src = strip_comments(open(f).read())
        bad = scan_forbidden(src)
        if bad:
            res['error'] = f'forbidden vernacular {bad!r} in {f}'
            return res
        lemmas += len(re.findall(r'\bQed\.', src))
    res['lemmas'] = lemmas
    # 3. re-check the property file itself, capturing Print Assumptions
    import shutil
    import tempfile
    tmpd = tempfile.mkdtemp(prefix=f'{pid}_props_', dir=WORK)
    out = os.path.join(tmpd, f'{pid}.vo')
    cmd = f'coqc -Q {COQ_DIR} EV -o {out} {prop}'
    res['cmd'] = f'make -C {COQ_DIR} Props/{pid}.vo && coqc -Q {COQ_DIR} EV -o <tmp>/{pid}.vo {prop}'
    r = subprocess.run(['bash', '-c', f'timeout 600 {cmd}'], capture_output=True, text=True)
    shutil.rmtree(tmpd, ignore_errors=True)
    if r.returncode != 0:
        res['error'] = 'coqc Props failed: ' + (r.stderr or r.stdout)[-1500:]
        return res
    src = strip_comments(open(prop).read())
    thms = re.findall(r'\bTheorem\s+([A-Za-z_0-9\']+)', src)
    prints = re.findall(r'Print Assumptions\s+([A-Za-z_0-9\']+)', src)
    res['theorems'] = thms
    missing = [t for t in thms if t not in prints]
    if missing:
        res['error'] = f'no Print Assumptions for {missing}'
        return res
    blocks = re.split(r'(?m)^(?=Closed under the global context|Axioms:)', r.stdout)
    blocks = [b.strip() for b in blocks if b.strip()]
    if len(blocks) != len(prints):
        res['error'] = f'expected {len(prints)} Print Assumptions outputs, got {len(blocks)}'
        return res
    allowed = load_allowed_axioms()
    for name, b in zip(prints, blocks):
        if b.startswith('Closed under the global context'):
            res['assumptions'][name] = 'Closed under the global context'
        else:
            axs = re.findall(r'(?m)^([A-Za-z_][A-Za-z_0-9\.\']*)\s*:', b)
            res['assumptions'][name] = axs
            bad = [a for a in axs if a not in allowed]
            if bad:
                res['error'] = f'{name} depends on axioms not in the allowed stdlib list: {bad}'
                return res
    if thorough and os.environ.get('VERIF_COQCHK', '1') == '1':
        cc = f'cd {COQ_DIR} && timeout 1500 coqchk -silent -o -Q . EV EV.Props.{pid}'
        r = subprocess.run(['bash', '-c', cc], capture_output=True, text=True)
        res['coqchk'] = {'cmd': cc, 'rc': r.returncode, 'tail': (r.stdout + r.stderr)[-1200:]}
        if r.returncode != 0:
            res['error'] = 'coqchk failed: ' + (r.stdout + r.stderr)[-800:]
            return res
    res['ok'] = True
    return res


def scan_forbidden(src):
    """First forbidden vernacular in (comment-stripped) source, or None.
    `Variable` / `Hypothesis` are allowed inside a Section only."""
    stack = []
    pat = re.compile(r'\b(Section|Module\s+Type|Module|End)\s+([A-Za-z_0-9\']+)\s*[\.:(<]|' + FORBIDDEN.pattern)
    for m in pat.finditer(src):
        if m.group(1):
            kw = m.group(1).split()[0]
            if kw == 'End':
                if stack:
                    stack.pop()
            else:
                stack.append(kw)
            continue
        word = m.group(0)
        if word in ('Variable', 'Variables', 'Hypothesis') and 'Section' in stack:
            continue
        return word
    return None


def load_allowed_axioms():
    return {
        # standard-library axioms that may appear; each is named in DESIGN.md section 8
        'functional_extensionality_dep', 'FunctionalExtensionality.functional_extensionality_dep',
        'Eqdep.Eq_rect_eq.eq_rect_eq', 'eq_rect_eq', 'JMeq_eq', 'JMeq.JMeq_eq',
        'proof_irrelevance', 'ProofIrrelevance.proof_irrelevance', 'classic', 'Classical_Prop.classic',
    }


def main_wrapper(pid, run_fn):
    import argparse
    ap = argparse.ArgumentParser()
    ap.add_argument('tier', nargs='?', default=os.environ.get('VERIF_TIER', 'quick'))
    ap.add_argument('--replay')
    a = ap.parse_args(sys.argv[2:])
    seed = int(os.environ.get('VERIF_SEED', '0'))
    tier = a.tier
    replay = None
    if a.replay:
        # every random choice derives from (property, seed, tier): re-running the recorded seed and tier
        # regenerates the recorded case (and everything generated before it) against the current tree
        with open(a.replay) as f:
            replay = json.load(f)
        seed = int(replay.get('seed', seed))
        tier = replay.get('tier', tier)
        print(f'replaying {a.replay}: seed={seed} tier={tier} leg={replay.get("leg")} what={str(replay.get("what"))[:200]}')
    ctx = Ctx(pid, tier, seed)
    ctx.replay = replay
    inner_run = run_fn

    def run_fn(c):
        # the property's own generators, then the shared leg: the same content held in less common ways (harness/traits.py)
        inner_run(c)
        import traits
        traits.run_for(c, n_per_family=1 if c.tier == 'quick' else 4)
    try:
        ctx.prove()
        run_fn(ctx)
        # the code under /repo/src differs from the tree the checks were last validated against (anchors.json): somebody
        # changed it, so before answering the quick tier explores further - the same generators under fresh seeds - until a
        # violation shows or the budget is spent.  (On the unchanged tree nothing differs and nothing extra runs.)
        if tier == 'quick' and replay is None and not ctx.violations:
            drift = source_drift()
            if drift:
                ctx.notes.append(f'source drift against anchors.json: {drift[:8]}{" ..." if len(drift) > 8 else ""}')
                budget = float(os.environ.get('VERIF_DRIFT_BUDGET_S', '150'))
                for k in range(1, int(os.environ.get('VERIF_DRIFT_PASSES', '3')) + 1):
                    if ctx.violations or time.time() - ctx.t0 > budget:
                        break
                    ctx.seed = seed + 1000 * k
                    ctx.rng = random.Random(f'{pid}:{ctx.seed}')
                    ctx.count('source_drift:extra_pass')
                    run_fn(ctx)
                ctx.seed = seed
    except Exception as exc:
        tb = traceback.format_exc()
        frames = traceback.extract_tb(exc.__traceback__)
        if frames and '/emsarray/' in frames[-1].filename.replace(os.sep, '/') and '/harness/' not in frames[-1].filename:
            # the implementation raised on a dataset the generators built (an unguarded call in the check): that is an
            # observation about the implementation - on the validated tree none of these calls fails - and the recorded seed
            # regenerates the dataset
            where = ' <- '.join(f'{os.path.basename(fr.filename)}:{fr.name}:{fr.lineno}' for fr in frames[-4:])
            ctx.report('property', f'emsarray raised {type(exc).__name__}: {str(exc)[:200]} ({where}) on a generated dataset for which '
                       f'the validated tree answers', {'traceback': tb[-1500:]})
        else:
            ctx.report('harness', 'check crashed: ' + tb[-1500:], {'traceback': tb}, found_input=False)
    return ctx.finish()


def source_drift():
    """emsarray source files whose content differs from anchors.json (changed, added or removed)"""
    import hashlib
    try:
        with open(f'{VERIF}/anchors.json') as f:
            want = json.load(f)['files']
    except (OSError, ValueError, KeyError):
        return []
    repo = os.environ.get('VERIF_REPO', '/repo')
    have = {}
    for root, _, names in os.walk(f'{repo}/src/emsarray'):
        for n in names:
            if n.endswith('.py'):
                p = os.path.join(root, n)
                with open(p, 'rb') as f:
                    have[os.path.relpath(p, repo)] = hashlib.sha256(f.read()).hexdigest()
    return sorted(k for k in set(want) | set(have) if want.get(k) != have.get(k))
