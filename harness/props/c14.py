"""C14 - triangulation exactly partitions every cell polygon."""
import warnings
from fractions import Fraction

import numpy
import xarray

import emsarray  # noqa: F401
from emsarray.operations.triangulate import triangulate_dataset
from coqio import Some, coq_eval_sharded, to_coq
import gen
import polymodel as pm
from hutil import attempt


def fr(x):
    return Fraction(float(x))


def area2(ring):
    s = Fraction(0)
    for (x0, y0), (x1, y1) in zip(ring, ring[1:] + ring[:1]):
        s += fr(x0) * fr(y1) - fr(x1) * fr(y0)
    return s


def special_meshes():
    """single faces in every rotation and both windings: dart quadrilaterals, an L-shaped octagon, a hexagon with two
    collinear vertices, a square with a vertex in the middle of a side, a concave pentagon"""
    shapes = {
        'dart': [(0, 0), (32, 0), (8, 8), (0, 32)],
        'dart2': [(0, 0), (16, 8), (32, 0), (16, 32)],
        'L': [(0, 0), (16, 0), (16, 8), (8, 8), (8, 16), (0, 16)],
        'L8': [(0, 0), (8, 0), (16, 0), (16, 8), (8, 8), (8, 16), (0, 16), (0, 8)],
        'hex_collinear': [(0, 0), (8, 0), (16, 0), (16, 8), (8, 8), (0, 8)],
        'side_vertex': [(0, 0), (8, 0), (16, 0), (16, 16), (0, 16)],
        'pent_concave': [(0, 0), (16, 0), (16, 16), (8, 4), (0, 16)],
        'arrow': [(0, 0), (8, 4), (16, 0), (12, 12), (16, 24), (8, 20), (0, 24), (4, 12)],
    }
    out = []
    for name, pts in shapes.items():
        for rev in (False, True):
            seq = pts[::-1] if rev else pts
            for k in range(len(seq)):
                rot = seq[k:] + seq[:k]
                out.append((f'{name}{"_cw" if rev else ""}_rot{k}', rot))
    return out


def run(ctx):
    rng = ctx.rng
    quick = ctx.tier == 'quick'
    ctx.rule = ('datasets of every convention (holes, invalid cells) and generated meshes (triangles .. octagons, concave, '
                'collinear vertices, either winding) plus single-face meshes of eight special shapes (darts, L shapes, collinear '
                'hexagon, vertex on a side, concave pentagon, eight-pointed arrow) in every rotation and both windings; per cell '
                'the implementation triangles go through the exact rational checker partition_okb and are compared with the model '
                'triangulation. one case = one cell; non-trivial = the cell is not strictly convex; distinct by cell ring')
    datasets = []
    specials = special_meshes()
    if quick:
        specials = specials[::3] + specials[1::7]
    # pack special faces several to a mesh (disjoint copies on a row)
    per = 6
    for k in range(0, len(specials), per):
        # a self-intersecting face first: it has no geometry, so every later cell sits after a hole
        nodes = [(-40, 0), (-32, 8), (-32, 0), (-40, 8)]
        faces = [[0, 1, 2, 3]]
        for m, (name, pts) in enumerate(specials[k:k + per]):
            base = len(nodes)
            nodes += [(x + 40 * m, y) for x, y in pts]
            faces.append(list(range(base, base + len(pts))))
        datasets.append(('special', gen.ugrid(rng, mesh=(nodes, faces), invalid=False, supplied=set())))
    for n in range(10 if quick else 80):
        fam = gen.FAMILIES[n % len(gen.FAMILIES)]
        datasets.append((fam, gen.any_dataset(rng, fam)))
    # curvilinear grids without stored bounds and with missing cells: the synthesised bounds next to a hole repeat a vertex
    for n in range(16 if quick else 60):
        datasets.append(('cf2d_holes', gen.cf2d(rng, ny=rng.randint(2, 3), nx=rng.randint(2, 4), bounds=False,
                                                holes=rng.choice(['edge', 'random', 'corner']), shoc_simple=(n % 2 == 0), invalid=False)))
    # the same special shapes at harbour scale: coordinates divided by 2^21 (edges of a few millionths of a degree, exact in
    # floating point) - every vertex is still a vertex
    tiny_nodes, tiny_faces = [], []
    for m, (name, pts) in enumerate(special_meshes()[:8]):
        base = len(tiny_nodes)
        tiny_nodes += [((x + 40 * m) / 2.0 ** 18, y / 2.0 ** 18) for x, y in pts]
        tiny_faces.append(list(range(base, base + len(pts))))
    datasets.append(('tiny_cells', gen.ugrid(rng, mesh=(tiny_nodes, tiny_faces), invalid=False, supplied=set())))
    # a large, mostly dry domain: the cells with geometry have linear indexes above 255 while there are few triangles
    datasets.append(('mostly_dry', gen.cf2d(rng, ny=18, nx=16, bounds=True, holes='mostly_dry', invalid=False)))
    if not quick:
        datasets.append(('mostly_dry', gen.cf2d(rng, ny=130, nx=520, bounds=False, holes='mostly_dry', invalid=False)))
    # cells that spell a shared corner differently: 0.0 in one cell's bounds, -0.0 in its neighbour's (mirrored hemispheres,
    # rounded bounds); the two are the same point and must be one vertex
    for flip in ([0] if quick else [0, 1, 2]):
        hi = numpy.array([[0.0, 1.0], [1.0, 2.5]])
        lo = -hi[::-1, ::-1]                                  # [[-2.5, -1.0], [-1.0, -0.0]]
        edges = numpy.concatenate([lo, hi])
        centres = edges.mean(axis=1)
        if flip == 1:
            edges = edges[::-1, ::-1].copy()
            centres = centres[::-1].copy()
        zds = xarray.Dataset(
            {'lat_bnds': (('lat', 'bnds'), edges), 'lon_bnds': (('lon', 'bnds'), edges if flip != 2 else hi)},
            coords={'lat': ('lat', centres, {'units': 'degrees_north', 'bounds': 'lat_bnds'}),
                    'lon': ('lon', centres if flip != 2 else hi.mean(axis=1), {'units': 'degrees_east', 'bounds': 'lon_bnds'})})
        datasets.append(('signed_zero', gen.DS('cf1d', zds, {'label': f'cf1d mirrored bounds with 0.0 / -0.0 ({flip})'})))
    exprs, plans = [], []
    for kind, d in datasets:
        label = d.spec['label']
        ds = d.ds
        with warnings.catch_warnings():
            warnings.simplefilter('ignore')
            polys = pm.impl_polygons(ds.ems)
            r = attempt(triangulate_dataset, ds)
        ctx.count(f'dataset:{kind}')
        case0 = {'dataset': label}
        if r[0] != 'ok':
            ctx.case(label, True)
            ctx.report('property', f'triangulate_dataset failed: {r[1]} (faces: {d.spec.get("faces")})', case0)
            continue
        verts, tris, tags = r[1]
        verts = [tuple(float(x) for x in v) for v in numpy.asarray(verts).reshape(-1, 2)]
        tris = numpy.asarray(tris).reshape(-1, 3)
        tags = [int(t) for t in numpy.asarray(tags).reshape(-1)]
        bad = None
        if tris.dtype.kind not in 'iu':
            n_bad = int((tris != tris).any(axis=1).sum()) if tris.dtype.kind == 'f' else len(tris)
            ctx.case(label, True)
            ctx.report('property', f'the triangles are not given as vertex numbers ({tris.dtype}): {n_bad} of {len(tris)} triangles name '
                       f'no vertex of the list', case0)
            continue
        if len(set(verts)) != len(verts):
            bad = 'the vertex list has duplicates'
        if len(tris) and (tris.min() < 0 or tris.max() >= len(verts)):
            bad = bad or 'a triangle refers to a vertex index outside the vertex list'
        per_cell = {}
        for t, tag in zip(tris, tags):
            per_cell.setdefault(tag, []).append([verts[int(i)] for i in t])
        for tag in per_cell:
            if not (0 <= tag < len(polys)) or polys[tag] is None:
                bad = bad or f'triangles tagged with cell {tag}, which has no geometry'
        if bad:
            ctx.case(label, True)
            ctx.report('property', bad, case0)
            continue
        cells_lit = []
        checks = []
        for n, p in enumerate(polys):
            if p is None:
                cells_lit.append('None')
                continue
            full = [tuple(c) for c in p]
            cells_lit.append(f'(Some {pm.ring_literal(full)})')
            # a repeated vertex is not a side (the cell has fewer sides than coordinates)
            ring = [v for k, v in enumerate(full) if v != full[k - 1]] if len(full) > 1 else full
            if len(ring) != len(full):
                ctx.count('cell:repeated_vertex')
            got = per_cell.get(n, [])
            convex = None
            case = dict(case0, cell=n, ring=ring)
            # direct (python, exact): count and areas
            a_ring = area2(ring)
            a_tris = [area2(t) for t in got]
            turns = []
            m = len(ring)
            for k in range(m):
                (x0, y0), (x1, y1), (x2, y2) = ring[k], ring[(k + 1) % m], ring[(k + 2) % m]
                turns.append((fr(x1) - fr(x0)) * (fr(y2) - fr(y0)) - (fr(y1) - fr(y0)) * (fr(x2) - fr(x0)))
            convex = all(t > 0 for t in turns) or all(t < 0 for t in turns)
            ctx.case((label, n, str(ring)), not convex, sample=case if not convex and len(ctx.samples) < 3 else None)
            ctx.count(f'cell:{"convex" if convex else "not_strictly_convex"}:{m}_sides')
            cbad = None
            if len(got) != m - 2:
                cbad = f'cell {n} with {m} sides has {len(got)} triangles'
            elif sum(a_tris) != a_ring:
                cbad = f'cell {n}: triangle areas add up to {float(sum(a_tris)) / 2}, the cell has area {float(a_ring) / 2}'
            elif any((a > 0) != (a_ring > 0) or a == 0 for a in a_tris):
                cbad = f'cell {n}: a triangle is degenerate or wound against the cell (it lies outside or overlaps)'
            elif any(v not in ring for t in got for v in t):
                cbad = f'cell {n}: a triangle corner is not a vertex of the cell'
            if cbad:
                ctx.report('property', cbad, case)
                continue
            checks.append((n, ring, got))
        if not checks:
            continue
        if len(polys) > 2000:
            ctx.count('large_dataset:exact python checks only (no model evaluation)')
            continue
        tl = lambda t: '(' + ', '.join(f'({pm.coq_q(x)}, {pm.coq_q(y)})' for x, y in t) + ')'     # noqa: E731
        chk = '[' + '; '.join(f'partition_okb {pm.ring_literal(ring)} [{"; ".join(tl(t) for t in got)}]' for _, ring, got in checks) + ']'
        exprs.append(f'({chk}, show_cells [{"; ".join(cells_lit)}])')
        plans.append((case0, checks, per_cell, polys))
    model = coq_eval_sharded(['Base.Geom', 'Model.Triangulate'], exprs, shard=3, workers=14, timeout=1500)
    ctx.leg('datasets_evaluated', len(exprs))
    for (case0, checks, per_cell, polys), (m_ok, m_tris) in zip(plans, model):
        for (n, ring, got), ok in zip(checks, m_ok):
            if ok is not True:
                ctx.report('property', f'cell {n}: the triangles {got} do not partition the cell {ring} exactly (exact checker: a triangle '
                           f'lies outside the cell, two overlap, or the areas do not add up)', dict(case0, cell=n, ring=ring))
        # model triangulation, cell by cell (cells with geometry, in order)
        have = [n for n, p in enumerate(polys) if p is not None]
        for n, mt in zip(have, m_tris):
            got = per_cell.get(n, [])
            if mt is None:
                ctx.report('correspondence', f'cell {n}: the model finds no ear, the implementation returned {len(got)} triangles',
                           dict(case0, cell=n), found_input=False)
                continue
            def fl(q):
                return float(Fraction(q[0], q[1]))
            mt_f = [[(fl(a[0]), fl(a[1])) for a in (t[0][0], t[0][1], t[1])] for t in mt.v]
            if mt_f != [[tuple(v) for v in t] for t in got]:
                ctx.report('correspondence', f'cell {n}: model triangles {mt_f} differ from the implementation {got}', dict(case0, cell=n),
                           found_input=False)
