"""C05 - index and point selection return the stored values, complete and in order."""
import warnings
import numpy
import pandas
import xarray
from shapely.geometry import Point

import emsarray  # noqa: F401
from emsarray.exceptions import NoSuchCoordinateError  # noqa: F401
from emsarray.operations import point_extraction
from coqio import Some, coq_eval_sharded, to_coq, tup
import gen
import polymodel as pm
from hutil import Names, attempt, flat_codes, nan_equal
from props.c01 import FLAVOUR, KCODE, all_kind_enums, expected_shapes, to_native


def var_literal(names, name, da, dummy=False):
    dims = [names.code(x) for x in da.dims]
    data = [0] * int(da.size) if dummy else flat_codes(da.values)
    return f'({names.code("var:" + str(name))}, mkv {to_coq(dims)} {to_coq([int(s) for s in da.shape])} {to_coq(data)})'


def show_impl_ds(names, ds):
    out = []
    for name, da in ds.data_vars.items():
        out.append((names.code('var:' + str(name)),
                    tup([names.code(x) for x in da.dims], [int(s) for s in da.shape], flat_codes(da.values))))
    return Some(out)


def is_int_valued(da):
    v = numpy.asarray(da.values, dtype='f8')
    return bool(numpy.all(numpy.isnan(v) | (v == numpy.round(v))))


def run(ctx):
    rng = ctx.rng
    quick = ctx.tier == 'quick'
    ctx.rule = ('generated datasets of every convention with variables on every grid kind (extra dimensions in any order, '
                'NaN values), a variable on no grid and the geometry variables; index lists with repeats in any order '
                '(length 1..8), empty and mixed-kind lists (malformed stream), default and custom index dimension; point lists '
                'mixing interior hits, boundary hits and misses under error / drop / fill through select_points, '
                'extract_points and extract_dataframe. A case is one call; non-trivial = >= 2 requests or a miss; '
                'distinct by (dataset label, request)')
    n_ds = 16 if quick else 120
    exprs, plans = [], []
    for n in range(n_ds):
        d = gen.any_dataset(rng, 'cf1d', ny=10, nx=20) if n == 0 else gen.any_dataset(rng)
        if n == 2:
            # an Arakawa C grid whose face longitude is stored (i, j) while the face latitude is stored (j, i)
            d = gen.arakawa(rng, nj=3, ni=4, holes='none', invalid=False, transposed_coords=('x_centre',))
            ctx.count('face longitude stored with its dimensions the other way round')
        if n % 3 == 1:
            # grid dimensions carrying index coordinates with unsorted labels: cells are addressed by position
            d.ds = gen.label_dimensions(rng, d.ds, [x for k in d.spec['kinds'].values() for x in k])
            ctx.count('grid dimensions with unsorted labels')
        flav = FLAVOUR[d.family]
        ds = d.ds
        names = Names()
        vars_ = gen.add_data_vars(rng, ds, d.spec['kinds'], n_extra_max=2)
        ds['nogrid'] = xarray.DataArray(numpy.arange(6.0).reshape(2, 3), dims=['time_x', 'k_x'])
        fd_ = list(d.spec['kinds']['face'])
        if len(fd_) == 2 and len(vars_) % 2 == 0:
            # variables along one of the two surface dimensions only (the area of a row of cells, a zonal mean per time step):
            # they use a selected dimension, so they are selected along it
            ds['row_area'] = xarray.DataArray(numpy.arange(ds.sizes[fd_[0]], dtype='f8') + 700, dims=[fd_[0]])
            ds['zonal_mean'] = xarray.DataArray(numpy.arange(2 * ds.sizes[fd_[1]], dtype='f8').reshape(2, -1) + 800, dims=['time_z', fd_[1]])
            vars_ = list(vars_) + [('row_area', 'face', [fd_[0]]), ('zonal_mean', 'face', ['time_z', fd_[1]])]
            ctx.count('variables along one surface dimension only')
        ems = ds.ems
        enums = all_kind_enums(ems)
        shapes = expected_shapes(d)
        geom = [str(x) for x in ems.get_all_geometry_names()]
        geom_codes = [names.code('var:' + g) for g in geom]
        dslit = '[' + '; '.join(
            var_literal(names, nm, da, dummy=(str(nm) in geom or not is_int_valued(da)))
            for nm, da in ds.data_vars.items()) + ']'
        ctx.count(f'family:{d.family}')
        # ---------- index selection
        for kind in d.spec['kind_order']:
            shape = shapes[kind]
            G = [names.code(x) for x in d.spec['kinds'][kind]]
            kc = KCODE[flav][kind]
            for rep in range(2 if quick else 5):
                k = rng.choice([1, 1, 2, 3, 5, 8])
                rows = [[rng.randrange(s) for s in shape] for _ in range(k)]
                if k >= 2 and rng.random() < 0.5:
                    rows[-1] = list(rows[0])       # a repeat
                nd_name = rng.choice([None, None, 'my_index', 'pt'])
                nd = names.code(nd_name if nd_name else 'index')
                expr = (f'(show_ds (select_indexes {to_coq(geom_codes)} {to_coq(G)} {to_coq(shape)} '
                        f'{to_coq([kc] * k)} {to_coq(rows)} {nd} {dslit}))')
                exprs.append(expr)
                plans.append(('sel', d, names, ems, enums, flav, kind, rows, nd_name, vars_))
                ctx.count('op:select_indexes')
        # malformed: empty and mixed kinds
        exprs.append(f'(show_ds (select_indexes {to_coq(geom_codes)} [] [] [] [] 0 {dslit}))')
        plans.append(('sel_empty', d, names, ems, enums, flav, None, [], None, vars_))
        ctx.count('op:select_indexes_malformed')
        # ---------- point extraction
        polys = pm.impl_polygons(ems)
        rings = [(n_, p) for n_, p in enumerate(polys) if p is not None]
        if not rings:
            continue
        import shapely
        shp = [(n_, shapely.Polygon(r)) for n_, r in rings]
        xs = [x for _, r in rings for x, y in r]
        ys = [y for _, r in rings for x, y in r]
        for rep in range(3 if quick else 8):
            npts = rng.choice([1, 2, 3, 4, 6])
            pts = []
            for _ in range(npts):
                c = rng.random()
                _, r = rng.choice(rings)
                if c < 0.45:
                    a, b = r[0], r[len(r) // 2]
                    pts.append(((a[0] + b[0]) / 2, (a[1] + b[1]) / 2))
                elif c < 0.65:
                    pts.append(r[rng.randrange(len(r))])
                else:
                    pts.append((max(xs) + rng.choice([1.0, 7.5]), min(ys) - rng.choice([0.125, 3.0])))
            if rep == 1:
                # two requests a hair apart (2^-24 degrees) on either side of a cell edge: different cells, or one inside and
                # one outside the model
                _, r = rng.choice(rings)
                k = rng.randrange(len(r))
                a, b = r[k], r[(k + 1) % len(r)]
                mx, my = (a[0] + b[0]) / 2, (a[1] + b[1]) / 2
                dl = 2.0 ** -24
                pts += [(mx + dl, my + dl / 2), (mx - dl, my - dl / 2)]
            if rep == 0:
                pts[0] = (max(xs) + 5.0, max(ys) + 5.0)      # the first point misses
            # which cell each point belongs to: the lowest-indexed polygon that contains or touches it
            # (decided polygon by polygon, not through the implementation's lookup)
            found = []
            for (x, y) in pts:
                hit = next((n_ for n_, sp in shp if sp.intersects(Point(x, y))), None)
                found.append(None if hit is None else Some(hit))
            for pol in ['PError', 'PDrop', 'PFill']:
                exprs.append(f'(show_outcome (extract {pol} {to_coq(found)}))')
                plans.append(('pts', d, names, ems, enums, flav, pol, pts, found, vars_))
                ctx.count(f'op:extract_{pol}')
                ctx.count(f'misses:{min(3, sum(1 for f in found if f is None))}')
    model = coq_eval_sharded(['Model.Select'], exprs, shard=40)
    ctx.leg('coq_eval_cases', len(exprs))

    snapshots = {}
    for plan, mres in zip(plans, model):
        tag, d, names, ems, enums, flav = plan[:6]
        label = d.spec['label']
        ds = d.ds
        if id(d) not in snapshots:
            snapshots[id(d)] = (d, ds.copy(deep=True))
        if tag in ('sel', 'sel_empty'):
            kind, rows, nd_name, vars_ = plan[6:]
            case = {'dataset': label, 'op': 'select_indexes', 'kind': kind, 'indexes': rows, 'index_dimension': nd_name}
            ctx.case((label, 'sel', kind, str(rows), nd_name), len(rows) >= 2, sample=case if len(rows) >= 3 else None)
            natives = [to_native(flav, enums, kind, r) for r in rows]
            kw = {} if nd_name is None else {'index_dimension': nd_name}
            r = attempt(ems.select_indexes, natives, **kw)
            if tag == 'sel_empty':
                if r[0] == 'ok':
                    ctx.report('property', 'an empty index list was selected instead of refused', case)
                continue
            if r[0] != 'ok':
                ctx.report('property', f'select_indexes failed: {r[1]}', case)
                continue
            out = r[1]
            nd = nd_name or 'index'
            gdims = d.spec['kinds'][kind]
            bad = None
            want_vars = [nm for nm, _, dims in vars_ if set(dims) & set(gdims)]
            # the generator's own marker variable that gives a declared edge dimension its size
            if 'edge_marker' in ds.data_vars and set(ds['edge_marker'].dims) & set(gdims):
                want_vars.append('edge_marker')
            have = [str(x) for x in out.data_vars]
            geom = {str(x) for x in ems.get_all_geometry_names()}
            if set(have) & geom:
                bad = f'geometry variables {sorted(set(have) & geom)} present in the selection'
            elif 'nogrid' in have or sorted(have) != sorted(want_vars):
                bad = f'variables {have} selected, the variables on the {kind} grid are {want_vars}'
            else:
                for nm in want_vars:
                    sv = out[nm]
                    if nd not in sv.dims or sv.sizes[nd] != len(rows):
                        bad = f'{nm}: no dimension {nd} of length {len(rows)}'
                        break
                    src = ds[nm]
                    for k, row in enumerate(rows):
                        sel = {g: ix for g, ix in zip(gdims, row) if g in src.dims}
                        want = src.isel(sel)
                        got = sv.isel({nd: k})
                        if tuple(got.dims) != tuple(want.dims) or not nan_equal(got.values, want.values):
                            bad = f'{nm}: row {k} is not the stored value at index {row} (dims {got.dims} vs {want.dims})'
                            break
                    if bad:
                        break
            # select_index is the single-index, squeezed form
            if not bad:
                s1 = attempt(ems.select_index, natives[0])
                if s1[0] != 'ok':
                    bad = f'select_index failed: {s1[1]}'
                else:
                    for nm in want_vars:
                        src = ds[nm]
                        want = src.isel({g: ix for g, ix in zip(gdims, rows[0]) if g in src.dims})
                        if not nan_equal(s1[1][nm].values, want.values):
                            bad = f'select_index: {nm} differs from the stored value at {rows[0]}'
                            break
            # a request holding one index outside the grid is refused: no other cell is returned in its place
            if not bad:
                gshape = [ds.sizes[g] for g in gdims]
                ax_ = len(rows) % len(gshape)
                off_ = list(rows[0])
                off_[ax_] = gshape[ax_] + (len(rows) % 2)
                req = natives[:1] + [to_native(flav, enums, kind, off_)]
                with warnings.catch_warnings():
                    warnings.simplefilter('ignore')
                    r_off = attempt(lambda: ems.select_indexes(req).load())
                ctx.count('select_indexes:outside the grid')
                if r_off[0] == 'ok':
                    bad = f'select_indexes accepted the index {off_} outside the grid of shape {gshape} and returned data for it'
            # selectors made for several indexes first and used afterwards: each still selects its own cell
            if not bad and want_vars:
                sels = attempt(lambda: [ems.selector_for_index(nat_) for nat_ in natives])
                if sels[0] == 'ok':
                    for k_, (sel_, row_) in enumerate(zip(sels[1], rows)):
                        nm = want_vars[0]
                        src = ds[nm]
                        want = src.isel({g: ix for g, ix in zip(gdims, row_) if g in src.dims})
                        got_ = attempt(lambda: src.isel({str(g_): sel_[g_] for g_ in sel_.variables if str(g_) in src.dims}))
                        if got_[0] != 'ok' or not nan_equal(numpy.asarray(got_[1].values).reshape(-1), numpy.asarray(want.values).reshape(-1)):
                            bad = f'selector_for_index: the selector made for index {row_} (request {k_} of {len(rows)}), used after the others were made, does not select that cell'
                            break
            if bad:
                ctx.report('property', bad, case)
            elif show_impl_ds(names, out) != mres:
                ctx.report('correspondence', f'model Select and implementation differ: impl {str(show_impl_ds(names, out))[:300]} '
                           f'model {str(mres)[:300]}', case, found_input=False)
        else:
            pol, pts, found, vars_ = plan[6:]
            (m_code, m_labels), m_sel = mres
            case = {'dataset': label, 'op': 'extract', 'policy': pol, 'points': pts,
                    'found': [None if f is None else f.v for f in found]}
            misses = [k for k, f in enumerate(found) if f is None]
            ctx.case((label, pol, str(pts)), len(pts) >= 2 or bool(misses), sample=case if misses and len(pts) >= 3 else None)
            points = [Point(x, y) for x, y in pts]
            face_vars = [nm for nm, kind, dims in vars_ if kind == 'face']
            gdims = d.spec['kinds']['face']
            df = pandas.DataFrame({'lon': [p[0] for p in pts], 'lat': [p[1] for p in pts],
                                   'tag': [100 + k for k in range(len(pts))]})
            calls = []
            if pol in ('PError', 'PDrop'):
                mp = 'error' if pol == 'PError' else 'drop'
                calls.append(('select_points', lambda: ems.select_points(points, missing_points=mp)))
                calls.append(('extract_points', lambda: point_extraction.extract_points(ds, points, missing_points=mp)))
                calls.append(('extract_dataframe', lambda: point_extraction.extract_dataframe(
                    ds, df, ('lon', 'lat'), missing_points=mp)))
            else:
                calls.append(('extract_dataframe', lambda: point_extraction.extract_dataframe(
                    ds, df, ('lon', 'lat'), missing_points='fill')))
            # the same calls on the dataset held as dask arrays (as opened with chunks=...), every second request
            if (len(pts) + len(misses)) % 2 == 0 or len(pts) >= 4:
                try:
                    dsc = ds.chunk()
                except Exception:     # noqa: BLE001
                    dsc = None
                if dsc is not None:
                    mp2 = {'PError': 'error', 'PDrop': 'drop', 'PFill': 'fill'}[pol]
                    calls.append(('extract_dataframe[dask]', lambda: point_extraction.extract_dataframe(
                        dsc, df, ('lon', 'lat'), missing_points=mp2)))
                    if pol != 'PFill':
                        calls.append(('extract_points[dask]', lambda: point_extraction.extract_points(dsc, points, missing_points=mp2)))
                    ctx.count('op:extract_on_dask_arrays')
            df.index.name = 'visit'             # the caller's own name for the rows of his table
            df_before = df.copy(deep=True)
            pts_before = [(q.x, q.y) for q in points]
            for cname, fn in calls:
                bad = None
                impl = None
                try:
                    out = fn()
                    # the caller's own objects are left as they were: the table (values, column order, index and its name) and
                    # the list of points
                    if not df.equals(df_before) or list(df.columns) != list(df_before.columns) or df.index.name != df_before.index.name \
                            or list(df.index) != list(df_before.index):
                        ctx.report('property', f'{cname}: the caller\'s table was modified (index name {df_before.index.name!r} -> {df.index.name!r}, '
                                   f'columns {list(df_before.columns)} -> {list(df.columns)})', dict(case, call=cname))
                        df = df_before.copy(deep=True)
                        continue
                    if [(q.x, q.y) for q in points] != pts_before:
                        ctx.report('property', f'{cname}: the caller\'s list of points was modified', dict(case, call=cname))
                        continue
                    labels = [int(x) for x in out['point'].values]
                    impl = (0, labels)
                    # which rows, which labels
                    if pol == 'PError' and misses:
                        bad = f'{cname}: points {misses} miss the model but no error was raised'
                    elif pol in ('PError', 'PDrop') and labels != [k for k in range(len(pts)) if k not in misses]:
                        bad = f'{cname}: rows labelled {labels}, the points that hit are {[k for k in range(len(pts)) if k not in misses]}'
                    elif pol == 'PFill' and labels != list(range(len(pts))):
                        bad = f'{cname}: rows labelled {labels}, every row should be kept'
                    else:
                        for nm in face_vars:
                            src = ds[nm]
                            for row, lab in enumerate(labels):
                                got = out[nm].isel(point=row).values
                                f = found[lab]
                                if f is None:
                                    if not numpy.all(numpy.isnan(numpy.asarray(got, dtype='f8'))):
                                        bad = f'{cname}: {nm} row {row} (a miss) holds data'
                                        break
                                else:
                                    idx = numpy.unravel_index(f.v, [ds.sizes[g] for g in gdims])
                                    want = src.isel({g: int(ix) for g, ix in zip(gdims, idx) if g in src.dims}).values
                                    if not nan_equal(got, want):
                                        bad = f'{cname}: {nm} row {row} is not the value stored at cell {f.v}'
                                        break
                            if bad:
                                break
                        if not bad and cname.startswith('extract_dataframe'):
                            if [int(x) for x in out['tag'].values] != [100 + k for k in labels]:
                                bad = f'{cname}: table column does not follow the rows'
                        if not bad:
                            others = [nm for nm, kind, dims in vars_ if kind != 'face'] + ['nogrid']
                            geom = {str(x) for x in ems.get_all_geometry_names()}
                            extra = [str(v) for v in out.data_vars if str(v) in others or str(v) in geom]
                            if extra:
                                bad = f'{cname}: variables {extra} of another grid / geometry are present'
                except point_extraction.NonIntersectingPoints as e:
                    got = sorted(int(x) for x in e.indexes)
                    impl = (1, got)
                    if pol != 'PError':
                        bad = f'{cname}: NonIntersectingPoints raised under policy {pol}'
                    elif got != misses:
                        bad = f'{cname}: error names points {got}, the points that miss are {misses}'
                    else:
                        # the older spelling of the same attribute names the same points
                        with warnings.catch_warnings():
                            warnings.simplefilter('ignore')
                            old_ = attempt(lambda: sorted(int(x) for x in e.indices))
                        ctx.count('error:indices alias')
                        if old_[0] == 'ok' and old_[1] != misses:
                            bad = f'{cname}: error.indices names points {old_[1]}, the points that miss are {misses}'
                except ValueError as e:
                    impl = (2, [])
                    if any(f is not None for f in found):
                        bad = f'{cname}: ValueError {e} although some points hit'
                except Exception as e:     # noqa: BLE001
                    bad = f'{cname}: {type(e).__name__}: {e}'
                if bad:
                    ctx.report('property', bad, dict(case, call=cname))
                elif impl is not None and (impl[0] != m_code or impl[1] != m_labels):
                    ctx.report('correspondence', f'{cname}: model Select.extract {m_code, m_labels} and implementation '
                               f'{impl} differ', dict(case, call=cname), found_input=False)

    # a long request list (more than 1024 points) with a few misses late in it: 'error' names exactly those, 'drop' keeps the
    # others under their original positions
    if plans:
        dL = gen.cf1d(rng, ny=4, nx=5, bounds=True)
        gen.add_data_vars(rng, dL.ds, dL.spec['kinds'], n_extra_max=1)
        polysL = pm.impl_polygons(dL.ds.ems)
        cents = [shapely.Polygon(p).representative_point() for p in polysL]
        nL = 1100 if quick else 2300
        reqs = [cents[k % len(cents)] for k in range(nL)]
        miss_at = sorted({1030, nL - 5, nL - 700 if nL > 2000 else 1077})
        far = Point(max(p.x for p in cents) + 50.0, 0.0)
        for k in miss_at:
            reqs[k] = far
        caseL = {'dataset': dL.spec['label'], 'op': 'select_points', 'requests': nL, 'misses_at': miss_at}
        ctx.case((dL.spec['label'], 'long list'), True)
        ctx.count('op:long_request_list')
        try:
            dL.ds.ems.select_points(reqs)
            ctx.report('property', f'select_points of {nL} requests: points {miss_at} miss the model but no error was raised', caseL)
        except point_extraction.NonIntersectingPoints as e:
            got = sorted(int(x) for x in e.indexes)
            if got != miss_at:
                ctx.report('property', f'select_points of {nL} requests: the error names points {got}, the points that miss are {miss_at}', caseL)
        except Exception as e:     # noqa: BLE001
            ctx.report('property', f'select_points of {nL} requests: {type(e).__name__}: {e}', caseL)
        r = attempt(lambda: dL.ds.ems.select_points(reqs, missing_points='drop'))
        if r[0] != 'ok':
            ctx.report('property', f'select_points(drop) of {nL} requests failed: {r[1]}', caseL)
        else:
            labels = [int(x) for x in r[1]['point'].values]
            if labels != [k for k in range(nL) if k not in miss_at]:
                ctx.report('property', f'select_points(drop) of {nL} requests: rows labelled {labels[:5]}..{labels[-5:]} ({len(labels)} rows)', caseL)
            else:
                fv = next((str(v) for v in r[1].data_vars), None)
                if fv is not None:
                    gd = dL.spec['kinds']['face']
                    src = dL.ds[fv]
                    for row, lab in list(enumerate(labels))[::97] + [(len(labels) - 1, labels[-1])]:
                        cell = lab % len(cents)
                        jj, ii = divmod(cell, dL.ds.sizes[gd[1]])
                        if not nan_equal(r[1][fv].isel(point=row).values, src.isel({gd[0]: jj, gd[1]: ii}).values):
                            ctx.report('property', f'select_points(drop) of {nL} requests: row {row} (request {lab}) is not the value at cell {cell}', caseL)
                            break
    # selecting does not alter the dataset it selects from (values, attributes, coordinates, variable set)
    for d0, snap in snapshots.values():
        ctx.count('input_unchanged_after_all_selections')
        if not d0.ds.identical(snap):
            ctx.report('property', 'the dataset was modified by selecting from it', {'dataset': d0.spec['label']})
    # ---------- a history on one dataset object: select, edit a variable in place / add one, select again.
    # Every selection must return the values stored at the time of the call.
    import shapely as _shapely
    for n in range(4 if quick else 20):
        d = gen.any_dataset(rng, gen.FAMILIES[n % len(gen.FAMILIES)])
        ds = d.ds
        flav = FLAVOUR[d.family]
        vars_ = gen.add_data_vars(rng, ds, {'face': d.spec['kinds']['face']}, n_extra_max=1, names_prefix='h')
        vname = vars_[0][0]
        ems = ds.ems
        enums = all_kind_enums(ems)
        shape = expected_shapes(d)['face']
        gdims = d.spec['kinds']['face']
        rows = [[rng.randrange(s) for s in shape] for _ in range(3)]
        natives = [to_native(flav, enums, 'face', r) for r in rows]
        case = {'dataset': d.spec['label'], 'op': 'select_indexes / edit in place / select_indexes', 'indexes': rows, 'variable': vname}
        ctx.case((d.spec['label'], 'history', str(rows)), True)
        ctx.count('op:history_select_edit_select')
        first = attempt(ems.select_indexes, natives)
        if first[0] != 'ok':
            ctx.report('property', f'select_indexes failed: {first[1]}', case)
            continue
        ds[vname] = ds[vname] + 1000.0
        ds['added_later'] = ds[vname] * 2.0
        second = attempt(lambda: ds.ems.select_indexes(natives))
        bad = None
        if second[0] != 'ok':
            bad = f'second select_indexes failed: {second[1]}'
        else:
            out = second[1]
            for name in (vname, 'added_later'):
                if name not in out.data_vars:
                    bad = f'variable {name} (defined on the selected grid when the selection was made) is missing'
                    break
                for k, r in enumerate(rows):
                    raw = ds[name].isel({gd: ix for gd, ix in zip(gdims, r)}).values
                    got = out[name].isel(index=k).values
                    if not nan_equal(got, raw):
                        bad = (f'{name} row {k} = {numpy.asarray(got).reshape(-1)[:4].tolist()}, the value stored at cell {r} is '
                               f'{numpy.asarray(raw).reshape(-1)[:4].tolist()} (a selection made before the edit is being reused)')
                        break
                if bad:
                    break
        if bad:
            ctx.report('property', bad, case)

    # ---- integer variables keep their type and their exact values through an extraction that drops the points outside the model
    # (identifiers above 2**53 do not survive a detour through floating point)
    from emsarray.operations import point_extraction as pe_
    for trial in range(3 if quick else 12):
        d = gen.cf1d(rng, ny=rng.randint(3, 4), nx=rng.randint(3, 5))
        ds = d.ds
        gdims = d.spec['kinds']['face']
        shape = [ds.sizes[g] for g in gdims]
        ncell = int(numpy.prod(shape))
        ds['cell_id'] = (list(gdims), (numpy.arange(ncell, dtype='i8') + 2 ** 53 + 1).reshape(shape))
        ds['flag'] = (list(gdims), (numpy.arange(ncell, dtype='i2') % 7).reshape(shape))
        ds['up'] = (list(gdims), (numpy.arange(ncell) % 2 == 0).reshape(shape))
        with warnings.catch_warnings():
            warnings.simplefilter('ignore')
            polys = pm.impl_polygons(ds.ems)
        inside = [k for k, p_ in enumerate(polys) if p_ is not None][:3]
        pts = [(lambda c_: (round(c_.x * 64) / 64, round(c_.y * 64) / 64))(shapely.Polygon(polys[k]).representative_point()) for k in inside]
        xs = [x for p_ in polys if p_ is not None for x, y in p_]
        ys = [y for p_ in polys if p_ is not None for x, y in p_]
        pts.insert(1, (max(xs) + 3.0, max(ys) + 3.0))
        df = pandas.DataFrame({'lon': [x for x, y in pts], 'lat': [y for x, y in pts]})
        case = {'dataset': d.spec['label'], 'points': pts, 'policy': 'drop', 'variables': {'cell_id': 'int64', 'flag': 'int16', 'up': 'bool'}}
        ctx.case((d.spec['label'], 'integer variables', trial), True)
        ctx.count('extract_dataframe:integer variables, drop')
        with warnings.catch_warnings():
            warnings.simplefilter('ignore')
            r = attempt(lambda: pe_.extract_dataframe(ds, df, ('lon', 'lat'), missing_points='drop').load())
        if r[0] != 'ok':
            ctx.report('property', f'extract_dataframe failed: {r[1]}', case)
            continue
        for nm in ('cell_id', 'flag', 'up'):
            want = ds[nm].values.reshape(-1)[inside]
            got = r[1][nm].values
            if got.dtype != ds[nm].dtype or not numpy.array_equal(got, want):
                ctx.report('property', f'extract_dataframe (drop): {nm} comes back as {got.dtype} {got.tolist()}, stored {ds[nm].dtype} '
                           f'{want.tolist()}', case)
                break
