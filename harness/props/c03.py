"""C03 - flattening and winding variables are exact inverses."""
import itertools
import warnings

import numpy
import xarray

import emsarray  # noqa: F401
from emsarray import utils
from coqio import Some, coq_eval_sharded, to_coq
import gen
from hutil import Names, attempt, larr_literal, nan_equal, show_da
from props.c01 import FLAVOUR, KCODE, all_kind_enums


def opt(x):
    return 'None' if x is None else f'(Some {to_coq(x)})'


def run(ctx):
    rng = ctx.rng
    quick = ctx.tier == 'quick'
    ctx.rule = ('conventions x grid kinds x variables with 0-3 extra dimensions (all permutations of the dimension '
                'order in the thorough tier, a random sample in quick) x {default, custom, colliding} linear names x '
                'winding by {default position, axis, name}; plus wind-then-ravel of linear data with the linear '
                'dimension in any position and variables on no grid (malformed stream). non-trivial = the variable has '
                'at least one extra dimension or a 2-D grid; distinct by (family, kind, dims order, sizes, mode)')
    n_ds = 14 if quick else 80
    exprs, plans = [], []

    def add(kind_tag, expr, plan):
        exprs.append(expr)
        plans.append((kind_tag,) + plan)

    # meshes whose grids have equal sizes (as many nodes as faces; as many edges as ... ): the length of a flattened
    # dimension then says nothing about which grid it came from.  A triangle with two interior nodes: 5 nodes, 5 faces.
    tie_nodes = [(0, 0), (64, 0), (32, 64), (24, 16), (40, 16)]
    tie_faces = [[0, 1, 3], [3, 1, 4], [1, 2, 4], [4, 2, 3], [0, 3, 2]]
    for n in range(n_ds):
        if n == 2:
            # an edge_dimension attribute with nothing stored on edges (the dataset has no such dimension)
            d = gen.ugrid(rng, w=3, h=2, invalid=False, supplied=set(), edge_dim_declared=True, phantom_edge_dim=True)
        elif n == 1:
            d = gen.ugrid(rng, mesh=(tie_nodes, tie_faces), invalid=False, supplied={'edge_node'}, edge_dim_declared=True)
        else:
            d = gen.any_dataset(rng)
        flav = FLAVOUR[d.family]
        ds = d.ds
        names = Names()
        vars_ = gen.add_data_vars(rng, ds, d.spec['kinds'], n_extra_max=3 if not quick else 2, dtypes=('f8',))
        # an integer variable as read without decoding (mask_and_scale=False): its _FillValue is an attribute and some cells hold
        # that very number - flattening moves numbers, it does not interpret them
        fv_ = next(((nm_, kd_, dm_) for nm_, kd_, dm_ in vars_ if kd_ is not None), None)
        if fv_ is not None:
            raw_vals = numpy.arange(ds[fv_[0]].size, dtype='i4').reshape(ds[fv_[0]].shape) + 5
            raw_vals.reshape(-1)[::3] = -999
            ds['raw_counts'] = xarray.DataArray(raw_vals, dims=ds[fv_[0]].dims, attrs={'_FillValue': numpy.int32(-999), 'missing_value': numpy.int32(-999)})
            vars_.append(('raw_counts', fv_[1], list(fv_[2])))
        # a variable on no grid, and (UGRID) one carrying two grids' dimensions
        ds['nogrid'] = xarray.DataArray(numpy.arange(6.0).reshape(2, 3), dims=['time_x', 'k_x'])
        vars_.append(('nogrid', None, ['time_x', 'k_x']))
        if d.family == 'ugrid':
            fd, nd = d.spec['dims']['face'], d.spec['dims']['node']
            ds['twogrids'] = xarray.DataArray(
                numpy.arange(float(ds.sizes[fd] * ds.sizes[nd])).reshape(ds.sizes[fd], ds.sizes[nd]), dims=[fd, nd])
            vars_.append(('twogrids', 'node', [fd, nd]))
        ems = ds.ems
        enums = all_kind_enums(ems)
        kinds_lit = to_coq([(KCODE[flav][k], [names.code(x) for x in d.spec['kinds'][k]])
                            for k in d.spec['kind_order']])
        tbl = to_coq([(names.code(k), int(v)) for k, v in ds.sizes.items()])
        ctx.count(f'family:{d.family}')
        # parts of variables: one time step kept as a dimension, every second level, two copies concatenated - still
        # variables on the grid, with an extra dimension whose length differs from the dataset's dimension of that name
        for (vname, kind, dims) in vars_:
            if kind is None:
                continue
            G = d.spec['kinds'][kind]
            for x in [x for x in ds[vname].dims if x not in G]:
                full = ds[vname]
                parts = [('first step kept', full.isel({x: slice(0, 1)})), ('every second', full.isel({x: slice(None, None, 2)})),
                         ('concatenated twice', xarray.concat([full, full], dim=x))]
                for pname, part in parts:
                    if part.sizes[x] == full.sizes[x]:
                        continue
                    with warnings.catch_warnings():
                        warnings.simplefilter('ignore')
                        r = attempt(ems.ravel, part)
                        w = attempt(ems.wind, r[1], grid_kind=enums[kind]) if r[0] == 'ok' else ('err', 'ravel failed')
                    pcase = {'dataset': d.spec['label'], 'variable': vname, 'dims': list(part.dims), 'part': pname, 'dimension': str(x),
                             'sizes': {str(k): int(v) for k, v in part.sizes.items()}}
                    ctx.case((d.spec['label'], vname, pname, str(x)), True)
                    ctx.count('part_of_a_variable')
                    want = part.transpose(*([y for y in part.dims if y not in G] + list(G)))
                    if r[0] != 'ok':
                        ctx.report('property', f'ravel refuses a part of a variable on the grid ({pname} along {x}): {r[1]}', pcase)
                    elif w[0] != 'ok':
                        ctx.report('property', f'wind after ravel of a part of a variable failed: {w[1]}', pcase)
                    elif tuple(w[1].dims) != tuple(want.dims) or not nan_equal(w[1].values, want.values):
                        ctx.report('property', f'ravel then wind does not reproduce a part of a variable ({pname} along {x})', pcase)
                break
        # a variable on the grid that also runs along a dimension of its own called 'index' (a list of stations, ensemble
        # members ...): the flattened dimension then gets another name, and winding finds it by position
        for (vname, kind, dims) in vars_:
            if kind is None:
                continue
            G = d.spec['kinds'][kind]
            full = ds[vname]
            gsize = int(numpy.prod([ds.sizes[g] for g in G]))
            for k_ in sorted({gsize, 3}):
                arr = xarray.concat([full + 1000 * i_ for i_ in range(k_)], dim='index')
                if len(ctx.samples) % 2 == 0:
                    arr = arr.transpose(*(list(arr.dims[1:]) + ['index']))
                with warnings.catch_warnings():
                    warnings.simplefilter('ignore')
                    r = attempt(ems.ravel, arr)
                    w = attempt(ems.wind, r[1], grid_kind=enums[kind]) if r[0] == 'ok' else ('err', 'ravel failed')
                icase = {'dataset': d.spec['label'], 'variable': vname, 'dims': list(arr.dims), 'own dimension': f'index (length {k_})'}
                ctx.case((d.spec['label'], vname, 'own index dimension', k_), True)
                ctx.count('variable with a dimension called index')
                want = arr.transpose(*([y for y in arr.dims if y not in G] + list(G)))
                if r[0] != 'ok':
                    ctx.report('property', f'ravel refuses a variable with a dimension called index: {r[1]}', icase)
                elif w[0] != 'ok':
                    ctx.report('property', f'wind after ravel of a variable with a dimension called index failed: {w[1]}', icase)
                elif tuple(w[1].dims) != tuple(want.dims) or not nan_equal(w[1].values, want.values):
                    ctx.report('property', f'ravel then wind of a variable with a dimension called index gives dims {w[1].dims}, '
                               f'expected {want.dims} with the original values', icase)
            break
        for (vname, kind, dims) in vars_:
            base = ds[vname]
            perms = [tuple(base.dims)]
            allp = list(itertools.permutations(base.dims))
            if quick:
                perms += rng.sample(allp, min(2, len(allp)))
            else:
                perms = allp if len(allp) <= 24 else rng.sample(allp, 24)
            for perm in dict.fromkeys(perms):
                a = base.transpose(*perm)
                kc = KCODE[flav][kind] if kind else 0
                extra = [x for x in a.dims if kind is None or x not in d.spec['kinds'][kind]]
                modes = [('default', None, None, None), ('custom', 'lin_custom', None, 'lin_custom'),
                         ('axis', None, -1, None), ('axis_pos', None, len(extra), None)]
                if kind is not None:
                    # a linear name equal to one of the dimensions being flattened is legitimate
                    gd = d.spec['kinds'][kind][-1]
                    modes.append(('custom_griddim', gd, None, gd))
                if extra:
                    modes.append(('collide', extra[0], None, extra[0]))
                    modes.append(('collide_default_wind', extra[-1], None, None))
                if quick:
                    modes = [modes[0]] + rng.sample(modes[1:], 2)
                for (mode, lin, axis, wlin) in modes:
                    lin_c = None if lin is None else names.code(lin)
                    wlin_c = None if wlin is None else names.code(wlin)
                    expr = (f'(ravel_then_wind {kinds_lit} {tbl} {opt(lin_c)} {kc} {opt(axis)} {opt(wlin_c)} '
                            f'{larr_literal(names, a)})')
                    add('rw', expr, (d, names, ems, enums, a, kind, mode, lin, axis, wlin))
                    ctx.count(f'mode:{mode}')
                # wind-then-ravel of linear data: flatten, put the linear dimension anywhere, wind, flatten
                if kind is not None:
                    r = attempt(ems.ravel, a)
                    if r[0] == 'ok':
                        y0 = r[1]
                        for pos in ([rng.randrange(len(y0.dims))] if quick else range(len(y0.dims))):
                            order = [x for x in y0.dims if x != y0.dims[-1]]
                            order.insert(pos, y0.dims[-1])
                            y = y0.transpose(*order)
                            by = rng.choice(['axis', 'name'])
                            axis = pos if by == 'axis' else None
                            wl = None if by == 'axis' else names.code(y0.dims[-1])
                            expr = (f'(wind_then_ravel {kinds_lit} {tbl} {kc} {opt(axis)} {opt(wl)} None '
                                    f'{larr_literal(names, y)})')
                            add('wr', expr, (d, names, ems, enums, y, kind, by, pos, None, None))
                            ctx.count('mode:wind_then_ravel')
    # direct utils cases: grid dimensions given in another order than they appear
    for n in range(6 if quick else 60):
        names = Names()
        nd = rng.randint(2, 4)
        dims = [f'd{i}' for i in range(nd)]
        shape = [rng.randint(1, 3) for _ in dims]
        a = xarray.DataArray(numpy.arange(float(numpy.prod(shape))).reshape(shape), dims=dims)
        G = rng.sample(dims, rng.randint(1, nd))
        kinds_lit = to_coq([(0, [names.code(x) for x in G])])
        tbl = to_coq([(names.code(k), int(v)) for k, v in a.sizes.items()])
        expr = f'(ravel_then_wind {kinds_lit} {tbl} None 0 None None {larr_literal(names, a)})'
        add('utils', expr, (None, names, None, None, a, G, 'utils', None, None, None))
        ctx.count('mode:utils_direct')

    model = coq_eval_sharded(['Model.Flatten'], exprs, shard=80)
    ctx.leg('coq_eval_cases', len(exprs))

    for plan, mres in zip(plans, model):
        tag, d, names, ems, enums, a, kind, mode, lin, axis, wlin = plan
        label = d.spec['label'] if d else 'utils'
        case = {'dataset': label, 'dims': [str(x) for x in a.dims], 'shape': list(a.shape), 'kind': str(kind),
                'mode': mode, 'lin': str(lin), 'axis': axis, 'wlin': str(wlin), 'tag': tag}
        nontrivial = kind is not None and (len(a.dims) >= 2)
        ctx.case((label.split()[0], str(kind), case['dims'], case['shape'], mode), nontrivial,
                 sample=case if len(a.dims) >= 3 else None)
        bad = None
        if tag == 'rw':
            kw = {} if lin is None else {'linear_dimension': lin}
            r = attempt(ems.ravel, a, **kw)
            if kind is None:
                if r[0] == 'ok':
                    bad = 'a variable on no grid was flattened instead of refused'
                impl = (None, None)
            elif r[0] != 'ok':
                impl = (None, None)
                if mode in ('default', 'custom', 'custom_griddim', 'axis', 'axis_pos'):
                    bad = f'ravel failed: {r[1]}'
            else:
                rr = r[1]
                if lin is None:
                    # the older spelling of ravel gives the same flattened array
                    with warnings.catch_warnings():
                        warnings.simplefilter('ignore')
                        ml = attempt(ems.make_linear, a)
                    if ml[0] != 'ok' or not ml[1].identical(rr):
                        bad = 'make_linear (the older spelling of ravel) returns something else than ravel'
                # data of the default grid kind is wound without naming the kind (the documented default)
                wkw = {} if enums[kind] == ems.default_grid_kind else {'grid_kind': enums[kind]}
                if axis is not None:
                    wkw['axis'] = axis
                if wlin is not None:
                    wkw['linear_dimension'] = wlin
                w = attempt(ems.wind, rr, **wkw)
                impl = (show_da(names, rr), show_da(names, w[1]) if w[0] == 'ok' else None)
                G = d.spec['kinds'][kind]
                # the flattened values must be the values moved, in row-major grid order
                want = a.transpose(*([x for x in a.dims if x not in G] + list(G)))
                if not nan_equal(rr.values.reshape(want.shape), want.values):
                    bad = 'flattened values are not the original values in row-major grid order'
                if w[0] == 'ok':
                    ww = w[1]
                    if len(set(ww.dims)) == len(ww.dims) and set(ww.dims) == set(a.dims):
                        if tuple(ww.dims) != tuple(want.dims):
                            bad = bad or f'wound dims {ww.dims}, expected {want.dims}'
                        elif not nan_equal(ww.values, want.values):
                            bad = bad or 'ravel then wind silently changed values'
                    elif mode in ('default', 'custom', 'custom_griddim', 'axis', 'axis_pos'):
                        bad = bad or f'wound dims {ww.dims} do not restore {a.dims}'
                    else:
                        # colliding linear name: duplicate dimension names make labelled access ambiguous; the
                        # positional values must still be those of the original
                        if ww.shape != want.shape or not nan_equal(ww.values, want.values):
                            bad = bad or ('colliding linear dimension name: ravel then wind by name returns '
                                          f'silently different values (dims {ww.dims})')
                elif mode in ('default', 'custom', 'custom_griddim', 'axis', 'axis_pos'):
                    bad = bad or f'wind failed: {w[1]}'
        elif tag == 'wr':
            y = a
            by, pos = mode, lin
            wkw = {} if enums[kind] == ems.default_grid_kind and pos % 2 == 0 else {'grid_kind': enums[kind]}
            if by == 'axis':
                wkw['axis'] = pos
            else:
                wkw['linear_dimension'] = y.dims[pos]
            w = attempt(ems.wind, y, **wkw)
            if w[0] != 'ok':
                impl = (None, None)
                bad = f'wind of linear data failed: {w[1]}'
            else:
                r2 = attempt(ems.ravel, w[1])
                impl = (show_da(names, w[1]), show_da(names, r2[1]) if r2[0] == 'ok' else None)
                if r2[0] != 'ok':
                    bad = f'ravel after wind failed: {r2[1]}'
                else:
                    want = y.transpose(*([x for x in y.dims if x != y.dims[pos]] + [y.dims[pos]]))
                    if not nan_equal(r2[1].values, want.values):
                        bad = 'wind then ravel is not the identity on the values'
        else:
            G = kind
            r = attempt(utils.ravel_dimensions, a, list(G))
            if r[0] != 'ok':
                impl = (None, None)
                bad = f'ravel_dimensions failed {r[1]}'
            else:
                w = attempt(utils.wind_dimension, r[1], list(G), [a.sizes[g] for g in G])
                impl = (show_da(names, r[1]), show_da(names, w[1]) if w[0] == 'ok' else None)
                want = a.transpose(*([x for x in a.dims if x not in G] + list(G)))
                if w[0] != 'ok' or not nan_equal(w[1].values, want.values) or tuple(w[1].dims) != tuple(want.dims):
                    bad = 'utils ravel_dimensions / wind_dimension round trip differs'
        if bad:
            ctx.report('property', bad, case)
        elif impl != mres:
            ctx.report('correspondence', f'model Flatten and implementation differ: impl {str(impl)[:300]} '
                       f'model {str(mres)[:300]}', case, found_input=False)
    # ---- linear data whose length is not the size of the grid cannot be wound: it is refused, values are neither dropped nor
    # repeated to make it fit
    for fam in gen.FAMILIES:
        d = gen.any_dataset(rng, fam)
        ems = d.ds.ems
        with warnings.catch_warnings():
            warnings.simplefilter('ignore')
            size = int(ems.grid_size[ems.default_grid_kind])
        for wrong in (size + 1, max(1, size - 1), 2 * size):
            if wrong == size:
                continue
            lin_ = xarray.DataArray(numpy.arange(2 * wrong, dtype='f8').reshape(2, wrong), dims=['record', 'index'])
            case = {'dataset': d.spec['label'], 'grid size': size, 'linear length': wrong}
            ctx.case((d.spec['label'], 'wrong length', wrong), True)
            ctx.count('wind:linear length is not the grid size')
            with warnings.catch_warnings():
                warnings.simplefilter('ignore')
                r = attempt(ems.wind, lin_)
            if r[0] == 'ok':
                ctx.report('property', f'wind accepted {wrong} values per record for a grid of {size} cells and returned shape '
                           f'{tuple(r[1].shape)}: values were dropped or repeated', case)
