"""C02 - one linear order is shared by polygons, centres, flattened data and selectors."""
import itertools
import warnings
from fractions import Fraction

import numpy
import shapely
import xarray

import emsarray  # noqa: F401
from coqio import Some, coq_eval_sharded, to_coq
import gen
import polymodel as pm
from hutil import attempt, nan_equal
from props.c01 import FCTOR, FLAVOUR, KCODE, all_kind_enums, canon_native, expected_shapes, to_native
from props.c04 import polys_literal
from props.c06 import same_ring


def centres_expr(d):
    s = d.spec
    if d.family == 'cf1d':
        return f"(map (fun p => (Some (fst p), Some (snd p))) (cf1d_centres {pm.qlist(s['lon'])} {pm.qlist(s['lat'])}))"
    if d.family in ('cf2d', 'shoc_simple'):
        return f"(cf2d_centres {s['ny']} {s['nx']} {pm.arr2(s['lon'])} {pm.arr2(s['lat'])})"
    if d.family == 'shoc_standard':
        return f"(cf2d_centres {s['nj']} {s['ni']} {pm.arr2(s['xc'])} {pm.arr2(s['yc'])})"
    if s['face_coords']:
        return f"(combine {pm.arr1(s['fx'])} {pm.arr1(s['fy'])})"
    return '(@nil (option Q * option Q))'


def show_centres(e):
    return f'(map (fun c => (option_map qz (fst c), option_map qz (snd c))) {e})'


def fl(x):
    return None if x is None else float(Fraction(*x.v))


def run(ctx):
    rng = ctx.rng
    quick = ctx.tier == 'quick'
    ctx.rule = ('generated datasets of every convention (holes, skewed geometry) with data variables on every grid kind '
                '(extra dimensions in any order); per dataset: every polygon and face centre against the model position by '
                'position, every cell n of every variable (flattened element n vs select_index(wind_index(n)) vs the raw '
                'array at the model\'s unravelled index), spatial-index queries (points, boxes) against the model hits. '
                'A case is (dataset, variable) or (dataset, geometry); non-trivial = grid has >= 2 cells; distinct by label')
    n_ds = 24 if quick else 200
    fixed = [('cf1d', dict(ny=3, nx=5)), ('cf2d', dict(ny=4, nx=3, holes='random', bounds=False)),
             ('cf2d', dict(ny=3, nx=4, holes='interior', bounds=True, invalid=True)),
             ('cf2d', dict(ny=3, nx=4, holes='none', bounds=True, bad_bounds=rng.choice(['xy_nv', 'nv_xy']))),
             ('cf2d', dict(ny=3, nx=3, holes='corner', bounds=True, bad_bounds=rng.choice(['xy_nv', 'nv_yx', 'five', 'lat_only_xy_nv']))),
             ('cf1d', dict(ny=3, nx=4, bounds=True, bad_bounds=rng.choice(['transposed', 'three']))),
             # single-cell datasets
             ('cf1d', dict(ny=1, nx=1, bounds=True)), ('cf2d', dict(ny=1, nx=1, bounds=True, holes='none', invalid=False)),
             ('shoc_standard', dict(nj=1, ni=1, holes='none', invalid=False)), ('ugrid', dict(w=1, h=1, invalid=False)),
             ('shoc_standard', dict(nj=3, ni=4, holes='corner', invalid=False, plain=True)),
             ('cf1d', dict(ny=3, nx=4, mixed_dtypes='lon_int')), ('cf1d', dict(ny=4, nx=3, bounds=True, bounds_on='lat')), ('cf1d', dict(ny=3, nx=5, bounds=True, bounds_on='lon')),
             ('shoc_simple', dict(ny=3, nx=3, holes='corner')), ('shoc_standard', dict(nj=3, ni=4, holes='random')),
             ('shoc_standard', dict(nj=3, ni=3, holes='edge', invalid=True)),
             ('shoc_standard', dict(nj=2, ni=4, holes='corner', invalid=False, transposed_coords=('x_centre',))),
             ('ugrid', dict(w=3, h=3, face_coords=True)), ('ugrid', dict(w=3, h=2, face_coords=False, invalid=True))]
    datasets = [gen.any_dataset(rng, f, **kw) for f, kw in fixed]
    # the longitude of a curvilinear grid stored (x, y), the latitude (y, x)
    datasets.append(gen.cf2d(rng, ny=3, nx=4, bounds=True, holes='none', invalid=False, lon_transposed=True))
    datasets.append(gen.cf2d(rng, ny=3, nx=3, bounds=False, holes='none', invalid=False, lon_transposed=True))
    while len(datasets) < n_ds:
        datasets.append(gen.any_dataset(rng))
    twin_leg(ctx, [gen.any_dataset(rng, f, **kw) for f, kw in [('cf1d', dict(ny=3, nx=4)), ('cf2d', dict(ny=3, nx=3, invalid=False)),
                                                               ('shoc_standard', dict(nj=2, ni=3, invalid=False)),
                                                               ('ugrid', dict(w=3, h=2, invalid=False))]])
    exprs, plans = [], []
    snaps = []
    for d in datasets:
        flav = FLAVOUR[d.family]
        vars_ = gen.add_data_vars(rng, d.ds, d.spec['kinds'], n_extra_max=2)
        snaps.append((d, d.ds.copy(deep=True)))
        shapes = expected_shapes(d)
        g = f'{{| fl := {FCTOR[flav]}; shapes := {to_coq([(KCODE[flav][k], s) for k, s in shapes.items()])} |}}'
        winds = '[' + '; '.join(
            f'({KCODE[flav][k]}, wind_table {g} {KCODE[flav][k]} 0 {int(numpy.prod(s))})' for k, s in shapes.items()) + ']'
        ems = d.ds.ems
        with warnings.catch_warnings():
            warnings.simplefilter('ignore')
            r = attempt(pm.impl_polygons, ems)
        if r[0] != 'ok':
            ctx.report('property', f'the polygons of the dataset cannot be built: {r[1]}', {'dataset': d.spec['label'], 'what': 'polygons'})
            snaps.pop()
            continue
        polys = r[1]
        # query geometries for the spatial index: boxes built from polygon vertices, and points
        rings = [p for p in polys if p is not None]
        queries = []
        if rings:
            xs = sorted({x for r in rings for x, y in r})
            ys = sorted({y for r in rings for x, y in r})
            for _ in range(4 if quick else 10):
                x0, x1 = sorted(rng.sample(xs, 2)) if len(xs) > 1 else (xs[0], xs[0] + 1)
                y0, y1 = sorted(rng.sample(ys, 2)) if len(ys) > 1 else (ys[0], ys[0] + 1)
                queries.append([(x0, y0), (x1, y0), (x1, y1), (x0, y1)])
        qlit = pm.coq_list([pm.ring_literal(q) for q in queries])
        exprs.append(f'(option_map observe {pm.raw_expr(d)}, {show_centres(centres_expr(d))}, {winds}, '
                     f'(let ps := {polys_literal(polys)} in map (hits_ring ps) {qlit}))')
        plans.append((d, flav, ems, vars_, polys, queries))
        ctx.count(f'family:{d.family}')
    model = coq_eval_sharded(['Model.IndexConv', 'Model.Polygons', 'Model.Lookup'], exprs, shard=5)
    ctx.leg('coq_eval_cases', len(exprs))

    for (d, flav, ems, vars_, polys, queries), mres in zip(plans, model):
        ((m_obs, m_centres), m_winds), m_hits = mres
        label = d.spec['label']
        enums = all_kind_enums(ems)
        nontrivial = len(polys) >= 2
        # ---- polygons, position by position
        case = {'dataset': label, 'what': 'polygons'}
        ctx.case((label, 'polygons'), nontrivial)
        if m_obs is not None:
            (m_polys, _), _ = m_obs.v
            m_polys = pm.model_polygons_to_float(m_polys)
            if len(m_polys) != len(polys):
                ctx.report('property', f'{len(polys)} polygons for {len(m_polys)} cells', case)
            else:
                for n, (ip, mp) in enumerate(zip(polys, m_polys)):
                    if not same_ring(ip, mp):
                        ctx.report('property', f'position {n}: polygon {ip} is not the polygon of cell {n} built from '
                                   f'that cell\'s own coordinates ({mp})', dict(case, n=n))
                        break
        # ---- face centres
        case = {'dataset': label, 'what': 'face_centres'}
        ctx.case((label, 'centres'), nontrivial)
        centres = numpy.asarray(ems.face_centres)
        if len(centres) != len(polys):
            ctx.report('property', f'{len(centres)} face centres for {len(polys)} cells', case)
        elif m_centres:
            for n, (mx, my) in enumerate(m_centres):
                want = (fl(mx), fl(my))
                got = (float(centres[n][0]), float(centres[n][1]))
                ok = all((w is None and g != g) or (w is not None and w == g) for w, g in zip(want, got))
                if not ok:
                    ctx.report('property', f'face centre {n} is {got}, the cell\'s own centre is {want}', dict(case, n=n))
                    break
        else:
            # centroid fallback: the centre at n must be the centroid of polygon n
            for n, p in enumerate(polys):
                got = centres[n]
                if p is None:
                    if not (got[0] != got[0] and got[1] != got[1]):
                        ctx.report('property', f'face centre {n} = {got} for a cell without geometry', dict(case, n=n))
                        break
                else:
                    c = shapely.Polygon(p).centroid
                    if abs(c.x - got[0]) > 1e-9 or abs(c.y - got[1]) > 1e-9:
                        ctx.report('property', f'face centre {n} = {got} is not the centroid of polygon {n}', dict(case, n=n))
                        break
        # ---- flattened data vs selection vs raw arrays at the model's native index
        wind_by_kind = {kc: tbl for kc, tbl in m_winds}
        for (vname, kind, dims) in vars_:
            da = d.ds[vname]
            case = {'dataset': label, 'variable': vname, 'dims': [str(x) for x in da.dims], 'kind': kind}
            ctx.case((label, vname, tuple(case['dims'])), nontrivial,
                     sample=case if len(da.dims) >= 3 else None)
            kc = KCODE[flav][kind]
            tbl = wind_by_kind[kc]
            r = attempt(ems.ravel, da)
            if r[0] != 'ok':
                ctx.report('property', f'ravel failed: {r[1]}', case)
                continue
            flat = r[1]
            gdims = d.spec['kinds'][kind]
            bad = None
            if flat.shape[-1] != len(tbl):
                bad = f'flattened size {flat.shape[-1]} but the grid has {len(tbl)} cells'
            for n, mnat in enumerate(tbl):
                if bad:
                    break
                _, idx = mnat.v
                raw = da.isel({gd: ix for gd, ix in zip(gdims, idx)}).values
                fv = flat.values[..., n]
                if not nan_equal(fv, raw):
                    bad = f'flattened element {n} is not the value of cell {idx} (row-major unravelling of {n})'
                    break
                w = attempt(ems.wind_index, n, grid_kind=enums[kind])
                if w[0] != 'ok' or canon_native(flav, w[1]) != (kc, list(idx)):
                    bad = f'wind_index({n}) = {w[1]} but position {n} is cell {idx}'
                    break
                s = attempt(ems.select_index, w[1])
                if s[0] != 'ok' or vname not in s[1].data_vars:
                    bad = f'select_index(wind_index({n})) failed or lacks the variable'
                    break
                sv = s[1][vname].values
                if not nan_equal(sv, raw):
                    bad = f'select_index(wind_index({n})) differs from flattened element {n}'
                    break
            if not bad and len(tbl) >= 2:
                # all cells selected in one batch, in linear order: position n of the batch is flattened element n
                natives = [ems.wind_index(n, grid_kind=enums[kind]) for n in range(len(tbl))]
                b = attempt(ems.select_indexes, natives)
                if b[0] != 'ok' or vname not in b[1].data_vars:
                    bad = f'select_indexes of every cell of the {kind} grid failed: {b[1]}'
                else:
                    got = b[1][vname]
                    got = got.transpose(*[x for x in got.dims if x != 'index'], 'index')
                    want = flat.transpose(*[x for x in flat.dims if x != flat.dims[-1]], flat.dims[-1])
                    if got.shape != want.shape or not nan_equal(got.values, want.values):
                        bad = 'selecting every cell in one batch (in linear order) does not reproduce the flattened variable'
            if bad:
                ctx.report('property', bad, case)
        # ---- spatial index hits are linear positions
        for q, mh in zip(queries, m_hits):
            case = {'dataset': label, 'query_box': q}
            ctx.case((label, str(q)), nontrivial and bool(mh))
            geom = shapely.Polygon(q) if shapely.Polygon(q).area > 0 else shapely.LineString(q[:2] + [q[2]])
            hits = attempt(lambda: sorted(int(x) for x in ems.strtree.query(geom, predicate='intersects')))
            brute = [n for n, p in enumerate(polys) if p is not None and shapely.Polygon(p).intersects(geom)]
            if hits[0] != 'ok' or hits[1] != brute:
                ctx.report('property', f'spatial index hits {hits[1]} but the polygons meeting the query are at positions '
                           f'{brute}', case)
            elif shapely.Polygon(q).area > 0 and brute != mh:
                ctx.report('correspondence', f'model hits {mh} differ from GEOS {brute}', case, found_input=False)
        # ---- the older spelling of the spatial index (Convention.spatial_index, still offered): every item it returns names
        # its cell - linear position, native index and polygon belong together - and the candidates cover every cell that meets
        # the query
        if queries:
            with warnings.catch_warnings():
                warnings.simplefilter('ignore')
                si = attempt(lambda: ems.spatial_index)
            ctx.count('spatial_index (older spelling)')
            if si[0] != 'ok':
                ctx.report('property', f'spatial_index failed: {si[1]}', {'dataset': label})
            else:
                for q in queries[:3]:
                    geom = shapely.Polygon(q) if shapely.Polygon(q).area > 0 else shapely.LineString(q[:2] + [q[2]])
                    case = {'dataset': label, 'query_box': q, 'through': 'spatial_index'}
                    with warnings.catch_warnings():
                        warnings.simplefilter('ignore')
                        items = attempt(lambda: list(si[1].query(geom)))
                    if items[0] != 'ok':
                        ctx.report('property', f'spatial_index.query failed: {items[1]}', case)
                        break
                    brute = [n for n, p in enumerate(polys) if p is not None and shapely.Polygon(p).intersects(geom)]
                    got_lin = []
                    ibad = None
                    for poly_, item in items[1]:
                        li = int(item.linear_index)
                        got_lin.append(li)
                        if not (0 <= li < len(polys)) or polys[li] is None:
                            ibad = f'an item names position {li}, which has no polygon'
                        elif same_ring(pm.ring_of(item.polygon), polys[li]) is False or same_ring(pm.ring_of(poly_), polys[li]) is False:
                            ibad = f'the item for position {li} carries another cell\'s polygon'
                        elif canon_native(flav, item.index) != canon_native(flav, ems.wind_index(li)):
                            ibad = f'the item for position {li} carries the native index {item.index}'
                        if ibad:
                            break
                    if not ibad and not set(brute) <= set(got_lin):
                        ibad = f'the candidates {sorted(got_lin)} leave out cells that meet the query ({brute})'
                    if ibad:
                        ctx.report('property', 'spatial_index: ' + ibad, case)
                        break

    # reading a dataset leaves it as it was, and a second dataset over the same arrays (dataset.copy(), a shallow copy) has
    # the same cells at the same positions
    import warnings as _w
    for d, snap in snaps:
        ctx.count('second_reading_of_the_same_arrays')
        case = {'dataset': d.spec['label'], 'what': 'dataset.copy() read after the dataset itself'}
        with _w.catch_warnings():
            _w.simplefilter('ignore')
            r = attempt(lambda: (pm.impl_polygons(d.ds.ems), pm.impl_polygons(d.ds.copy().ems)))
        if not d.ds.identical(snap):
            ctx.report('property', 'the dataset was modified in place by reading its geometry', case)
        elif r[0] == 'ok' and r[1][0] != r[1][1] and 'plain ArakawaC' not in d.spec['label']:
            # (a dataset bound by hand to ArakawaC: its copy is not bound and is detected afresh - not compared)
            n = next(i for i, (a, b) in enumerate(zip(*r[1])) if a != b)
            ctx.report('property', f'position {n}: a shallow copy of the dataset has polygon {r[1][1][n]}, the dataset itself {r[1][0][n]}', case)

    # a native index whose components are numpy integers of a narrow type denotes the same position as Python integers do,
    # also where the position exceeds what the narrow type holds
    dbig = gen.cf1d(rng, ny=190, nx=181, bounds=False)
    vals = numpy.arange(190 * 181, dtype='f8').reshape(190, 181)
    ydim, xdim = dbig.spec['kinds']['face']
    dbig.ds['tag'] = xarray.DataArray(vals, dims=[ydim, xdim])
    for (j, i) in [(189, 180), (181, 7), (0, 0), (127, 127)]:
        for t in (numpy.int16, numpy.int32, numpy.uint8):
            if max(j, i) > numpy.iinfo(t).max:
                continue
            ctx.case(('big', j, i, t.__name__), True)
            ctx.count('large_grid:narrow integer index components')
            r = attempt(dbig.ds.ems.ravel_index, (t(j), t(i)))
            sel = attempt(lambda: float(dbig.ds.ems.select_index((t(j), t(i)))['tag'].values))
            want = j * 181 + i
            if not (r[0] == 'ok' and int(r[1]) == want) or sel != ('ok', float(want)):
                ctx.report('property', f'cell ({j}, {i}) given as {t.__name__}: ravel_index = {r[1]!r}, select_index holds {sel[1]!r}; the cell '
                           f'is at linear position {want} and holds {float(want)}', {'dataset': dbig.spec['label'], 'index': [j, i], 'dtype': t.__name__})


def twin_leg(ctx, datasets):
    """Two datasets alive in one process that come from the same file and have the same sizes but describe different cells
    (the second is the first with its coordinates corrected in memory after opening): position n of the second must denote
    ITS cell n everywhere - nothing remembered from the first may leak."""
    import os
    import shutil
    import tempfile
    import warnings
    tmp = tempfile.mkdtemp(prefix='c02_twin_', dir=os.environ.get('VERIF_WORK', '/verif/work'))
    try:
        for k, d in enumerate(datasets):
            path = os.path.join(tmp, f'twin_{k}.nc')
            enc = {v: {'_FillValue': None} for v in d.ds.variables if d.ds[v].dtype.kind == 'f' and '_FillValue' not in d.ds[v].attrs}
            with warnings.catch_warnings():
                warnings.simplefilter('ignore')
                try:
                    d.ds.to_netcdf(path, encoding=enc)
                    a = emsarray.open_dataset(path)
                    a.load()
                    pa = pm.impl_polygons(a.ems)
                    ca = numpy.asarray(a.ems.face_centres)
                    a.ems.strtree
                except Exception:       # noqa: BLE001  (not what this leg is about: the other legs report it)
                    continue
                b = gen.shift_coordinates(a, dlon=1.5, dlat=0.75, max_lat=1e9)
                b.encoding = dict(a.encoding)
                case = {'dataset': d.spec['label'], 'what': 'same file, same sizes, coordinates shifted by (1.5, 0.75) after opening'}
                ctx.case((d.spec['label'], 'twin'), True)
                ctx.count('twin:edited after opening')
                r = attempt(lambda: (pm.impl_polygons(b.ems), numpy.asarray(b.ems.face_centres)))
            if r[0] != 'ok':
                ctx.report('property', f'polygons / face centres of the edited dataset failed: {r[1]}', case)
                continue
            pb, cb = r[1]
            want = [None if p is None else [(x + 1.5, y + 0.75) for x, y in p] for p in pa]
            bad = None
            def close(p, q):
                # (synthesised corners are means of three or four numbers: shifting them is exact only to rounding)
                return (p is None) == (q is None) and (p is None or (
                    len(p) == len(q) and all(abs(a - c) <= 1e-9 and abs(b - e) <= 1e-9 for (a, b), (c, e) in zip(p, q))))
            if len(pb) != len(want) or not all(close(x, y) for x, y in zip(pb, want)):
                n = next((i for i, (x, y) in enumerate(zip(pb, want)) if not close(x, y)), None)
                bad = (f'position {n}: polygon {None if n is None or pb[n] is None else pb[n][:3]} of the edited dataset is not its '
                       f'own cell {None if n is None or want[n] is None else want[n][:3]} (nothing of the dataset opened first may be reused)')
            elif len(cb) == len(ca) and not numpy.allclose(cb, ca + numpy.array([1.5, 0.75]), rtol=0, atol=1e-9, equal_nan=True):
                # (centres computed as centroids are not shifted bit for bit: compared to 1e-9)
                bad = 'face centres of the edited dataset are not its own cell centres'
            else:
                for n, p in enumerate(want):
                    if p is None:
                        continue
                    c = shapely.Polygon(p).representative_point()
                    with warnings.catch_warnings():
                        warnings.simplefilter('ignore')
                        hits = sorted(int(i) for i in b.ems.strtree.query(c, predicate='intersects'))
                    brute = [i for i, q in enumerate(want) if q is not None and shapely.Polygon(q).intersects(c)]
                    if hits != brute:
                        bad = f'spatial index of the edited dataset returns {hits} at a point of its cell {n}; its cells there are {brute}'
                        break
            if bad:
                ctx.report('property', bad, case)
            a.close()
    finally:
        shutil.rmtree(tmp, ignore_errors=True)
