"""C20 - command line tools compute exactly what the library computes."""
import argparse
import contextlib
import io
import json
import os
import shutil
import tempfile
import warnings
from fractions import Fraction

import numpy
import pandas
import shapely
import xarray
from shapely.geometry import box, mapping, shape

import emsarray  # noqa: F401
import emsarray.cli
from emsarray.cli import utils as cli_utils
from emsarray.operations import geometry as geometry_ops
from emsarray.operations import point_extraction
from emsarray.utils import to_netcdf_with_fixes
from coqio import Some, coq_eval_sharded, to_coq
import gen
import polymodel as pm
from hutil import attempt

SPACES = [' ', '  ', '\t', ' \t ', '']


def gen_number(rng):
    digits = lambda n: ''.join(rng.choice('0123456789') for _ in range(n))       # noqa: E731
    num = lambda: rng.choice([digits(1), digits(2), digits(3), f'{digits(1)}_{digits(3)}', f'{digits(2)}_{digits(1)}_{digits(2)}'])  # noqa: E731
    form = rng.choice(['int', 'int', 'trail', 'lead', 'both', 'both'])
    body = {'int': num(), 'trail': num() + '.', 'lead': '.' + num(), 'both': num() + '.' + num()}[form]
    return ('-' if rng.random() < 0.35 else '') + body


def gen_bounds_string(rng):
    parts = [gen_number(rng) for _ in range(4)]
    s = parts[0]
    for p in parts[1:]:
        s += rng.choice(SPACES) + ',' + rng.choice(SPACES) + p
    return s


def near_misses(rng, s):
    parts = s.split(',')
    out = [s + 'x', s + ',5', s + ',', s + ' ', ' ' + s, '+' + s, s + '\n', 'x' + s, s.replace(',', ';', 1),
           ','.join(parts[:3]), ','.join(parts + ['7']), s.replace(',', ',,', 1), s + '.5.5', '(' + s + ')', '[' + s + ']',
           s.replace(parts[1], parts[1].strip() + '_', 1), s.replace(parts[2], '1__2', 1), s.replace(parts[0], '1e3', 1),
           s.replace(parts[3], ' nan', 1), s.replace(parts[1], '- 1', 1), s.replace(parts[0], '--1', 1),
           s.replace(parts[2], '1 2', 1), s.replace(parts[3], '.', 1), s.replace(parts[0], '_1', 1),
           s + ' ,', ',' + s, '{"bbox": [' + s + ']}', 'a' + s + 'b',
           # blanks in the place of commas (numbers pasted from a table)
           s.replace(',', ' ', 1), s.replace(',', ' '), s.replace(',', '\t'), ' '.join(p.strip() for p in parts),
           ','.join(parts[:2]) + ' ' + ','.join(parts[2:])]
    return out


def codes(s):
    return [ord(c) for c in s]


def run_cli(argv):
    """emsarray.cli.main in-process: returns the exit status"""
    err = io.StringIO()
    try:
        with contextlib.redirect_stderr(err), contextlib.redirect_stdout(io.StringIO()), warnings.catch_warnings():
            warnings.simplefilter('ignore')
            emsarray.cli.main(argv)
        return 0, err.getvalue()
    except SystemExit as e:
        code = e.code if isinstance(e.code, int) else (0 if e.code is None else 1)
        return code, err.getvalue()


def run_module(argv):
    """`python -m emsarray ...` in a fresh interpreter: (exit status, stderr)"""
    import subprocess
    import sys
    # (dask's synchronous scheduler, as in harness/run.py: netCDF4 / HDF5 are not thread safe in this sandbox and emsarray
    # reassembles clipped datasets with open_mfdataset(lock=False))
    env = dict(os.environ, DASK_SCHEDULER='synchronous')
    r = subprocess.run([sys.executable, '-W', 'ignore', '-m', 'emsarray'] + list(argv), capture_output=True, text=True, timeout=300,
                       env=env)
    return r.returncode, r.stderr


def datasets_equal(a, b):
    if sorted(map(str, a.variables)) != sorted(map(str, b.variables)):
        return f'variables differ: {sorted(map(str, a.variables))} vs {sorted(map(str, b.variables))}'
    for v in a.variables:
        x, y = a[v], b[v]
        if x.dims != y.dims or x.shape != y.shape:
            return f'{v}: dims/shape {x.dims}{x.shape} vs {y.dims}{y.shape}'
        xv, yv = x.values, y.values
        if xv.dtype.kind in 'fc':
            same = numpy.array_equal(xv, yv, equal_nan=True)
        else:
            same = numpy.array_equal(xv, yv)
        if not same:
            return f'{v}: values differ'
    return None


def file_bytes(path):
    with open(path, 'rb') as f:
        return f.read()


def run(ctx):
    rng = ctx.rng
    quick = ctx.tier == 'quick'
    ctx.rule = ('(A) ASCII strings from the bounds grammar (signs, decimals in four forms, underscores, blanks and tabs around the '
                'commas) and 28 near misses of each (trailing text, extra / missing field, leading blank or plus, doubled or trailing '
                'underscore, exponent, nan, inner blank, brackets, GeoJSON with a bbox member ...) through geometry_argument and '
                'bounds_argument, against the model; (B) GeoJSON strings and files (with and without bbox members), unsupported and '
                'missing files; (C) clip / extract-points / export-geometry run in-process through emsarray.cli.main on datasets '
                'written to disk against the library calls: output content, exit status, no partial output. non-trivial = accepted '
                'bounds / a near miss / a CLI run; distinct by argument')
    # ---------------- (A) the bounds grammar
    strings = []
    n_seeds = 40 if quick else 600
    for _ in range(n_seeds):
        s = gen_bounds_string(rng)
        strings.append(('grammar', s))
        for m in near_misses(rng, s):
            strings.append(('near_miss', m))
    for extra in ['1,2,3,4', '1.5 , -.2 , 3.,4', '', ',,,', '1,2,3,4,5', '1,2,3,4x', '0,0,0,0', '-0,-0.,-.0,0_0',
                  '1\x1c,2,3,4', '1\xa0,2,3,4', '١,2,3,4',
                  '0.6 10.6 2.4 12.4', '1\t2\t3\t4', '1,2 3,4']:
        strings.append(('fixed', extra))
    ascii_strings = [(k, s) for k, s in strings if all(ord(c) < 128 for c in s)]
    exprs = [f'(accepts {to_coq(codes(s))}, bounds_value {to_coq(codes(s))})' for _, s in ascii_strings]
    model = coq_eval_sharded(['Model.CliArgs'], exprs, shard=max(40, len(exprs) // 14), workers=14)
    ctx.leg('bounds_strings', len(exprs))
    for (kind, s), (m_acc, m_val) in zip(ascii_strings, model):
        case = {'argument': s, 'kind': kind}
        ctx.case(s, True, sample=case if kind == 'grammar' and len(ctx.samples) < 2 else None)
        ctx.count(f'bounds:{kind}:{"accepted" if m_acc else "rejected"}')
        r = attempt(cli_utils.geometry_argument, s)
        r2 = attempt(cli_utils.bounds_argument, s)
        # independent reading of "exactly four comma separated numbers"
        parts = s.split(',')
        def is_num(t):      # noqa: E306
            import re
            return re.fullmatch(r'-?(\d+(_\d+)*\.?|\d+(_\d+)*\.\d+(_\d+)*|\.\d+(_\d+)*)', t) is not None
        exact = (len(parts) == 4 and is_num(parts[0].rstrip()) and is_num(parts[1].strip()) and is_num(parts[2].strip())
                 and is_num(parts[3].lstrip()) and parts[0] == parts[0].lstrip() and parts[3] == parts[3].rstrip())
        if r[0] == 'ok':
            coords = sorted(set(r[1].exterior.coords)) if r[1].geom_type == 'Polygon' else None
        got_box = None
        if r[0] == 'ok' and r[1].geom_type == 'Polygon' and not s.lstrip().startswith('{'):
            got_box = coords
        bad = None
        if exact:
            vals = [float(p.strip().replace('_', '')) for p in parts]
            want = sorted({(vals[0], vals[1]), (vals[0], vals[3]), (vals[2], vals[1]), (vals[2], vals[3])})
            if got_box != want:
                bad = f'{s!r} is four comma separated numbers but was read as {r}'
            elif r2[0] != 'ok' or sorted(set(r2[1].exterior.coords)) != want:
                bad = f'bounds_argument({s!r}) = {r2}'
        else:
            if got_box is not None:
                bad = f'{s!r} is not exactly four comma separated numbers but was taken as the box {got_box}'
            elif r2[0] == 'ok':
                bad = f'bounds_argument accepted {s!r}'
        if bad:
            ctx.report('property', bad, case)
            continue
        if m_acc != exact:
            ctx.report('correspondence', f'model CliArgs.accepts({s!r}) = {m_acc}, implementation / regex reading = {exact}', case,
                       found_input=False)
        elif exact:
            mv = m_val.v
            ((q1, q2), q3), q4 = mv
            mvals = [float(Fraction(q[0], q[1])) for q in (q1, q2, q3, q4)]
            if mvals != vals:
                ctx.report('correspondence', f'model value {mvals} vs float() {vals}', case, found_input=False)
    for kind, s in strings:
        if any(ord(c) >= 128 for c in s):
            # outside the ASCII model: only the direct predicate (never silently a box unless every field is numeric)
            r = attempt(cli_utils.geometry_argument, s)
            ctx.count('bounds:non_ascii:' + r[0])

    # ---------------- (B) GeoJSON strings and files
    tmp = tempfile.mkdtemp(prefix='c20_', dir=os.environ.get('VERIF_WORK', '/verif/work'))
    try:
        geoms = []
        for _ in range(12 if quick else 100):
            x0, y0 = rng.randint(-20, 20) / 4, rng.randint(-20, 20) / 4
            w, h = rng.randint(1, 12) / 4, rng.randint(1, 12) / 4
            g = rng.choice([
                shapely.Point(x0, y0),
                shapely.Polygon([(x0, y0), (x0 + w, y0), (x0 + w / 2, y0 + h)]),
                shapely.Polygon([(x0, y0), (x0 + w, y0), (x0 + w, y0 + h), (x0, y0 + h)]),
                shapely.LineString([(x0, y0), (x0 + w, y0 + h)]),
                shapely.MultiPolygon([shapely.Polygon([(x0, y0), (x0 + w, y0), (x0, y0 + h)]),
                                      shapely.Polygon([(x0 + 20, y0), (x0 + 20 + w, y0), (x0 + 20, y0 + h)])]),
            ])
            geoms.append(g)
        for n, g in enumerate(geoms):
            doc = mapping(g)
            doc = json.loads(json.dumps(doc))
            if rng.random() < 0.5:
                doc['bbox'] = [float(v) for v in g.bounds]       # RFC 7946 optional member: four comma separated numbers
            text = json.dumps(doc) if rng.random() < 0.5 else json.dumps(doc, separators=(',', ':'))
            case = {'argument': text}
            ctx.case(text, True)
            ctx.count(f'geojson_string:{g.geom_type}:bbox={"bbox" in doc}')
            r = attempt(cli_utils.geometry_argument, text)
            if r[0] != 'ok' or not r[1].equals_exact(shape(doc), 0) or r[1].geom_type != g.geom_type:
                ctx.report('property', f'GeoJSON string denoting {g.wkt} read as {r[1].wkt if r[0] == "ok" else r}', case)
            sub = os.path.join(tmp, rng.choice(['shapes', 'run_1,2,3,4', 'a b']))
            os.makedirs(sub, exist_ok=True)
            path = os.path.join(sub, f'g{n}' + rng.choice(['.geojson', '.json']))
            with open(path, 'w') as f:
                f.write(text)
            r = attempt(cli_utils.geometry_argument, path)
            ctx.count('geojson_file')
            if r[0] != 'ok' or not r[1].equals_exact(shape(doc), 0):
                ctx.report('property', f'GeoJSON file {path} denoting {g.wkt} read as {r[1].wkt if r[0] == "ok" else r}',
                           {'argument': path, 'content': text})
        for bad_arg, why in [(os.path.join(tmp, 'missing.geojson'), 'missing file'), ('{"type": "Nope"}', 'bad geojson'),
                             ('[1, 2', 'not json, not a file')]:
            r = attempt(cli_utils.geometry_argument, bad_arg)
            ctx.count(f'unreadable_geometry:{why}')
            if r != ('err', 'ArgumentTypeError'):
                ctx.report('property', f'unreadable geometry ({why}) gave {r}', {'argument': bad_arg})
        other = os.path.join(tmp, 'shape.txt')
        open(other, 'w').write('1,2,3,4')
        r = attempt(cli_utils.geometry_argument, other)
        if r != ('err', 'ArgumentTypeError'):
            ctx.report('property', f'unsupported file type gave {r}', {'argument': other})

        # ---------------- (C) the commands against the library
        n_ds = 5 if quick else 40
        for n in range(n_ds):
            fam = rng.choice(['cf1d', 'cf2d', 'shoc_simple', 'shoc_standard', 'ugrid'])
            kw = {'supplied': set()} if fam == 'ugrid' else {}
            if fam in ('cf2d', 'shoc_simple', 'shoc_standard'):
                kw['invalid'] = False
            d = gen.any_dataset(rng, fam, **kw)
            ds = d.ds
            gen.add_data_vars(rng, ds, {'face': d.spec['kinds']['face']}, names_prefix='q', n_extra_max=1)
            if fam in ('shoc_simple', 'cf1d', 'cf2d', 'ugrid') and 'time' in ds.dims:
                # SHOC simple files name their time coordinate 'time' (the convention looks it up by name); a bare
                # dimension of that name without a variable is an artefact of the generator, not a SHOC file
                tv = xarray.DataArray(numpy.array(['2000-01-01', '2000-01-02', '2000-01-03'][:ds.sizes['time']],
                                                  dtype='datetime64[ns]'), dims=['time'])
                tv.encoding['units'] = 'days since 1990-01-01 00:00:00 +10:00'
                ds.coords['time'] = tv
            src = os.path.join(tmp, f'in_{n}.nc')
            if n % 3 == 2:
                # coordinates with more than six significant decimals (moved by 2^-20 of a degree)
                ds = gen.shift_coordinates(ds, dlon=2.0 ** -20, dlat=2.0 ** -20)
                ctx.count('coordinates with many decimals')
            fd_ = list(d.spec['kinds']['face'])
            if len(fd_) == 2 and n % 2 == 0:
                # variables along one of the two surface dimensions only
                ds['row_area'] = xarray.DataArray(numpy.arange(ds.sizes[fd_[0]], dtype='f8') + 700, dims=[fd_[0]])
                ds['column_width'] = xarray.DataArray(numpy.arange(ds.sizes[fd_[1]], dtype='f8') + 800, dims=[fd_[1]])
            enc = {v: {'_FillValue': None} for v in ds.variables if '_FillValue' not in ds[v].attrs and ds[v].dtype.kind == 'f'}
            if n % 3 == 1:
                # coordinates stored packed (32-bit integers with scale_factor / add_offset; every value is exactly representable
                # in eighths): only a reader that decodes them sees degrees
                for v in ds.variables:
                    a_ = ds[v]
                    if a_.dtype.kind == 'f' and (a_.attrs.get('units') in ('degrees_east', 'degrees_north') or a_.attrs.get('standard_name') in ('longitude', 'latitude')) \
                            and not numpy.isnan(a_.values).any() and numpy.array_equal(a_.values * 8, numpy.round(a_.values * 8)):
                        enc[v] = {'dtype': 'int32', 'scale_factor': 0.125, 'add_offset': -50.0, '_FillValue': None}
                        ctx.count('coordinate stored packed')
            with warnings.catch_warnings():
                warnings.simplefilter('ignore')
                ds.to_netcdf(src, encoding=enc)
                ondisk = emsarray.open_dataset(src)
            polys = pm.impl_polygons(ondisk.ems)
            rings = [p for p in polys if p is not None]
            if not rings:
                continue
            label = d.spec['label']
            ctx.count(f'family:{d.family}')
            # ---- export-geometry
            for fmt, ext in [('geojson', '.geojson'), ('geojson', '.json'), ('wkt', '.wkt'), ('wkb', '.wkb'), ('shapefile', '.shp')]:
                mode = rng.choice(['guessed', 'guessed', 'unknown_ext', 'conflicting_ext', 'matching_ext', 'no_ext'])
                explicit = mode != 'guessed'
                other_ext = rng.choice([e for f_, e in [('geojson', '.geojson'), ('geojson', '.json'), ('wkt', '.wkt'), ('wkb', '.wkb')]
                                        if f_ != fmt])
                # (a guessed name may carry the extension of another format inside: only the last extension counts)
                inner = other_ext if mode == 'guessed' and (n + len(ext)) % 2 == 0 else ''
                if inner:
                    ctx.count('export:another extension inside the name')
                out = os.path.join(tmp, f'cli_{n}_{fmt}_{mode}{inner}' + {'guessed': ext, 'unknown_ext': '.out', 'conflicting_ext': other_ext,
                                                                   'matching_ext': ext, 'no_ext': ''}[mode])
                argv = ['export-geometry', src, out] + ([rng.choice(['-f', '--format']), fmt] if explicit else [])
                code, err = run_cli(argv)
                lib = os.path.join(tmp, f'lib_{n}_{fmt}{ext}')
                with warnings.catch_warnings():
                    warnings.simplefilter('ignore')
                    lr = attempt(getattr(geometry_ops, f'write_{fmt}'), ondisk, lib)
                case = {'dataset': label, 'command': argv[:1] + ['<in>', os.path.basename(out)] + argv[3:]}
                ctx.case((label, 'export', fmt, mode), True, sample=case if n == 0 and fmt == 'wkt' else None)
                ctx.count(f'export:{fmt}:{"explicit" if explicit else "guessed"}')
                ctx.count(f'export:output name:{mode}')
                if lr[0] != 'ok':
                    if code == 0:
                        ctx.report('property', f'library write_{fmt} fails ({lr[1]}) but the command exits 0', case)
                    continue
                if code != 0:
                    ctx.report('property', f'export-geometry exits {code}: {err[-300:]}', case)
                    continue
                if fmt == 'shapefile':
                    outs = [(out[:-4] if out.endswith('.shp') else os.path.splitext(out)[0]) + e for e in ('.shp', '.shx', '.dbf')]
                    libs = [lib[:-4] + e for e in ('.shp', '.shx', '.dbf')]
                else:
                    outs, libs = [out], [lib]
                same_files = True
                for a, b in zip(outs, libs):
                    if not os.path.exists(a) or file_bytes(a) != file_bytes(b):
                        ctx.report('property', f'export-geometry {fmt}: file {os.path.basename(a)} differs from the library output', case)
                        same_files = False
                        break
                # (and the exported file denotes exactly the geometry of the dataset: every coordinate of every cell)
                if same_files and fmt in ('geojson', 'wkt'):
                    try:
                        if fmt == 'geojson':
                            got_rings = [[(float(x), float(y)) for x, y in f_['geometry']['coordinates'][0][:-1]] for f_ in json.load(open(out))['features']]
                        else:
                            got_rings = [[(float(x), float(y)) for x, y in list(g_.exterior.coords)[:-1]] for g_ in shapely.from_wkt(open(out).read()).geoms]
                    except Exception as e_:     # noqa: BLE001
                        ctx.report('property', f'the exported {fmt} file cannot be read back: {type(e_).__name__}', case)
                        continue
                    if got_rings != rings:
                        kbad = next((k_ for k_, (x_, y_) in enumerate(zip(got_rings, rings)) if x_ != y_), None)
                        ctx.report('property', f'the {fmt} file written by the command does not hold the coordinates of the cells: polygon '
                                   f'{kbad} is {got_rings[kbad][:3] if kbad is not None else len(got_rings)}.., the cell is '
                                   f'{rings[kbad][:3] if kbad is not None else len(rings)}..', case)
            # the same through `python -m emsarray` in a fresh interpreter (first datasets of the run): a success and a failure
            if n < (1 if quick else 4):
                mout = os.path.join(tmp, f'mod_{n}.wkt')
                mlib = os.path.join(tmp, f'modlib_{n}.wkt')
                mcode, merr = run_module(['export-geometry', src, mout])
                with warnings.catch_warnings():
                    warnings.simplefilter('ignore')
                    mlr = attempt(geometry_ops.write_wkt, ondisk, mlib)
                ctx.count('python -m emsarray')
                ctx.case((label, 'module', 'export'), True)
                if mlr[0] == 'ok' and (mcode != 0 or not os.path.exists(mout) or file_bytes(mout) != file_bytes(mlib)):
                    ctx.report('property', f'python -m emsarray export-geometry: status {mcode}, output '
                               f'{"differs from" if os.path.exists(mout) else "missing, unlike"} the library output: {merr[-200:]}',
                               {'dataset': label, 'command': ['python', '-m', 'emsarray', 'export-geometry', '<in>', 'mod.wkt']})
                # points outside the model, in numbers that are multiples of 256 (a process exit status has eight bits)
                if n == 0:
                    for nmiss in ((256,) if quick else (256, 512, 255)):
                        mcsv = os.path.join(tmp, f'mod_miss_{nmiss}.csv')
                        with open(mcsv, 'w') as fh:
                            fx = max(x for r_ in rings for x, y in r_) + 5.0
                            fy = max(y for r_ in rings for x, y in r_) + 5.0
                            fh.write('lon,lat\n' + ''.join(f'{fx + k},{fy}\n' for k in range(nmiss)))
                        mo = os.path.join(tmp, f'mod_miss_{nmiss}.nc')
                        mcode, merr = run_module(['extract-points', src, mcsv, mo])
                        ctx.case((label, 'module', 'misses', nmiss), True)
                        ctx.count('python -m emsarray: points outside the model')
                        if mcode == 0 or os.path.exists(mo):
                            ctx.report('property', f'python -m emsarray extract-points with {nmiss} points outside the model ended with '
                                       f'status {mcode}{" and left an output file" if os.path.exists(mo) else ""}',
                                       {'dataset': label, 'misses': nmiss})
                mcode, merr = run_module(['clip', src, '1,2,3,4,5', os.path.join(tmp, f'mod_bad_{n}.nc')])
                ctx.case((label, 'module', 'failure'), True)
                if mcode == 0 or os.path.exists(os.path.join(tmp, f'mod_bad_{n}.nc')):
                    ctx.report('property', f'python -m emsarray clip with the unreadable geometry "1,2,3,4,5" ended with status {mcode}',
                               {'dataset': label})
            # output names from which no format can be guessed: an unknown extension, none at all, a trailing dot, a name that is
            # only an extension, a dotted directory
            os.makedirs(os.path.join(tmp, 'v1.2'), exist_ok=True)
            for bad_name in [f'cli_{n}.xyz', f'cli_{n}' + ['.wkt.bak', '.geojson.tmp', '.shp.old', '.json.1'][n % 4]] + [[f'cli_{n}_mesh', f'cli_{n}_mesh.', os.path.join('v1.2', f'mesh_{n}'), '.geojson'][n % 4]]:
                code, err = run_cli(['export-geometry', src, os.path.join(tmp, bad_name)])
                ctx.count('export:unknown_extension')
                ctx.case((label, 'export', 'unguessable', bad_name[-6:]), True)
                left = os.path.exists(os.path.join(tmp, bad_name))
                if code == 0 or left:
                    ctx.report('property', f'export-geometry to {bad_name!r}, a name no format can be guessed from, ended with status {code}'
                               f'{" and left a file" if left else ""}', {'dataset': label, 'output_name': bad_name})
                if left:
                    os.remove(os.path.join(tmp, bad_name))
            # ---- extract-points
            pts = []
            for p in rng.sample(rings, min(len(rings), 4)):
                c = shapely.Polygon(p).representative_point()
                pts.append((round(c.x * 64) / 64, round(c.y * 64) / 64))
            xs = [x for r_ in rings for x, y in r_]
            ys = [y for r_ in rings for x, y in r_]
            far = (max(xs) + 5.0, max(ys) + 5.0)
            for policy in ['error', 'drop', 'fill']:
                rows = [{'name': f'p{k}', 'lon': x, 'lat': y, 'extra': k * 1.5} for k, (x, y) in enumerate(pts)]
                shape_kind = rng.choice(['hits', 'miss_middle', 'miss_first', 'empty_row', 'empty_row_then_miss'])
                if shape_kind in ('miss_middle', 'empty_row_then_miss'):
                    rows.insert(len(rows) // 2 + 1 if len(rows) > 1 else 1, {'name': 'far', 'lon': far[0], 'lat': far[1], 'extra': -1.0})
                if shape_kind == 'miss_first':
                    rows.insert(0, {'name': 'far', 'lon': far[0], 'lat': far[1], 'extra': -1.0})
                if policy != 'error' or shape_kind in ('hits', 'empty_row'):
                    # a station listed twice (the same row again, as in a log of visits): one result per row
                    rows.append(dict(rows[len(rows) // 2]))
                    rows.insert(1, dict(rows[0]))
                csv = os.path.join(tmp, f'pts_{n}_{policy}.csv')
                # column layout: the documented default, latitude before longitude, and user-named columns in either order
                lonn, latn, order, cflag = rng.choice([
                    ('lon', 'lat', ['name', 'lon', 'lat', 'extra'], []),
                    ('lon', 'lat', ['lat', 'name', 'lon', 'extra'], []),
                    ('lon', 'lat', ['name', 'lat', 'lon', 'extra'], ['-c', 'lon', 'lat']),
                    ('easting', 'northing', ['northing', 'easting', 'name', 'extra'], ['-c', 'easting', 'northing']),
                    ('x', 'y', ['name', 'extra', 'x', 'y'], ['--coordinate-columns', 'x', 'y']),
                    ('b', 'a', ['a', 'b', 'name', 'extra'], ['-c', 'b', 'a'])])
                dimflag = rng.choice([[], [], ['-d', 'station'], ['--point-dimension', 'obs']])
                key_of = {'name': 'name', lonn: 'lon', latn: 'lat', 'extra': 'extra'}
                fmt = lambda v: v if isinstance(v, str) else repr(v)
                lines = [','.join(order)] + [','.join(fmt(r_[key_of[c]]) for c in order) for r_ in rows]
                if shape_kind in ('empty_row', 'empty_row_then_miss'):
                    lines.insert(2 if len(lines) > 2 else 1, ',,,')       # spreadsheet exports pad with empty rows
                open(csv, 'w').write('\n'.join(lines) + '\n')
                out = os.path.join(tmp, f'cli_pts_{n}_{policy}.nc')
                argv = ['extract-points', src, csv, out, '--missing-points', policy] + cflag + dimflag
                code, err = run_cli(argv)
                case = {'dataset': label, 'command': ['extract-points', '<in>', '<csv>', '<out>', '--missing-points', policy]
                        + cflag + dimflag, 'csv': lines}
                ctx.case((label, 'extract', policy, tuple(lines)), True)
                ctx.count(f'extract:{policy}:{shape_kind}')
                ctx.count(f"extract:columns:{','.join(order)}:{' '.join(cflag) or 'default'}")
                df = pandas.read_csv(csv)
                with warnings.catch_warnings():
                    warnings.simplefilter('ignore')
                    lr = attempt(lambda: point_extraction.extract_dataframe(
                        ondisk, df, (lonn, latn), missing_points=policy,
                        **({'point_dimension': dimflag[1]} if dimflag else {})))
                if lr[0] != 'ok':
                    if code == 0 or os.path.exists(out):
                        ctx.report('property', f'library extract_dataframe fails ({lr[1]}) but the command ended with status {code}'
                                   f'{" and left an output file" if os.path.exists(out) else ""}', case)
                    continue
                if code != 0:
                    ctx.report('property', f'extract-points exits {code} although the library call succeeds: {err[-300:]}', case)
                    continue
                lib = os.path.join(tmp, f'lib_pts_{n}_{policy}.nc')
                with warnings.catch_warnings():
                    warnings.simplefilter('ignore')
                    to_netcdf_with_fixes(lr[1], lib)
                    a, b = xarray.open_dataset(out), xarray.open_dataset(lib)
                    a.load(), b.load()
                    a.close(), b.close()
                diff = datasets_equal(a, b)
                if diff:
                    ctx.report('property', f'extract-points output differs from extract_dataframe: {diff}', case)
                    continue
                # (and the file holds what was asked for: every variable of the input that runs along a surface dimension, one
                # row per point found)
                gset = set(d.spec['kinds']['face'])
                with warnings.catch_warnings():
                    warnings.simplefilter('ignore')
                    geom_names = {str(x) for x in ondisk.ems.get_all_geometry_names()}
                expect_vars = sorted(str(v) for v in ondisk.data_vars if set(ondisk[v].dims) & gset and str(v) not in geom_names
                                     and ondisk[v].attrs.get('bounds') is None and not any(str(v) == str(ondisk[c].attrs.get('bounds')) for c in ondisk.variables))
                lost = [v for v in expect_vars if v not in a.variables]
                if lost:
                    ctx.report('property', f'extract-points wrote no values for {lost}, variables of the input that run along a surface '
                               f'dimension (and so does the library call)', case)
            # ---- clip
            x0, x1 = sorted(rng.sample(sorted(set(xs)), 2)) if len(set(xs)) > 1 else (min(xs), max(xs) + 1)
            y0, y1 = sorted(rng.sample(sorted(set(ys)), 2)) if len(set(ys)) > 1 else (min(ys), max(ys) + 1)
            tri = shapely.Polygon([(x0, y0), (x1, y0), (x0, y1)])
            clip_args = [(f'{x0!r}, {y0!r},{x1!r} ,{y1!r}', box(x0, y0, x1, y1)),
                         (json.dumps(dict(mapping(tri), bbox=[float(v) for v in tri.bounds])), tri)]
            gpath = os.path.join(tmp, f'clip_{n}.geojson')
            open(gpath, 'w').write(json.dumps(mapping(tri)))
            clip_args.append((gpath, tri))
            # a region whose bounding box encloses the whole model although the region itself does not: half the domain
            # cut along the diagonal, and two far corners
            bx0, bx1, by0, by1 = min(xs) - 1.0, max(xs) + 1.0, min(ys) - 1.0, max(ys) + 1.0
            half = shapely.Polygon([(bx0, by0), (bx1, by0), (bx0, by1)])
            corners = shapely.MultiPolygon([box(bx0, by0, bx0 + 1.5, by0 + 1.5), box(bx1 - 1.5, by1 - 1.5, bx1, by1)])
            wide = [(json.dumps(mapping(half)), half), (json.dumps(mapping(corners)), corners)]
            # a region whose ring crosses itself (a figure of eight drawn by hand): the command line and the library read the
            # same GeoJSON and must treat it alike
            eight = shapely.Polygon([(bx0, by0), (bx1, by1), (bx1, by0), (bx0, by1), (bx0, by0)])
            wide.append((json.dumps(mapping(eight)), eight))
            hpath = os.path.join(tmp, f'clip_half_{n}.geojson')
            open(hpath, 'w').write(json.dumps({'type': 'Feature', 'properties': {}, 'geometry': mapping(half)}))
            wide.append((hpath, half))
            chosen = (clip_args + wide) if not quick else rng.sample(clip_args, 2) + [wide[n % len(wide)]]
            # a region file that is edited between two commands (the same name, another region): each command reads the file as it
            # is when the command runs
            epath = os.path.join(tmp, f'region_{n}.geojson')
            chosen = chosen + [(epath, tri), (epath, box(x0, y0, x1, y1))]
            for arg, geom in chosen:
                if arg == epath:
                    open(epath, 'w').write(json.dumps(mapping(geom)))
                    ctx.count('clip:region file rewritten between commands')
                out = os.path.join(tmp, f'cli_clip_{n}.nc')
                if os.path.exists(out):
                    os.remove(out)
                code, err = run_cli(['clip', src, arg, out])
                case = {'dataset': label, 'command': ['clip', '<in>', arg if not arg.startswith(tmp) else '<geojson file>', '<out>']}
                ctx.case((label, 'clip', arg), True)
                ctx.count('clip:' + ('bounds' if geom.equals(box(x0, y0, x1, y1)) and ',' in arg and '{' not in arg else
                                     'geojson_file' if arg in (gpath, hpath, epath) else 'geojson_string'))
                ctx.count(f'clip:region bounding box encloses the model:{geom.envelope.covers(box(min(xs), min(ys), max(xs), max(ys)))}')
                work = tempfile.mkdtemp(prefix='clipwork_', dir=tmp)
                with warnings.catch_warnings():
                    warnings.simplefilter('ignore')
                    lr = attempt(lambda: emsarray.open_dataset(src).ems.clip(geom, work_dir=work))
                    if lr[0] == 'ok':
                        lib = os.path.join(tmp, f'lib_clip_{n}.nc')
                        if os.path.exists(lib):
                            os.remove(lib)
                        lw = attempt(lambda: lr[1].ems.to_netcdf(lib))
                        if lw[0] != 'ok':
                            lr = lw
                if lr[0] != 'ok':
                    if code == 0:
                        ctx.report('property', f'library clip fails ({lr[1]}) but the command exits 0', case)
                    shutil.rmtree(work, ignore_errors=True)
                    continue
                if code != 0:
                    ctx.report('property', f'clip exits {code} although the library call succeeds: {err[-300:]}', case)
                    shutil.rmtree(work, ignore_errors=True)
                    continue
                with warnings.catch_warnings():
                    warnings.simplefilter('ignore')
                    a, b = xarray.open_dataset(out), xarray.open_dataset(lib)
                    a.load(), b.load()
                    a.close(), b.close()
                diff = datasets_equal(a, b)
                if not diff:
                    # as stored: the units of every variable (the time axis is rewritten for EMS by the library's save)
                    import netCDF4
                    with netCDF4.Dataset(out) as na, netCDF4.Dataset(lib) as nb:
                        for vn in nb.variables:
                            ua = getattr(na.variables[vn], 'units', None) if vn in na.variables else 'variable missing'
                            ub = getattr(nb.variables[vn], 'units', None)
                            if ua != ub:
                                diff = f'variable {vn} is stored with units {ua!r}, the library writes {ub!r}'
                                break
                shutil.rmtree(work, ignore_errors=True)
                if diff:
                    ctx.report('property', f'clip output differs from dataset.ems.clip of the same geometry: {diff}', case)
            # ---- two clips, one after the other, given the same --work_dir: each region is what its own argument says
            # (run as separate `python -m emsarray` processes, as a user would: within one process the work files of the first
            # clip are still held open by its lazily loaded result)
            if len(set(xs)) > 2 and len(set(ys)) > 2 and n < (2 if quick else 8):
                sx, sy = sorted(set(xs)), sorted(set(ys))
                regions = [box(sx[0] - 0.5, sy[0] - 0.5, sx[1] + 0.01, sy[1] + 0.01), box(sx[-2] - 0.01, sy[-2] - 0.01, sx[-1] + 0.5, sy[-1] + 0.5)]
                wdir = tempfile.mkdtemp(prefix='shared_work_', dir=tmp)
                for k, geom in enumerate(regions):
                    b = geom.bounds
                    arg = ','.join(repr(float(v)) for v in b)
                    out = os.path.join(tmp, f'cli_shared_{n}_{k}.nc')
                    code, err = run_module(['clip', '--work_dir', wdir, '--', src, arg, out])
                    case = {'dataset': label, 'command': ['clip', '--work_dir', '<dir used by the previous clip>', '--', '<in>', arg, '<out>'],
                            'run': k}
                    ctx.case((label, 'clip_shared_work_dir', k), True)
                    ctx.count('clip:work_dir shared by two runs')
                    work = tempfile.mkdtemp(prefix='clipwork_', dir=tmp)
                    with warnings.catch_warnings():
                        warnings.simplefilter('ignore')
                        lr = attempt(lambda: emsarray.open_dataset(src).ems.clip(geom, work_dir=work))
                        lib = os.path.join(tmp, f'lib_shared_{n}_{k}.nc')
                        if lr[0] == 'ok':
                            lw = attempt(lambda: lr[1].ems.to_netcdf(lib))
                            if lw[0] != 'ok':
                                lr = lw
                    if lr[0] != 'ok' or code != 0:
                        if (lr[0] == 'ok') != (code == 0):
                            ctx.report('property', f'clip with --work_dir: command status {code}, library {lr[0]} ({err[-200:]})', case)
                        shutil.rmtree(work, ignore_errors=True)
                        continue
                    with warnings.catch_warnings():
                        warnings.simplefilter('ignore')
                        a, b2 = xarray.open_dataset(out), xarray.open_dataset(lib)
                        a.load(), b2.load()
                        a.close(), b2.close()
                    diff = datasets_equal(a, b2)
                    shutil.rmtree(work, ignore_errors=True)
                    if diff:
                        ctx.report('property', f'clip given a work directory used by an earlier clip differs from dataset.ems.clip of '
                                   f'the same region: {diff}', case)
            # ---- failures the user can cause
            code, err = run_cli(['clip', os.path.join(tmp, 'nope.nc'), '1,2,3,4', os.path.join(tmp, 'o.nc')])
            ctx.count('failure:missing_input')
            if code == 0:
                ctx.report('property', 'clip of a missing input file exits 0', {'dataset': label})
            code, err = run_cli(['clip', src, '1,2,3,4,5', os.path.join(tmp, 'o2.nc')])
            ctx.count('failure:unreadable_geometry')
            if code == 0 or os.path.exists(os.path.join(tmp, 'o2.nc')):
                ctx.report('property', f'clip with the unreadable geometry "1,2,3,4,5" ended with status {code}', {'dataset': label})
            ondisk.close()
    finally:
        shutil.rmtree(tmp, ignore_errors=True)
