"""C08 - clipping keeps every selected value and blanks everything else."""
import shutil
import warnings

import numpy

import emsarray  # noqa: F401
from coqio import Some, coq_eval_sharded, to_coq
import clipcommon as cc
from hutil import attempt


def run(ctx):
    quick = ctx.tier == 'quick'
    ctx.rule = ('datasets of every convention written to netCDF and reopened (a quarter with mask_and_scale=False so integer fill '
                'attributes stay attributes); variables: float, int, int with _FillValue, int with missing_value, on every grid '
                'kind, 0-2 extra dimensions in any position, one without spatial dimensions; meshes with any subset of the optional '
                'connectivity; clip geometries (boxes, triangles, lines, points, touching, covering) x buffers 0-2; masks applied '
                'directly or saved, reloaded and applied to a second dataset with the same geometry and other data. one case = one '
                'variable of one clip; non-trivial = the clip drops at least one cell; distinct by content')
    fl, tmp = cc.flows(ctx, 55 if quick else 165, quick)
    exprs, plans = [], []
    try:
        for f in fl:
            case = f.case
            ctx.count(f'family:{f.d.family}')
            ctx.count(f'history:{f.history}')
            ctx.count(f'buffer:{f.buffer}')
            ctx.count(f'geometry:{f.tag}')
            ctx.count(f'mask_and_scale:{not f.raw_mode}')
            if f.error:
                ctx.case((case['dataset'], f.tag, f.buffer, f.history), True)
                ctx.report('property', f.error, case)
                continue
            out, target = f.out, f.target
            # clip() in one step must give what make_clip_mask + apply_clip_mask gave (first clip of each dataset)
            if f.history == 'direct' and f.buffer == 0:
                import tempfile
                work2 = tempfile.mkdtemp(prefix='clip_one_step_', dir=tmp)
                with warnings.catch_warnings():
                    warnings.simplefilter('ignore')
                    one = attempt(lambda: f.ds.ems.clip(f.geom, work2, buffer=f.buffer))
                    if one[0] == 'ok':
                        one = attempt(lambda: one[1].load())
                ctx.count('clip_in_one_step')
                if one[0] != 'ok':
                    ctx.report('property', f'dataset.ems.clip failed ({one[1]}) where make_clip_mask + apply_clip_mask succeed', case)
                else:
                    for name in out.variables:
                        if name not in one[1].variables or one[1][name].dims != out[name].dims or not cc.same_values(
                                one[1][name].values, out[name].values):
                            ctx.report('property', f'dataset.ems.clip and make_clip_mask + apply_clip_mask disagree on variable {name}', case)
                            break
            if f.d.family != 'ugrid':
                masks = cc.grid_masks(f)
                bounds = cc.grid_bounds(masks)
                dropped = any(not arr.all() for _, _, arr in masks)
                exprs.append(cc.mask_bits_expr(masks))
                plans.append((case, cc.mask_plan_python(masks, bounds)))
                for name in list(target.data_vars) + list(target.coords):
                    a = target[name]
                    kind, want, mname = cc.expected_grid_var(f, name, masks, bounds)
                    vcase = dict(case, variable=str(name), dims=list(a.dims), dtype=str(a.dtype), treatment=kind, mask=mname)
                    ctx.case((case['dataset'], f.tag, f.buffer, f.history, str(name)), dropped,
                             sample=vcase if dropped and len(ctx.samples) < 3 and kind == 'masked' else None)
                    ctx.count(f'variable:{kind}:{a.dtype.kind}')
                    if name not in out.variables:
                        ctx.report('property', f'variable {name} is missing from the clipped dataset', vcase)
                        continue
                    got = out[name]
                    if set(got.dims) != set(want.dims):
                        ctx.report('property', f'{name}: dimensions {got.dims}, expected {want.dims}', vcase)
                        continue
                    got = got.transpose(*want.dims)
                    if not cc.same_values(got.values, want.values):
                        what = {'masked': 'selected cells must keep their values and every other remaining cell must hold the missing value',
                                'unmaskable': 'a variable that cannot represent a missing value must be cropped but not altered',
                                'untouched': 'coordinates and variables without spatial dimensions must pass through (cropped only)'}[kind]
                        ctx.report('property', f'{name} ({a.dtype}, {kind}): {what}; got {numpy.asarray(got.values).reshape(-1)[:8].tolist()} '
                                   f'expected {numpy.asarray(want.values).reshape(-1)[:8].tolist()}', vcase)
                        continue
                    if dict(got.attrs) != dict(a.attrs) and kind != 'masked':
                        pass
                    for k, v in a.attrs.items():
                        if k in ('_FillValue', 'missing_value', 'scale_factor', 'add_offset') and k in got.encoding:
                            continue        # decoded by xarray on the way: now part of the encoding, written back on save
                        if k not in got.attrs or not numpy.array_equal(got.attrs[k], v):
                            ctx.report('property', f'{name}: attribute {k} not passed through', vcase)
                            break
                # a mask over dimensions the dataset does not have selects nothing of it: it is refused, the data are never
                # handed back whole as if they had been clipped
                if dropped and f.history == 'direct' and f.buffer == 0:
                    import tempfile
                    from emsarray import masking
                    work3 = tempfile.mkdtemp(prefix='clip_other_dims_', dir=tmp)
                    gdims_ = sorted({str(x) for v_ in f.mask.data_vars for x in f.mask[v_].dims})
                    other = f.mask.rename({g_: f'other_{g_}' for g_ in gdims_})
                    with warnings.catch_warnings():
                        warnings.simplefilter('ignore')
                        r3 = attempt(lambda: masking.mask_grid_dataset(target, other, work3).load())
                    ctx.count('mask over other dimensions')
                    if r3[0] == 'ok':
                        floats = [str(nm) for nm in target.data_vars if target[nm].dtype.kind == 'f'
                                  and set(map(str, f.d.spec['kinds']['face'])) <= set(map(str, target[nm].dims))]
                        if floats and floats[0] in r3[1].variables and r3[1][floats[0]].shape == target[floats[0]].shape and cc.same_values(
                                r3[1][floats[0]].values, target[floats[0]].values):
                            ctx.report('property', f'a clip mask over the dimensions {["other_" + g_ for g_ in gdims_]}, none of which the dataset '
                                       f'has, was applied without an error and every value of {floats[0]} outside the region survives', case)
            else:
                topo = target.ems.topology
                dims = {'face': topo.face_dimension, 'node': topo.node_dimension}
                tabs = {'face': cc.tab_of(f.mask, 'new_face_index'), 'node': cc.tab_of(f.mask, 'new_node_index')}
                if f.d.spec['has_edge_dim'] and 'new_edge_index' in f.mask:
                    dims['edge'] = topo.edge_dimension
                    tabs['edge'] = cc.tab_of(f.mask, 'new_edge_index')
                keep = {k: [i for i, x in enumerate(t) if x is not None] for k, t in tabs.items()}
                dropped = any(len(keep[k]) < len(tabs[k]) for k in tabs)
                # the selected edges and nodes are those of the selected faces (the input's own tables): data on an edge or node
                # that belongs to no selected face lies outside the region
                with warnings.catch_warnings():
                    warnings.simplefilter('ignore')
                    fn_ = attempt(lambda: cc.opt_rows(topo.face_node_array))
                    fe_ = attempt(lambda: cc.opt_rows(topo.face_edge_array)) if 'edge' in tabs else ('skip', None)
                sel_bad = None
                if fn_[0] == 'ok':
                    want_nodes = sorted({x.v for i in keep['face'] for x in fn_[1][i] if x is not None})
                    if want_nodes != keep['node']:
                        sel_bad = (f'nodes kept {keep["node"]}, the nodes of the selected faces are {want_nodes}: node variables would keep '
                                   f'data from outside the region / lose data inside it')
                if not sel_bad and fe_[0] == 'ok':
                    want_edges = sorted({x.v for i in keep['face'] for x in fe_[1][i] if x is not None})
                    if want_edges != keep['edge']:
                        sel_bad = (f'edges kept {keep["edge"]}, the edges of the selected faces are {want_edges}: edge variables would keep '
                                   f'data from outside the region / lose data inside it')
                if sel_bad:
                    ctx.report('property', sel_bad, case)
                    continue
                exprs.append('[' + '; '.join(f'kept_of {to_coq(tabs[k])}' for k in sorted(tabs)) + ']')
                plans.append((case, [keep[k] for k in sorted(tabs)]))
                geometry_names = {str(x) for x in target.ems.get_all_geometry_names()}
                conn_names = set(cc.CONN.values())
                for name in list(target.data_vars) + list(target.coords):
                    if str(name) in conn_names or str(name) == 'Mesh2':
                        continue          # topology: C09
                    a = target[name]
                    want = a
                    for k, dname in dims.items():
                        if dname in a.dims:
                            want = want.isel({dname: keep[k]})
                    spatial = any(dname in a.dims for dname in dims.values())
                    vcase = dict(case, variable=str(name), dims=list(a.dims), dtype=str(a.dtype))
                    ctx.case((case['dataset'], f.tag, f.buffer, f.history, str(name)), dropped and spatial,
                             sample=vcase if dropped and spatial and len(ctx.samples) < 4 else None)
                    ctx.count(f'variable:{"rows" if spatial else "untouched"}:{a.dtype.kind}')
                    if name not in out.variables:
                        ctx.report('property', f'variable {name} is missing from the clipped dataset', vcase)
                        continue
                    got = out[name]
                    if set(got.dims) != set(want.dims):
                        ctx.report('property', f'{name}: dimensions {got.dims}, expected {want.dims}', vcase)
                        continue
                    got = got.transpose(*want.dims)
                    if not cc.same_values(got.values, want.values):
                        ctx.report('property', f'{name}: the clipped variable must hold exactly the rows of the selected '
                                   f'{[k for k, dn in dims.items() if dn in a.dims]} in their original order; got '
                                   f'{numpy.asarray(got.values).reshape(-1)[:8].tolist()} expected '
                                   f'{numpy.asarray(want.values).reshape(-1)[:8].tolist()}', vcase)
                        continue
                    for k, v in a.attrs.items():
                        if k in ('_FillValue', 'missing_value') and k in got.encoding:
                            continue        # decoded by xarray on the way: now part of the encoding, written back on save
                        if k not in got.attrs or not numpy.array_equal(got.attrs[k], v):
                            ctx.report('property', f'{name}: attribute {k} not passed through', vcase)
                            break
            for k, v in target.attrs.items():
                if k not in out.attrs or out.attrs[k] != v:
                    ctx.report('property', f'global attribute {k} not passed through', case)
                    break
        model = coq_eval_sharded(['Base.Index', 'Model.Mask', 'Model.Clip'], exprs, shard=8, workers=12)
        ctx.leg('clip_plans', len(exprs))
        for (case, py), mres in zip(plans, model):
            if py != mres:
                ctx.report('correspondence', f'model Clip plan {mres} differs from the crop / kept elements read off the mask {py}', case,
                           found_input=False)
    finally:
        shutil.rmtree(tmp, ignore_errors=True)
    dataset_like_leg(ctx)


KEYS = ['units', 'long_name', '_FillValue', 'missing_value', 'scale_factor', 'valid_min', 'coordinates', 'standard_name', 'dtype',
        'chunksizes', 'add_offset', 'cell_methods']


def dataset_like_leg(ctx):
    """utils.dataset_like against Model.AttrMerge: the attributes and encodings of the variables of a dataset reassembled from
    pieces, for every mixture of names held as attribute or encoding entry by the source and by the reassembled variable."""
    import xarray
    from emsarray import utils
    from coqio import tup
    rng = ctx.rng
    n = 60 if ctx.tier == 'quick' else 600
    exprs, plans = [], []

    def random_dict(exclude=()):
        keys = [k for k in rng.sample(KEYS, rng.randint(0, 5)) if k not in exclude]
        return {k: rng.randint(1, 99) for k in keys}

    def lit(dct):
        return to_coq([tup(KEYS.index(k), v) for k, v in dct.items()])
    for i in range(n):
        s_attrs = random_dict()
        s_enc = random_dict(exclude=s_attrs)
        n_enc = random_dict()
        # the reassembled variable usually brings a part of what the source had (read back from the files written from it), at
        # times with names moved between attributes and encoding by the reader, at times with a value of its own
        n_attrs = {k: (v if rng.random() < 0.7 else v + 100) for k, v in s_attrs.items() if rng.random() < 0.5 and k not in n_enc}
        if rng.random() < 0.3:
            n_attrs.update({k: v for k, v in random_dict(exclude=n_enc).items()})
        sample = xarray.Dataset({'v': ('x', numpy.arange(3.0))}, coords={'c': ('x', numpy.arange(3.0))})
        new = xarray.Dataset({'v': ('x', numpy.arange(3.0) + 1)}, coords={'c': ('x', numpy.arange(3.0))})
        which = 'v' if i % 3 else 'c'
        sample[which].attrs.update(s_attrs)
        sample[which].encoding.update(s_enc)
        new[which].attrs.update(n_attrs)
        new[which].encoding.update(n_enc)
        before = (dict(new[which].attrs), dict(new[which].encoding), dict(sample[which].attrs), dict(sample[which].encoding))
        r = attempt(lambda: utils.dataset_like(sample, new))
        case = {'variable': which, 'source attrs': s_attrs, 'source encoding': s_enc, 'reassembled attrs': n_attrs, 'reassembled encoding': n_enc}
        ctx.count(f'dataset_like:overlap attrs/new encoding={bool(set(s_attrs) & set(n_enc))}')
        ctx.case(('dataset_like', str(case)), bool(set(s_attrs) & set(n_enc)))
        if r[0] != 'ok':
            ctx.report('property', f'utils.dataset_like failed: {r[1]}', case)
            continue
        out = r[1][which]
        got = ([(KEYS.index(k), int(v)) for k, v in out.attrs.items()], [(KEYS.index(k), int(v)) for k, v in out.encoding.items()])
        # attributes pass through: every source attribute is there with its value unless the reassembled variable has the name
        for k, v in s_attrs.items():
            if k not in n_attrs and k not in n_enc and out.attrs.get(k) != v:
                ctx.report('property', f'attribute {k}={v} of the source variable is {out.attrs.get(k)!r} on the reassembled dataset', case)
        if (dict(sample[which].attrs), dict(sample[which].encoding)) != before[2:]:
            ctx.report('property', 'utils.dataset_like changed the attributes / encoding of the sample dataset', case)
        exprs.append(f'(like_var {lit(s_attrs)} {lit(s_enc)} {lit(n_attrs)} {lit(n_enc)})')
        plans.append((case, got))
    model = coq_eval_sharded(['Model.AttrMerge'], exprs, shard=30, workers=4)
    ctx.leg('dataset_like_cases', len(exprs))
    for (case, got), (m_attrs, m_enc) in zip(plans, model):
        want = ([(int(a), int(b)) for a, b in m_attrs], [(int(a), int(b)) for a, b in m_enc])
        if want != got:
            ctx.report('correspondence', f'model AttrMerge.like_var (attributes, encoding) = {want}, utils.dataset_like {got} (names numbered '
                       f'in {KEYS})', case, found_input=False)
