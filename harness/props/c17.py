"""C17 - saving with the EMS fixes preserves data, geometry and time instants."""
import datetime
import os
import re
import shutil
import tempfile
import warnings

import cftime
import netCDF4
import numpy
import xarray

import emsarray  # noqa: F401
from emsarray import utils
from coqio import Some, coq_eval_sharded, to_coq
import gen
import polymodel as pm
from hutil import attempt

PERIODS = ['seconds', 'minutes', 'hours', 'days']
SHAPE = re.compile(r'^(seconds|minutes|hours|days) since \d{4}-\d{2}-\d{2} \d{2}:\d{2}:\d{2} [+-]\d{2}:\d{2}$')


def codes(s):
    return [ord(c) for c in s]


def spell(rng, period, f, off, style=None):
    """one of the spellings xarray / users write for the same reference time"""
    y, mo, d, h, mi, s = f
    style = style or rng.choice(['iso', 'space', 'noseconds', 'short_offset', 'compact_offset', 'loose', 'no_offset', 'date_only'])
    sign = '-' if off < 0 else '+'
    a = abs(off)
    if style == 'iso':
        return f'{period} since {y:04d}-{mo:02d}-{d:02d}T{h:02d}:{mi:02d}:{s:02d}{sign}{a // 60:02d}:{a % 60:02d}', style
    if style == 'space':
        return f'{period} since {y:04d}-{mo:02d}-{d:02d} {h:02d}:{mi:02d}:{s:02d} {sign}{a // 60:02d}:{a % 60:02d}', style
    if style == 'noseconds' and s == 0:
        return f'{period} since {y:04d}-{mo:02d}-{d:02d} {h:02d}:{mi:02d} {sign}{a // 60:02d}:{a % 60:02d}', style
    if style == 'short_offset' and a % 60 == 0:
        return f'{period} since {y:04d}-{mo:02d}-{d:02d} {h:02d}:{mi:02d}:{s:02d} {sign}{a // 60:02d}', style
    if style == 'compact_offset':
        return f'{period} since {y:04d}-{mo:02d}-{d:02d}T{h:02d}:{mi:02d}:{s:02d}{sign}{a // 60:02d}{a % 60:02d}', style
    if style == 'loose':
        return f'{period} since {y}-{mo}-{d} {h}:{mi:02d}:{s:02d} {sign}{a // 60:02d}:{a % 60:02d}', style
    if style == 'no_offset' and off == 0:
        # UTC understood: no zone designator at all (the most common spelling in files written by other tools)
        return f'{period} since {y:04d}-{mo:02d}-{d:02d} {h:02d}:{mi:02d}:{s:02d}', style
    if style == 'date_only' and off == 0 and (h, mi, s) == (0, 0, 0):
        return f'{period} since {y:04d}-{mo:02d}-{d:02d}', style
    return spell(rng, period, f, off, 'space')


def fields_literal(f):
    y, mo, d, h, mi, s = f
    return f'{{| year := {y}; month := {mo}; day := {d}; hour := {h}; minute := {mi}; second := {s} |}}'


def raw_attrs(path):
    out = {}
    with netCDF4.Dataset(path) as nc:
        nc.set_auto_maskandscale(False)
        for name, v in nc.variables.items():
            out[name] = {k: v.getncattr(k) for k in v.ncattrs()}
    return out


def in_memory_leg(ctx, tmp):
    """Datasets assembled in memory (a post-processing script): the time coordinate carries the units it is to be stored with
    and nothing else - no stored dtype - and its records do not fall on whole units, so xarray stores fractions.  Saved through
    the convention, no variable gains a fill value, the units have the EMS form and the instants are the same."""
    rng = ctx.rng
    n = 6 if ctx.tier == 'quick' else 40
    for k in range(n):
        fam = gen.FAMILIES[k % len(gen.FAMILIES)]
        d = gen.any_dataset(rng, fam)
        ds = d.ds
        tname = gen.TIME_NAMES.get(d.family, 'time')
        step_h, unit = [(6, 'days'), (1, 'days'), (12, 'days'), (30, 'hours')][k % 4]
        nt = rng.randint(2, 4)
        off = rng.choice(['+10:00', '-09:30', '+05:30', '+00:00', '-03:00'])
        base = numpy.datetime64('1990-01-01T00:00:00', 'ns')
        step = numpy.timedelta64(step_h * 60 if unit == 'days' else step_h, 'm')
        tvals = base + numpy.arange(nt) * step + numpy.timedelta64(rng.choice([0, 90]), 'm')
        tda = xarray.DataArray(tvals, dims=['record'], attrs={'standard_name': 'time', 'long_name': 'Time'})
        tda.encoding['units'] = f'{unit} since 1990-01-01 00:00:00 {off}'
        ds = ds.assign_coords({tname: tda})
        gdims = list(d.spec['kinds']['face'])
        shape = [nt] + [ds.sizes[g] for g in gdims]
        ds['series'] = xarray.DataArray(numpy.arange(int(numpy.prod(shape)), dtype='f8').reshape(shape) + 0.5, dims=['record'] + gdims)
        ds['elapsed'] = xarray.DataArray(numpy.arange(nt) * numpy.timedelta64(90, 'm'), dims=['record'])
        case = {'dataset': d.spec['label'], 'in_memory': True, 'time_units': tda.encoding['units'], 'step': str(step),
                'instants': [str(x) for x in tvals]}
        had_fill = {str(v) for v in ds.variables if '_FillValue' in ds[v].attrs or ds[v].encoding.get('_FillValue') is not None}
        ctx.count(f'in_memory:{d.family}:{unit}')
        ctx.case((d.spec['label'], 'in memory', unit, step_h), True)
        path = os.path.join(tmp, f'mem_{k}.nc')
        with warnings.catch_warnings():
            warnings.simplefilter('ignore')
            r = attempt(lambda: ds.ems.to_netcdf(path))
        if r[0] != 'ok':
            ctx.report('property', f'ems.to_netcdf of a dataset assembled in memory failed: {r[1]}', case)
            continue
        ra = raw_attrs(path)
        gained = sorted(v for v, a in ra.items() if '_FillValue' in a and v not in had_fill)
        if gained:
            ctx.report('property', f'saved variables {gained} carry a _FillValue the dataset did not have', case)
            continue
        u2 = ra.get(tname, {}).get('units')
        if u2 is None or not SHAPE.match(str(u2)):
            ctx.report('property', f'time units written as {u2!r}: not the EMS form', case)
            continue
        with warnings.catch_warnings():
            warnings.simplefilter('ignore')
            back = xarray.open_dataset(path)
            got = back[tname].values.astype('datetime64[ns]')
            back.close()
        # the instants: the units name a local epoch, the decoded values are UTC instants either way
        sign = 1 if off[0] == '+' else -1
        off_min = sign * (int(off[1:3]) * 60 + int(off[4:6]))
        if got.shape != tvals.shape or not (got == tvals).all():
            ctx.report('property', f'time instants {tvals.tolist()} read back as {got.tolist()} (offset {off_min} minutes in the units)', case)


def run(ctx):
    rng = ctx.rng
    quick = ctx.tier == 'quick'
    ctx.rule = ('(A) format_time_units_for_ems on every UTC offset -12:00..+14:00 in 15-minute steps (negative, fractional, '
                'single-digit hours) x periods x epochs 1600-2400 x spellings (T / space, with / without seconds, +HH, +HHMM, '
                'unpadded fields), compared character by character with the model, matched against the EMS form and re-read with '
                'cftime; (B) datasets of every convention written to netCDF (fill values: none, -999, 0), reopened, saved through '
                'dataset.ems.to_netcdf and reopened: convention, polygons, values, instants, raw attributes. non-trivial = a '
                'non-zero offset (A) / a dataset with a time coordinate (B); distinct by input')
    offsets = list(range(-720, 841, 15))
    exprs, plans = [], []
    reps = 3 if quick else 40
    for off in offsets:
        for _ in range(reps):
            period = rng.choice(PERIODS)
            f = (rng.randint(1600, 2400), rng.randint(1, 12), rng.randint(1, 28), rng.randint(0, 23), rng.randint(0, 59),
                 rng.choice([0, 0, rng.randint(1, 59)]))
            units, style = spell(rng, period, f, off)
            exprs.append(f'(render {to_coq(codes(period))} {fields_literal(f)} ({off}))')
            plans.append((units, style, period, f, off))
    # the same reference time and period under one offset after another (files of one model run converted from several zones)
    f_same = (1990, 1, 1, 0, 0, 0)
    for off in (600, -180, 0, 330, 600, -570):
        units, style = spell(rng, 'days', f_same, off, 'space')
        exprs.append(f'(render {to_coq(codes("days"))} {fields_literal(f_same)} ({off}))')
        plans.append((units, style, 'days', f_same, off))
    model = coq_eval_sharded(['Model.TimeUnits'], exprs, shard=max(50, len(exprs) // 14), workers=14)
    ctx.leg('format_cases', len(exprs))
    import time as _time
    zones = [None, 'AEST-10AEDT,M10.1.0,M4.1.0/3', 'EST5EDT,M3.2.0,M11.1.0', 'IST-5:30', 'UTC0']
    saved_tz = os.environ.get('TZ')
    for k_, ((units, style, period, f, off), mres) in enumerate(zip(plans, model)):
        # the process runs in various local time zones: what is written depends on the units string only
        zone = zones[k_ % len(zones)]
        if zone is None:
            if saved_tz is None:
                os.environ.pop('TZ', None)
            else:
                os.environ['TZ'] = saved_tz
        else:
            os.environ['TZ'] = zone
        _time.tzset()
        ctx.count(f'process time zone:{zone or "as started"}')
        case = {'units': units, 'offset_minutes': off, 'spelling': style, 'TZ': zone}
        ctx.case(units, off != 0, sample=case if off in (-570, 300) else None)
        ctx.count(f'spelling:{style}')
        ctx.count('offset:' + ('negative' if off < 0 else 'zero' if off == 0 else 'positive') +
                  (',fractional' if off % 60 else '') + (',single-digit-hour' if abs(off) < 600 else ''))
        with warnings.catch_warnings():
            warnings.simplefilter('ignore')
            r = attempt(utils.format_time_units_for_ems, units)
        want_utc = datetime.datetime(*f) - datetime.timedelta(minutes=off)
        if r[0] != 'ok':
            ctx.report('property', f'format_time_units_for_ems({units!r}) failed: {r[1]}', case)
            continue
        out = r[1]
        bad = None
        if not SHAPE.match(out):
            bad = f'{out!r} is not of the form "<unit> since YYYY-MM-DD HH:MM:SS <signed offset>"'
        else:
            try:
                back = cftime.num2pydate(0, out, 'proleptic_gregorian')
            except Exception as e:      # noqa: BLE001
                back = f'unreadable: {e}'
            if back != want_utc:
                bad = f'{out!r} denotes {back}, the original {units!r} denotes {want_utc}'
        if bad:
            ctx.report('property', bad, case, impl=out)
        elif codes(out) != mres:
            ctx.report('correspondence', f'model TimeUnits.render gives {"".join(map(chr, mres))!r}, implementation {out!r}', case,
                       found_input=False)

    if saved_tz is None:
        os.environ.pop('TZ', None)
    else:
        os.environ['TZ'] = saved_tz
    _time.tzset()
    # a reference time with a fraction of a second (xarray writes 'milliseconds since ...00.500000'): the EMS form has whole
    # seconds only, so such units are refused - or, if ever rewritten, still denote the same instant
    for k_ in range(6 if quick else 40):
        f = (rng.randint(1950, 2050), rng.randint(1, 12), rng.randint(1, 28), rng.randint(0, 23), rng.randint(0, 59), rng.randint(0, 59))
        micro = rng.choice([500000, 250000, 1, 999999, 120000])
        period = rng.choice(['seconds', 'milliseconds', 'hours'])
        units = f'{period} since {f[0]:04d}-{f[1]:02d}-{f[2]:02d} {f[3]:02d}:{f[4]:02d}:{f[5]:02d}.{micro:06d}'
        case = {'units': units, 'spelling': 'fraction of a second in the reference time'}
        ctx.case(units, True)
        ctx.count('spelling:fraction of a second')
        with warnings.catch_warnings():
            warnings.simplefilter('ignore')
            r = attempt(utils.format_time_units_for_ems, units)
        if r[0] != 'ok':
            continue
        try:
            back = cftime.num2pydate(0, r[1], 'proleptic_gregorian')
        except Exception as e:      # noqa: BLE001
            back = f'unreadable: {e}'
        want = datetime.datetime(*f, micro)
        if back != want:
            ctx.report('property', f'{r[1]!r} denotes {back}, the original {units!r} denotes {want}: every time instant of a file saved '
                       f'with these units moves', case, impl=r[1])

    # ---------------- (B) save / reopen
    n_ds = 24 if quick else 150
    tmp = tempfile.mkdtemp(prefix='c17_', dir=os.environ.get('VERIF_WORK', '/verif/work'))
    exprs, plans = [], []
    tc_exprs, tc_plans = [], []
    fix_exprs, fix_plans = [], []
    try:
        for n in range(n_ds):
            fam = rng.choice(gen.FAMILIES)
            d = gen.any_dataset(rng, fam)
            ds = d.ds
            tname = gen.TIME_NAMES.get(d.family, 'time')
            nt = rng.randint(1, 3)
            off = rng.choice(offsets)
            period = rng.choice(['days', 'hours', 'seconds'])
            f = (rng.randint(1900, 2100), rng.randint(1, 12), rng.randint(1, 28), rng.randint(0, 23), rng.choice([0, 30]), 0)
            if n % 4 == 1:
                # epochs outside the range of 64-bit nanoseconds: xarray decodes such a time axis to cftime objects
                f = (rng.choice([1600, 2300, 1066]),) + f[1:]
            ctx.count(f'epoch:{"within datetime64[ns]" if 1700 < f[0] < 2250 else "outside datetime64[ns] (cftime)"}')
            if n % 3 == 2:
                # a reference time in UTC written without any zone designator, every other one without a time of day
                off = 0
                if n % 2 == 0:
                    f = f[:3] + (0, 0, 0)
                units, style = spell(rng, period, f, off, 'date_only' if n % 2 == 0 else 'no_offset')
            else:
                units, style = spell(rng, period, f, off, rng.choice(['iso', 'space', 'short_offset']))
            ctx.count(f'reference time spelled:{style}')
            # whole seconds only: decoding to nanoseconds goes through float64, sub-second instants far from the epoch
            # are not exactly representable (an artefact of the input, not of emsarray)
            tvals = numpy.arange(nt, dtype='f8') * (rng.choice([1, 2, 30]) if period == 'seconds' else rng.choice([1, 2, 0.5, 0.25]))
            # CF calendar names are case insensitive; for dates after 1582 these all name the same calendar
            cal = ['proleptic_gregorian', 'standard', 'gregorian', 'GREGORIAN', 'Standard', 'Proleptic_Gregorian'][n % 6] if f[0] > 1600 else 'proleptic_gregorian'
            ctx.count(f'calendar spelled:{cal}')
            ds = ds.assign_coords({tname: xarray.DataArray(tvals, dims=['record'], attrs={
                'units': units, 'calendar': cal, 'standard_name': 'time', 'coordinate_type': 'time'})})
            # cell bounds of the time axis (CF 7.1): none, inheriting the coordinate's units, or carrying units of their own
            tb = rng.choice(['none', 'none', 'inherit', 'own_units'])
            if tb != 'none':
                step = float(tvals[1] - tvals[0]) if nt > 1 else 1.0
                battrs = {}
                bvals = numpy.stack([tvals, tvals + step], axis=-1)
                if tb == 'own_units':
                    # whole hours since another epoch: every bound is an exact instant
                    battrs = {'units': 'hours since 2001-03-04 00:00:00', 'calendar': 'proleptic_gregorian'}
                    bvals = numpy.stack([numpy.arange(nt, dtype='f8') * 6, numpy.arange(nt, dtype='f8') * 6 + 6], axis=-1)
                ds[f'{tname}_bnds'] = xarray.DataArray(bvals, dims=['record', 'tnv'], attrs=battrs)
                ds[tname].attrs['bounds'] = f'{tname}_bnds'
            kinds = d.spec['kinds']
            added = gen.add_data_vars(rng, ds, kinds, fixed_extra=[('record', nt)], names_prefix='w',
                                      dtypes=('f8', 'f8', 'i4', 'i4fill'))
            # on-disk fill values of the float variables: none, -999, or exactly 0; some are packed on disk as int16
            enc = {}
            fills = {}
            for name, kind, dims in added:
                if ds[name].dtype.kind == 'f':
                    fv = rng.choice([None, -999.0, 0.0])
                    enc[name] = {'_FillValue': fv}
                    if fv is not None and rng.random() < 0.5:
                        enc[name] = {'_FillValue': numpy.int16(fv), 'dtype': 'int16'}
                        ds[name] = ds[name] % 3000 + 1          # representable as int16, never equal to a fill value
                        fv = f'int16:{int(fv)}'
                    fills[name] = fv
                    if fv in (0.0, 'int16:0', 'int16:-999'):
                        # make sure some cells are missing: make sure some cells are missing and none holds a genuine 0
                        flat = ds[name].values.reshape(-1)
                        flat[rng.randrange(flat.size)] = numpy.nan
            for v in ds.variables:
                if v not in enc and '_FillValue' not in ds[v].attrs:
                    enc[v] = {'_FillValue': None}
            src = os.path.join(tmp, f'src_{n}.nc')
            with warnings.catch_warnings():
                warnings.simplefilter('ignore')
                ds.to_netcdf(src, encoding=enc)
                first = xarray.open_dataset(src)
                first.load()
            # one record picked out with isel(record=k): the time coordinate becomes a scalar coordinate (still the time
            # coordinate of the dataset, still to be written in the form EMS reads)
            scalar_time = n % 5 == 3
            if scalar_time:
                first = first.isel(record=rng.randrange(nt))
            case = {'dataset': d.spec['label'], 'time_units': units, 'offset_minutes': off, 'fill_values': fills,
                    'scalar_time': scalar_time}
            ctx.count(f'scalar_time_coordinate:{scalar_time}')
            ctx.case((d.spec['label'], units, str(fills)), True, sample=case if n < 2 else None)
            ctx.count(f'family:{d.family}')
            ctx.count(f'time_bounds:{tb}')
            case['time_bounds'] = tb
            ctx.count(f'save_offset:{"negative" if off < 0 else "nonneg"}{",fractional" if off % 60 else ""}')
            for fv in fills.values():
                ctx.count(f'float_fill:{fv}')
            # which variable is taken for the time coordinate (conventions that search for it; SHOC looks it up by name)
            from emsarray.conventions import Convention
            if type(first.ems).time_coordinate is Convention.time_coordinate:
                vnames = [str(v) for v in first.variables]
                lits = []
                for v in vnames:
                    a = first[v]
                    b = a.attrs.get('bounds')
                    lits.append('{| tv_name := %d; tv_datetime := %s; tv_since := %s; tv_bounds := %s |}' % (
                        vnames.index(v), 'true' if (a.dtype.type == numpy.datetime64 or (
                            a.dtype == object and a.size and type(a.values.flat[0]).__module__.startswith('cftime'))) else 'false',
                        'true' if 'since' in str(a.encoding.get('units', '')) else 'false',
                        f'Some {vnames.index(b)}' if b in vnames else ('Some 9999' if b is not None else 'None')))
                with warnings.catch_warnings():
                    warnings.simplefilter('ignore')
                    tc = attempt(lambda: str(first.ems.time_coordinate.name))
                tc_exprs.append('(show (time_coordinate [' + '; '.join(lits) + ']))')
                tc_plans.append((case, vnames, tc))
                ctx.count('time_coordinate_searched')
                if tc[0] == 'ok' and any(first[v].attrs.get('bounds') == tc[1] for v in vnames):
                    ctx.report('property', f'the time coordinate of the dataset is taken to be {tc[1]}, the bounds variable of '
                               f'another variable: that is what ems.to_netcdf rewrites as the time variable', case)
            dst = os.path.join(tmp, f'dst_{n}.nc')
            # how the time values get encoded on the second write
            variant = rng.choice(['as_read', 'as_read', 'int_time', 'override'])
            kwargs = {}
            exp_period, exp_f, exp_off = period, f, off
            if variant == 'int_time' and period == 'days' and nt > 1 and not scalar_time:
                # integer on-disk dtype with instants the stored unit cannot represent: xarray re-bases the units on
                # write, the rewritten attribute must follow what is in the file (only the instants are checked)
                first[tname].encoding['dtype'] = numpy.dtype('int32')
                exp_period = None
            elif variant == 'override':
                # a unit in which every instant stays exactly representable (quarters of the original unit, 15-minute offsets)
                exp_period = {'days': 'hours', 'hours': 'minutes', 'seconds': 'seconds'}[period]
                exp_f = (rng.randint(1950, 2050), rng.randint(1, 12), rng.randint(1, 28), rng.randint(0, 23), 0, 0)
                exp_off = rng.choice(offsets)
                # (an encoding passed by the caller REPLACES the variable's encoding inside xarray, so the caller also has to
                # repeat `_FillValue: None`; leaving it out makes xarray add a NaN fill value - outside the property)
                kwargs['encoding'] = {tname: {'units': spell(rng, exp_period, exp_f, exp_off, 'iso')[0], '_FillValue': None}}
            else:
                variant = 'as_read'
            ctx.count(f'time_encoding:{variant}')
            case['time_encoding'] = variant
            with warnings.catch_warnings():
                warnings.simplefilter('ignore')
                # what each variable declares about missing values before the save (model SaveFixes)
                fill_codes = {}

                def fcode(x):
                    x = float(numpy.asarray(x).reshape(-1)[0])
                    return -1 if x != x else fill_codes.setdefault(x, len(fill_codes) + 1)
                svars = []
                for vi, v in enumerate(first.variables):
                    va = first[v]
                    e = va.encoding.get('_FillValue', 'absent')
                    svars.append((vi, str(v), va.dtype.kind in 'fcMmO',
                                  'None' if isinstance(e, str) else ('(Some None)' if e is None else f'(Some (Some ({fcode(e)})))'),
                                  f'(Some ({fcode(va.attrs["_FillValue"])}))' if '_FillValue' in va.attrs else 'None'))
                enc_before = {str(v_): repr(sorted((str(k_), repr(x_)) for k_, x_ in first[v_].encoding.items())) for v_ in first.variables}
                r = attempt(lambda: first.ems.to_netcdf(dst, **kwargs))
            if r[0] != 'ok':
                ctx.report('property', f'ems.to_netcdf failed: {r[1]}', case)
                continue
            enc_after = {str(v_): repr(sorted((str(k_), repr(x_)) for k_, x_ in first[v_].encoding.items())) for v_ in first.variables}
            if enc_after != enc_before:
                ctx.report('property', f'saving changed the encoding of the caller\'s variables {[v_ for v_ in enc_before if enc_before[v_] != enc_after.get(v_)]}: '
                           f'the dataset is not left as it was', case)
                continue
            if not kwargs:
                rb0 = raw_attrs(dst)
                fix_exprs.append('(saved [' + '; '.join(
                    f'{{| s_name := {vi}; s_has_nan := {str(hn).lower()}; s_enc := {e}; s_attr := {a} |}}' for vi, _, hn, e, a in svars) + '])')
                fix_plans.append((dict(case), [(vi, None if '_FillValue' not in rb0.get(nm, {}) else Some(fcode(rb0[nm]['_FillValue'])))
                                               for vi, nm, _, _, _ in svars], [nm for _, nm, _, _, _ in svars]))
            with warnings.catch_warnings():
                warnings.simplefilter('ignore')
                second = xarray.open_dataset(dst)
                second.load()
            bad = None
            if type(second.ems) is not type(first.ems):
                bad = f'reopened as {type(second.ems).__name__}, was {type(first.ems).__name__}'
            if not bad and pm.impl_polygons(first.ems) != pm.impl_polygons(second.ems):
                bad = 'polygons differ after save / reopen'
            if not bad:
                for v in first.variables:
                    if v not in second.variables:
                        bad = f'variable {v} lost'
                        break
                    a, b = first[v].values, second[v].values
                    if a.dtype.kind == 'M':
                        same = (a == b).all()
                    else:
                        same = a.shape == b.shape and numpy.array_equal(a, b, equal_nan=(a.dtype.kind == 'f'))
                    if not same:
                        bad = (f'variable {v} changed by save / reopen: {numpy.asarray(a).reshape(-1)[:6].tolist()} -> '
                               f'{numpy.asarray(b).reshape(-1)[:6].tolist()}')
                        break
            ra, rb = raw_attrs(src), raw_attrs(dst)
            if not bad:
                for v, attrs in rb.items():
                    for k in ('_FillValue', 'missing_value'):
                        if k in attrs and k not in ra.get(v, {}):
                            bad = f'variable {v} gained a {k} attribute ({attrs[k]!r}) the source did not have'
                        elif k in ra.get(v, {}) and k in attrs and not numpy.array_equal(attrs[k], ra[v][k], equal_nan=True):
                            bad = f'variable {v}: {k} changed from {ra[v][k]!r} to {attrs[k]!r}'
            new_units = rb.get(tname, {}).get('units')
            if not bad and (new_units is None or not SHAPE.match(str(new_units))):
                bad = f'time units written as {new_units!r}: not the EMS form'
            # the same save through the function behind the method, naming the time variable explicitly: same file content
            if not bad and not kwargs and n % 2 == 0:
                from emsarray import utils as ems_utils
                dst2 = os.path.join(tmp, f'dst2_{n}.nc')
                with warnings.catch_warnings():
                    warnings.simplefilter('ignore')
                    r2 = attempt(lambda: ems_utils.to_netcdf_with_fixes(first, dst2, time_variable=tname))
                ctx.count('utils.to_netcdf_with_fixes')
                if r2[0] != 'ok':
                    bad = f'utils.to_netcdf_with_fixes(..., time_variable={tname!r}) failed: {r2[1]}'
                else:
                    rc = raw_attrs(dst2)
                    if rc.get(tname, {}).get('units') != new_units:
                        bad = (f'utils.to_netcdf_with_fixes writes time units {rc.get(tname, {}).get("units")!r}, the convention method '
                               f'{new_units!r}')
                    else:
                        with warnings.catch_warnings():
                            warnings.simplefilter('ignore')
                            third = xarray.open_dataset(dst2)
                            third.load()
                            third.close()
                        for v in second.variables:
                            if v not in third.variables or not numpy.array_equal(
                                    second[v].values, third[v].values, equal_nan=second[v].dtype.kind == 'f'):
                                bad = f'variable {v} differs between utils.to_netcdf_with_fixes and dataset.ems.to_netcdf'
                                break
            if bad:
                ctx.report('property', bad, case)
                continue
            if exp_period is not None:
                exprs.append(f'(render {to_coq(codes(exp_period))} {fields_literal(exp_f)} ({exp_off}))')
                plans.append((case, str(new_units)))
            first.close()
            second.close()
        # ---- a dataset saved before it has a time axis, given one in place, and saved again through the same accessor: the second
        # file carries the EMS form of the units
        for n2 in range(2):
            d2 = gen.any_dataset(rng, ['cf1d', 'ugrid'][n2], **({} if n2 == 0 else {'invalid': False}))
            g2 = d2.ds
            t2name = gen.TIME_NAMES.get(d2.family, 'time')
            p_a, p_b = os.path.join(tmp, f'late_time_a_{n2}.nc'), os.path.join(tmp, f'late_time_b_{n2}.nc')
            lcase = {'dataset': d2.spec['label'], 'history': 'saved without a time axis, time axis added in place, saved again'}
            ctx.case((d2.spec['label'], 'late time axis'), True)
            ctx.count('saved before and after a time axis was added')
            with warnings.catch_warnings():
                warnings.simplefilter('ignore')
                r_a = attempt(lambda: g2.ems.to_netcdf(p_a))
                tv2 = xarray.DataArray(numpy.array(['1990-01-01T00:00', '1990-01-01T06:00'], dtype='datetime64[ns]'), dims=['record'],
                                       attrs={'standard_name': 'time', 'coordinate_type': 'time'})
                tv2.encoding.update({'units': 'hours since 1990-01-01 00:00:00 +10:00', '_FillValue': None})
                g2.coords[t2name] = tv2
                fd2 = list(d2.spec['kinds']['face'])
                g2['late_field'] = xarray.DataArray(numpy.zeros([2] + [g2.sizes[x] for x in fd2]), dims=['record'] + fd2)
                r_b = attempt(lambda: g2.ems.to_netcdf(p_b))
            if r_a[0] != 'ok' or r_b[0] != 'ok':
                ctx.report('property', f'ems.to_netcdf failed: {r_a} / {r_b}', lcase)
                continue
            u2 = raw_attrs(p_b).get(t2name, {}).get('units')
            if u2 is None or not SHAPE.match(str(u2)):
                ctx.report('property', f'time units written as {u2!r}: not the EMS form', lcase)
        model = coq_eval_sharded(['Model.TimeUnits'], exprs, shard=20, workers=8)
        ctx.leg('save_reopen_cases', len(exprs))
        tmodel = coq_eval_sharded(['Model.TimeCoord'], tc_exprs, shard=20, workers=8)
        ctx.leg('time_coordinate_cases', len(tc_exprs))
        for (case, vnames, tc), mres in zip(tc_plans, tmodel):
            want = None if mres is None else vnames[mres.v]
            got = tc[1] if tc[0] == 'ok' else None
            if want != got:
                ctx.report('correspondence', f'model time_coordinate = {want}, implementation {tc}', case, found_input=False)
        in_memory_leg(ctx, tmp)
        fmodel = coq_eval_sharded(['Model.SaveFixes'], fix_exprs, shard=12, workers=6)
        ctx.leg('fill_value_fixups', len(fix_exprs))
        for (fcase, got, vnames), mres in zip(fix_plans, fmodel):
            want = [(int(a), b) for a, b in mres]
            if want != got:
                k = next(i for i, (a, b) in enumerate(zip(want, got)) if a != b)
                ctx.report('correspondence', f'variable {vnames[k]}: _FillValue in the saved file {got[k][1]}, model SaveFixes.saved '
                           f'{want[k][1]} (codes: -1 is NaN, others number the declared values)', fcase, found_input=False)
        for (case, new_units), mres in zip(plans, model):
            if codes(new_units) != mres:
                ctx.report('correspondence', f'units in the saved file {new_units!r}, model {"".join(map(chr, mres))!r}', case,
                           found_input=False)
        # ---------------- (D) time axes in calendars python's datetime cannot express (360_day, noleap ...): the units cannot be
        # rewritten for EMS; the save is refused, or the file it leaves has units of the EMS form - never a quiet success with
        # units EMS cannot read
        import re
        for k, cal in enumerate(['360_day', 'noleap', 'all_leap', 'julian'] if not quick else [['360_day', 'noleap'][ctx.seed % 2], 'julian']):
            g = gen.cf1d(rng, ny=2, nx=3).ds
            g = g.assign_coords(time=xarray.DataArray(numpy.arange(3, dtype='f8'), dims=['record'], attrs={
                'units': 'days since 1990-01-01', 'calendar': cal, 'standard_name': 'time'}))
            g['w'] = xarray.DataArray(numpy.zeros((3, 2, 3)), dims=['record'] + list(g.ems.grid_dimensions[g.ems.default_grid_kind]))
            src, dst = os.path.join(tmp, f'cal_{k}.nc'), os.path.join(tmp, f'cal_{k}_saved.nc')
            case = {'calendar': cal, 'units': 'days since 1990-01-01'}
            ctx.case(('calendar', cal), True)
            ctx.count(f'calendar outside datetime:{cal}')
            with warnings.catch_warnings():
                warnings.simplefilter('ignore')
                g.to_netcdf(src)
                opened = emsarray.open_dataset(src)
                r = attempt(lambda: opened.ems.to_netcdf(dst))
                opened.close()
            if r[0] != 'ok':
                continue
            with netCDF4.Dataset(dst) as nc:
                got_units = str(nc['time'].getncattr('units'))
            if not re.fullmatch(r'days since \d{4}-\d{2}-\d{2} \d{2}:\d{2}:\d{2} [+-]\d{2}:?\d{2}', got_units):
                ctx.report('property', f'a time axis in the {cal} calendar was saved without an error and the file holds the units '
                           f'{got_units!r}, which are not of the form EMS reads', case)
    finally:
        shutil.rmtree(tmp, ignore_errors=True)
