"""C13 - depth normalisation reorients coordinates and data together, idempotently."""
import itertools
import warnings

import numpy
import xarray

import emsarray  # noqa: F401
from emsarray.operations import depth as depth_ops
from coqio import Ctor, Some, coq_eval_sharded, to_coq
import gen
from hutil import attempt

ATTR = {'down': 'PDown', 'up': 'PUp', None: 'PNone'}


def attr_ctor(a):
    if a is None:
        return Ctor('PNone')
    return Ctor({'down': 'PDown', 'up': 'PUp'}.get(a, 'POther'))


def eighths(arr):
    out = []
    for x in numpy.asarray(arr, dtype='f8').reshape(-1):
        v = float(x) * 8
        assert v == int(v), x
        out.append(int(v))
    return out


def coord_literal(ds, name):
    da = ds[name]
    b = da.attrs.get('bounds')
    if b is not None and b in ds.variables:
        bv = numpy.asarray(ds[b].values, dtype='f8') * 8
        bl = '(Some ' + to_coq([(int(r[0]), int(r[1])) for r in bv]) + ')'
    else:
        bl = 'None'
    return f'{{| attr := {to_coq(attr_ctor(da.attrs.get("positive")))}; vals := {to_coq(eighths(da.values))}; bnds := {bl} |}}'


def observe(ds, names, dim, tagvar):
    """what the model's show_dim shows, read from a dataset"""
    coords = []
    for name in names:
        da = ds[name]
        b = da.attrs.get('bounds')
        if b is not None and b in ds.variables:
            bv = numpy.asarray(ds[b].values, dtype='f8') * 8
            bo = Some([(int(r[0]), int(r[1])) for r in bv])
        else:
            bo = None
        coords.append(((attr_ctor(da.attrs.get('positive')), eighths(da.values)), bo))
    rows = [int(x) for x in ds[tagvar].values]
    return Some((coords, rows))


def opt_bool(b):
    return 'None' if b is None else f'(Some {to_coq(b)})'


def phys_of(da):
    """physical (positive-down) depths the way the documentation defines them: by the attribute, else by the guess"""
    v = numpy.asarray(da.values, dtype='f8')
    if 'positive' in da.attrs:
        down = da.attrs['positive'] == 'down'
    else:
        down = (v > 0).sum() > len(v) / 2
    return v if down else -v


def run(ctx):
    rng = ctx.rng
    quick = ctx.tier == 'quick'
    ctx.rule = ('datasets of every convention with a depth dimension: physical column (>= 2 levels, strictly increasing) stored '
                'negated (positive up) and / or reversed (deep first), positive attribute present or absent (guessed), with / '
                'without bounds, dimension coordinate or not, optionally a second coordinate on the same dimension; data '
                'variables with the depth dimension in any position; each normalised with all 9 (positive_down, deep_to_shallow) '
                'pairs, twice; through operations.depth and through dataset.ems. non-trivial = the call changes the dataset; '
                'distinct by (coordinate literal, options)')
    n_ds = 30 if quick else 200
    exprs, plans = [], []
    for n in range(n_ds):
        d = gen.any_dataset(rng, rng.choice(['cf1d', 'cf2d', 'shoc_simple', 'shoc_standard', 'ugrid']))
        ds = d.ds
        # SHOC conventions find their depth coordinates by fixed names
        nm1, nm2 = gen.DEPTH_NAMES.get(d.family, (None, None))
        # every fourth dataset stores its depth as whole numbers in an integer type: int16, or uint16 (positive down only)
        idt = [None, None, 'i2', None, None, None, 'u2', None][n % 8]
        ikw = {} if idt is None else ({'int_dtype': idt, 'second': False} if idt == 'i2' else
                                      {'int_dtype': idt, 'second': False, 'up': False, 'positive': 'attr'})
        if idt is None and n % 5 == 3:
            # an unlabelled axis of heights about a datum inside the column: most values on one side of zero, their mean on the other
            ikw = {'positive': 'none', 'crossing': True, 'n': rng.randint(3, 5)}
            ctx.count('axis crossing zero, unlabelled')
        ds, sp = gen.add_depth(rng, ds, dim='k', name=nm1, second_name=nm2, **ikw)
        ctx.count(f'depth dtype:{idt or "float64"}')
        dim = sp['dim']
        # data: a level tag on the depth dimension only, and variables on the grid with the depth dimension anywhere
        ds['level_tag'] = xarray.DataArray(numpy.arange(sp['n'], dtype='i8'), dims=[dim])
        kinds = {'face': d.spec['kinds']['face']}
        gen.add_data_vars(rng, ds, kinds, fixed_extra=[(dim, sp['n'])] + ([('time', 2)] if rng.random() < 0.5 else []),
                          names_prefix='dv')
        names = [c['name'] for c in sp['coords']]
        # bounds variables held as xarray coordinates (set_coords, or a file listing them in a `coordinates` attribute)
        bvars = [ds[nm].attrs['bounds'] for nm in names if ds[nm].attrs.get('bounds') in ds.data_vars]
        as_coord = bool(bvars) and rng.random() < 0.5
        if as_coord:
            ds = ds.set_coords(bvars)
        ctx.count(f'bounds_as_xarray_coordinate:{as_coord}')
        # depth coordinates held as plain variables (no variable's `coordinates` attribute names them, or after reset_coords)
        plain = [nm for nm in names if nm != dim and nm in ds.coords]
        as_plain = bool(plain) and n % 3 == 1
        if as_plain:
            ds = ds.reset_coords(plain)
        ctx.count(f'depth_coordinate_held_as_plain_variable:{as_plain}')
        via_ems = rng.random() < 0.5
        if via_ems:
            ems_names = [c.name for c in ds.ems.depth_coordinates]
            if sorted(ems_names) != sorted(names):
                ctx.report('property', f'depth coordinates detected {ems_names}, dataset has {names}', {'label': d.spec['label']})
                continue
            names = ems_names            # the accessor passes them in dataset order
        lit = '{| coords := [' + '; '.join(coord_literal(ds, nm) for nm in names) + f']; rows := {to_coq(list(range(sp["n"])))} |}}'
        ctx.count(f'family:{d.family}')
        ctx.count(f'stored:up={sp["up"]},deep_first={sp["deep_first"]}')
        ctx.count(f'coords_on_dim:{len(names)}')
        ctx.count(f'positive_attr:{ds[names[0]].attrs.get("positive")}')
        ctx.count(f'bounds:{sp["coords"][0]["bounds"] is not None}')
        ctx.count(f'dimension_coordinate:{names[0] == dim}')
        for pd, dts in itertools.product([None, True, False], repeat=2):
            if idt == 'u2' and pd is False:
                ctx.count('unsigned depth asked to become negative: not representable, not exercised')
                continue
            exprs.append(f'(let d := {lit} in (show_dim (normalize {opt_bool(pd)} {opt_bool(dts)} d), '
                         f'show_dim (twice {opt_bool(pd)} {opt_bool(dts)} d)))')
            plans.append((d, ds, sp, names, pd, dts, via_ems, lit))
    model = coq_eval_sharded(['Model.Depth'], exprs, shard=30, workers=12)
    ctx.leg('coq_eval_cases', len(exprs))
    for (d, ds, sp, names, pd, dts, via_ems, lit), (m1, m2) in zip(plans, model):
        dim = sp['dim']
        case = {'dataset': d.spec['label'], 'depth': {k: sp[k] for k in ('n', 'up', 'deep_first', 'phys')},
                'coords': sp['coords'], 'order': names, 'positive_down': pd, 'deep_to_shallow': dts, 'via_accessor': via_ems}
        before = ds.copy(deep=True)
        # the calling program may have set xarray options (keep_attrs off or on, another arithmetic join): the result is the same
        opts = [{}, {'keep_attrs': False}, {'keep_attrs': True}, {'arithmetic_join': 'exact'}, {}][(len(lit) + 3 * (pd is False) + (dts is True)) % 5]
        ctx.count(f'xarray options:{opts or "defaults"}')
        case['xarray_options'] = opts
        # the options may arrive as numpy booleans (the result of comparing two depths) or as 0 / 1
        spell = [lambda b: b, lambda b: None if b is None else numpy.bool_(b), lambda b: None if b is None else int(b)][(len(lit) + 2 * (pd is True) + (dts is False)) % 3]
        pd_arg, dts_arg = spell(pd), spell(dts)
        ctx.count(f'options given as:{type(pd_arg).__name__ if pd is not None else type(dts_arg).__name__}')
        with warnings.catch_warnings(), xarray.set_options(**opts):
            warnings.simplefilter('ignore')
            if via_ems:
                r = attempt(lambda: ds.ems.normalize_depth_variables(positive_down=pd_arg, deep_to_shallow=dts_arg))
            else:
                # the coordinates are documented as an iterable: a list, a tuple, a generator, an iterator
                arg = [names, tuple(names), (nm for nm in names), iter(names), (ds[nm] for nm in names)][(len(lit) + (pd is True) + 2 * (dts is True)) % 5]
                ctx.count(f'depth coordinates given as:{type(arg).__name__}')
                r = attempt(lambda: depth_ops.normalize_depth_variables(ds, arg, positive_down=pd_arg, deep_to_shallow=dts_arg))
        if r[0] != 'ok':
            ctx.case((lit, pd, dts), False)
            ctx.report('property', f'normalize_depth_variables failed: {r[1]}', case)
            continue
        out = r[1]
        changed = not out.identical(before)
        ctx.case((lit, pd, dts), changed, sample=case if changed else None)
        bad = None
        # the input dataset is not modified
        if not ds.identical(before):
            bad = 'the input dataset was modified'
        if pd is None and dts is None and changed:
            bad = bad or 'options left unset but the dataset changed'
        for nm in names:
            cin, cout = before[nm], out[nm]
            if pd is not None and cout.attrs.get('positive') != ('down' if pd else 'up'):
                bad = bad or f'{nm}: positive attribute {cout.attrs.get("positive")!r} after positive_down={pd}'
            if pd is None and cout.attrs.get('positive') != cin.attrs.get('positive'):
                bad = bad or f'{nm}: positive attribute changed although positive_down was left unset'
            pin, pout = phys_of(cin), phys_of(cout)
            tags = [int(x) for x in out['level_tag'].values]
            if sorted(tags) != list(range(sp['n'])):
                bad = bad or 'levels lost or duplicated'
                break
            # every value is still attached to the same physical depth
            if not all(pout[i] == pin[t] for i, t in enumerate(tags)):
                bad = bad or (f'{nm}: physical depths {pout.tolist()} at levels {tags} but those levels were at '
                              f'{[float(pin[t]) for t in tags]}')
            b = cin.attrs.get('bounds')
            if b is not None and b in before.variables:
                down_in = bool((phys_of(cin) == numpy.asarray(cin.values)).all()) if numpy.any(cin.values != 0) else True
                down_out = bool((phys_of(cout) == numpy.asarray(cout.values)).all()) if numpy.any(cout.values != 0) else True
                bin_ = numpy.asarray(before[b].values) * (1 if down_in else -1)
                bout = numpy.asarray(out[b].values) * (1 if down_out else -1)
                if not all((bout[i] == bin_[t]).all() for i, t in enumerate(tags)):
                    bad = bad or f'{nm}: bounds not transformed with the coordinate'
            if dts is not None and nm == names[-1]:
                diffs = numpy.diff(pout)
                if not ((diffs < 0).all() if dts else (diffs > 0).all()):
                    bad = bad or f'{nm}: physical depths {pout.tolist()} not ordered deep_to_shallow={dts}'
        # data rows moved with the levels
        if not bad:
            tags = [int(x) for x in out['level_tag'].values]
            bnames = {before[nm].attrs.get('bounds') for nm in names}
            for vn, v in before.data_vars.items():
                if dim in v.dims and vn in out and vn not in bnames and vn not in names:
                    want = v.isel({dim: tags})
                    got = out[vn]
                    if got.dims != want.dims or not numpy.array_equal(got.values, want.values, equal_nan=True):
                        bad = f'data variable {vn} not reordered with the depth levels'
                        break
        # idempotence
        if not bad:
            with warnings.catch_warnings():
                warnings.simplefilter('ignore')
                if via_ems:
                    r2 = attempt(lambda: out.ems.normalize_depth_variables(positive_down=pd, deep_to_shallow=dts))
                else:
                    r2 = attempt(lambda: depth_ops.normalize_depth_variables(out, names, positive_down=pd, deep_to_shallow=dts))
            if r2[0] != 'ok':
                bad = f'second application failed: {r2[1]}'
            elif len(names) == 1 and not r2[1].identical(out):
                bad = 'normalising an already normalised dataset changed it'
        # history: the depth coordinates were looked at through the accessor, then the `positive` attribute was corrected in
        # place on the same dataset object, then the dataset is normalised through the accessor: the result is that of a
        # fresh dataset with the same content
        if not bad and via_ems and pd is not None and dts is not False and all('positive' in ds[nm].attrs for nm in names):
            h = ds.copy(deep=True)
            with warnings.catch_warnings():
                warnings.simplefilter('ignore')
                attempt(lambda: [c.name for c in h.ems.depth_coordinates])
                attempt(lambda: h.ems.depth_coordinate.name)
                for nm in names:
                    h[nm].attrs['positive'] = 'up' if h[nm].attrs['positive'] == 'down' else 'down'
                fresh = h.copy(deep=True)
                ra = attempt(lambda: h.ems.normalize_depth_variables(positive_down=pd, deep_to_shallow=dts))
                rf = attempt(lambda: depth_ops.normalize_depth_variables(fresh, names, positive_down=pd, deep_to_shallow=dts))
            ctx.count('history:accessor, attribute edited in place, accessor')
            if ra[0] != rf[0] or (ra[0] == 'ok' and not ra[1].identical(rf[1])):
                bad = ('after dataset.ems.depth_coordinates was used, an in-place correction of the positive attribute is not '
                       'honoured: the accessor returns ' + (str({nm: ra[1][nm].values.tolist() for nm in names}) if ra[0] == 'ok' else str(ra[1]))
                       + ', a fresh dataset with the same content gives '
                       + (str({nm: rf[1][nm].values.tolist() for nm in names}) if rf[0] == 'ok' else str(rf[1])))
        if bad:
            ctx.report('property', bad, case)
            continue
        o1 = observe(out, names, dim, 'level_tag')
        o2 = observe(r2[1], names, dim, 'level_tag')
        if o1 != m1 or o2 != m2:
            ctx.report('correspondence', f'model Depth.normalize and implementation differ: impl {o1} / {o2} model {m1} / {m2}',
                       case, found_input=False)
    # ---- a depth coordinate that varies along a second dimension (a depth per record and layer): the request cannot be met
    # for it layer by layer; either the call is refused or every depth coordinate comes back in the requested convention -
    # never some of them converted and others left as they were
    for trial in range(4 if quick else 16):
        d = gen.any_dataset(rng, rng.choice(['cf1d', 'cf2d', 'ugrid']))
        up = trial % 2 == 0
        ds, sp = gen.add_depth(rng, d.ds, dim='k', positive='attr', second=False, up=up, bounds=False)
        nm = sp['coords'][0]['name']
        base = numpy.asarray(ds[nm].values, dtype='f8')
        ds = ds.assign_coords(layer_depth=xarray.DataArray(numpy.stack([base, base * 1.5]), dims=['record', 'k'],
                                                           attrs={'positive': 'up' if up else 'down'}))
        want_down = up          # ask for the other convention
        case = {'label': d.spec['label'], 'depth coordinates': [nm, 'layer_depth (record, k)'], 'stored positive': 'up' if up else 'down',
                'positive_down': want_down}
        ctx.case((d.spec['label'], 'two-dimensional depth coordinate', up), True)
        ctx.count('two-dimensional depth coordinate')
        with warnings.catch_warnings():
            warnings.simplefilter('ignore')
            r = attempt(lambda: ds.ems.normalize_depth_variables(positive_down=want_down))
        if r[0] != 'ok':
            continue
        left = [str(c) for c in (nm, 'layer_depth')
                if str(r[1][c].attrs.get('positive', '')).lower() != ('down' if want_down else 'up')
                or not numpy.array_equal(numpy.asarray(r[1][c].values), -numpy.asarray(ds[c].values))]
        if left and len(left) < 2:
            ctx.report('property', f'normalising to positive {"down" if want_down else "up"} was accepted and converted only some of the '
                       f'depth coordinates: {left} still {"up" if up else "down"}', case)
    # ---- which variables the accessor takes for the depth coordinates it normalises ("all depth coordinates"): the same leg as
    # C12 runs (model DepthCoord, theorems in Props/C12.v) - c12 imports this module, hence the late import
    from props.c12 import depth_coordinate_leg
    depth_coordinate_leg(ctx)
