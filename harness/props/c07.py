"""C07 - clip masks select exactly the intersecting cells plus the requested buffer."""
import itertools
from concurrent.futures import ProcessPoolExecutor

import numpy
import shapely
from shapely.geometry import LineString, MultiPoint, MultiPolygon, Point, Polygon

import emsarray  # noqa: F401
from emsarray import masking
from emsarray.conventions.ugrid import buffer_faces, mask_from_face_indexes
from coqio import Some, coq_eval, coq_eval_sharded, to_coq
import gen
import polymodel as pm
from hutil import attempt
from props.c04 import polys_literal


def arr_of_bits(nj, ni, bits):
    a = numpy.zeros((nj, ni), dtype=bool)
    for n in range(nj * ni):
        if bits >> n & 1:
            a[n // ni, n % ni] = True
    return a


def bits_of_arr(a):
    flat = numpy.asarray(a, dtype=bool).reshape(-1)
    out = 0
    for n, v in enumerate(flat):
        if v:
            out |= 1 << n
    return out


def _blur_chunk(args):
    nj, ni, s, lo, hi = args
    return [bits_of_arr(masking.blur_mask(arr_of_bits(nj, ni, b), size=s)) for b in range(lo, hi)]


def _smear_chunk(args):
    nj, ni, pj, pi, lo, hi = args
    return [bits_of_arr(masking.smear_mask(arr_of_bits(nj, ni, b), [pj, pi])) for b in range(lo, hi)]


def dilate(a, s):
    a = numpy.asarray(a, dtype=bool)
    out = numpy.zeros_like(a)
    nj, ni = a.shape
    for j in range(nj):
        for i in range(ni):
            out[j, i] = a[max(0, j - s):j + s + 1, max(0, i - s):i + s + 1].any()
    return out


def geometries(rng, polys, n):
    """clip geometries built from the polygon coordinates: (tag, shapely geometry, model expression builder)"""
    rings = [p for p in polys if p is not None]
    xs = sorted({x for r in rings for x, y in r})
    ys = sorted({y for r in rings for x, y in r})
    out = []

    def box(x0, y0, x1, y1):
        return [(x0, y0), (x1, y0), (x1, y1), (x0, y1)]
    # always: shapes whose bounding box covers the whole model although they meet only part of it - a line from beyond one
    # corner to beyond the opposite corner, an L along two sides, two far-apart points
    x0_, x1_, y0_, y1_ = min(xs), max(xs), min(ys), max(ys)
    out.append(('diagonal', [('line', [(x0_ - 1, y0_ - 1), (x1_ + 1, y1_ + 1.5)])]))
    out.append(('ell', [('ring', [(x0_ - 1, y0_ - 1), (x1_ + 1, y0_ - 1), (x1_ + 1, y0_), (x0_, y0_), (x0_, y1_ + 1), (x0_ - 1, y1_ + 1)])]))
    out.append(('far_points', [('point', (x0_ - 1, y0_ - 1)), ('point', (x1_ + 1, y1_ + 1))]))
    # everything except one cell in the middle: four strips around that cell's bounding box (grown a little); on a mesh the
    # cell is dropped while every one of its nodes is kept by its neighbours
    cx, cy = (x0_ + x1_) / 2, (y0_ + y1_) / 2
    mid = min(rings, key=lambda r: (sum(x for x, y in r) / len(r) - cx) ** 2 + (sum(y for x, y in r) / len(r) - cy) ** 2)
    hx0, hx1 = min(x for x, y in mid) - 0.0625, max(x for x, y in mid) + 0.0625
    hy0, hy1 = min(y for x, y in mid) - 0.0625, max(y for x, y in mid) + 0.0625
    # regions with a hole (an interior ring): everything except the open inside of a box - a pinhole inside the middle cell,
    # and a hole a little larger than that cell (the cell lies in the hole, its neighbours are cut by the hole's ring)
    cover = box(x0_ - 1, y0_ - 1, x1_ + 1, y1_ + 1)
    mcx, mcy = sum(x for x, y in mid) / len(mid), sum(y for x, y in mid) / len(mid)
    import shapely as _sh
    rp = _sh.Polygon(mid).representative_point()
    out.append(('pinhole', [('holed', (cover, box(rp.x - 0.015625, rp.y - 0.015625, rp.x + 0.015625, rp.y + 0.015625)))]))
    out.append(('hole_around_one_cell', [('holed', (cover, box(hx0, hy0, hx1, hy1)))]))
    out.append(('around_one_cell', [('ring', box(x0_ - 1, y0_ - 1, hx0, y1_ + 1)), ('ring', box(hx1, y0_ - 1, x1_ + 1, y1_ + 1)),
                                    ('ring', box(hx0, y0_ - 1, hx1, hy0)), ('ring', box(hx0, hy1, hx1, y1_ + 1))]))
    # two cells that share no corner, each next to a third cell that lies between them: small boxes inside the two. On a mesh
    # both ends of some edges of the cell in between are kept although that cell is not
    vsets = [set(r) for r in rings]
    triple = None
    for b_, vb in enumerate(vsets):
        nb = [a_ for a_, va in enumerate(vsets) if a_ != b_ and len(va & vb) >= 2]
        for a_ in nb:
            for c_ in nb:
                if a_ < c_ and not (vsets[a_] & vsets[c_]):
                    triple = triple or (a_, c_)
    if triple:
        pa, pc = (_sh.Polygon(rings[k]).representative_point() for k in triple)
        h_ = 0.015625
        out.append(('two_cells_apart', [('ring', box(pa.x - h_, pa.y - h_, pa.x + h_, pa.y + h_)),
                                        ('ring', box(pc.x - h_, pc.y - h_, pc.x + h_, pc.y + h_))]))
    for _ in range(n):
        c = rng.choice(['box', 'box', 'cover', 'touch', 'triangle', 'line', 'point', 'multi', 'border', 'miss'])
        if c == 'box' and len(xs) > 1 and len(ys) > 1:
            x0, x1 = sorted(rng.sample(xs, 2))
            y0, y1 = sorted(rng.sample(ys, 2))
            out.append((c, [('ring', box(x0 + rng.choice([0, 0.125]), y0, x1, y1 - rng.choice([0, 0.125])))]))
        elif c == 'cover':
            out.append((c, [('ring', box(min(xs) - 1, min(ys) - 1, max(xs) + 1, max(ys) + 1))]))
        elif c == 'touch':
            # a box outside a cell that only touches one of its vertices or edges
            r = rng.choice(rings)
            v = r[rng.randrange(len(r))]
            out.append((c, [('ring', box(v[0], v[1], v[0] + 0.0625, v[1] + 0.0625))]))
        elif c == 'triangle' and len(xs) > 1:
            r = rng.choice(rings)
            r2 = rng.choice(rings)
            a, b, cc = r[0], r2[len(r2) // 2], (r[1][0] + 0.125, r[1][1] + 0.25)
            tri = [a, b, cc]
            if Polygon(tri).is_valid and Polygon(tri).area > 0:
                out.append((c, [('ring', tri)]))
        elif c == 'line':
            r = rng.choice(rings)
            r2 = rng.choice(rings)
            a, b = r[0], ((r2[0][0] + r2[2 % len(r2)][0]) / 2, (r2[0][1] + r2[2 % len(r2)][1]) / 2)
            if a != b:
                out.append((c, [('line', [a, b])]))
        elif c == 'point':
            r = rng.choice(rings)
            out.append((c, [('point', r[rng.randrange(len(r))])]))
        elif c == 'multi' and len(xs) > 1:
            r, r2 = rng.choice(rings), rng.choice(rings)
            out.append((c, [('point', r[0]), ('point', ((r2[0][0] + r2[1][0]) / 2, (r2[0][1] + r2[1][1]) / 2))]))
        elif c == 'border':
            out.append((c, [('ring', box(min(xs) - 1, min(ys) - 1, min(xs), max(ys) + 1))]))
        elif c == 'miss':
            out.append((c, [('ring', box(max(xs) + 2, max(ys) + 2, max(xs) + 3, max(ys) + 3))]))
    return out


def to_shapely(parts):
    gs = []
    for kind, coords in parts:
        if kind == 'holed':
            gs.append(Polygon(coords[0], [coords[1]]))
        elif kind == 'ring':
            gs.append(Polygon(coords))
        elif kind == 'line':
            gs.append(LineString(coords))
        else:
            gs.append(Point(coords))
    if len(gs) == 1:
        return gs[0]
    if all(isinstance(g, Point) for g in gs):
        return MultiPoint(gs)
    return shapely.GeometryCollection(gs)


def hits_expr(parts, n):
    terms = []
    for kind, coords in parts:
        if kind == 'holed':
            terms.append(f'hits_holed ps {pm.ring_literal(coords[0])} {pm.ring_literal(coords[1])}')
        elif kind == 'ring':
            terms.append(f'hits_ring ps {pm.ring_literal(coords)}')
        elif kind == 'line':
            terms.append(f'hits_line ps {pm.ring_literal(coords)}')
        else:
            terms.append(f'hits_point ps ({pm.coq_q(coords[0])}, {pm.coq_q(coords[1])})')
    return f'(sort_unique {n} (' + ' ++ '.join(terms) + '))'


def opt_list(a):
    """numpy float array with NaN -> list of Some(int) / None"""
    return [None if x != x else Some(int(x)) for x in numpy.asarray(a, dtype='f8')]


def rows_compressed(ma):
    return [[int(x) for x in row.compressed()] for row in numpy.ma.asarray(ma)]


def run(ctx):
    rng = ctx.rng
    quick = ctx.tier == 'quick'
    ctx.rule = ('(A) exhaustive: every boolean array of the listed shapes x blur sizes 1..3 and every smear pad_axes, '
                'implementation vs model, all arrays enumerated as bit patterns; (B) make_clip_mask on generated datasets of '
                'every convention x clip geometries (boxes, covering, touching at a vertex, triangles, lines, points, '
                'multi-part, hugging the border, missing) x buffer 0..3, plus nested geometry/buffer pairs for monotonicity; '
                '(C) buffer_faces / mask_from_face_indexes on face subsets of generated meshes. non-trivial = the mask is '
                'neither empty nor full; distinct by the case description')
    shapes = [(1, 1), (1, 4), (4, 1), (2, 2), (2, 3), (3, 3), (2, 5)] if quick else \
             [(1, 1), (1, 5), (5, 1), (2, 2), (2, 3), (3, 3), (3, 4), (4, 4)]
    sizes = [1, 2, 3]
    # ---------------- (A) exhaustive primitives
    exprs, plans = [], []
    for (nj, ni) in shapes:
        total = 1 << (nj * ni)
        chunk = 4096
        for lo in range(0, total, chunk):
            hi = min(total, lo + chunk)
            for s in sizes:
                exprs.append(f'(map (blur_bits {nj} {ni} {s}) (zrange {lo} {hi - lo}))')
                plans.append(('blur', nj, ni, s, lo, hi))
            for pj, pi in itertools.product([False, True], repeat=2):
                exprs.append(f'(map (smear_bits {nj} {ni} {to_coq(pj)} {to_coq(pi)}) (zrange {lo} {hi - lo}))')
                plans.append(('smear', nj, ni, (pj, pi), lo, hi))
    model = coq_eval_sharded(['Base.Index', 'Model.Mask'], exprs, shard=max(1, len(exprs) // 16), workers=16)
    ctx.leg('exhaustive_primitive_tables', len(exprs))
    with ProcessPoolExecutor(max_workers=16) as ex:
        jobs = []
        for p in plans:
            if p[0] == 'blur':
                jobs.append(ex.submit(_blur_chunk, (p[1], p[2], p[3], p[4], p[5])))
            else:
                jobs.append(ex.submit(_smear_chunk, (p[1], p[2], p[3][0], p[3][1], p[4], p[5])))
        impl = [j.result() for j in jobs]
    for p, mres, ires in zip(plans, model, impl):
        kind, nj, ni, param, lo, hi = p
        full = (1 << (nj * ni)) - 1
        for b, mv, iv in zip(range(lo, hi), mres, ires):
            ctx.evaluations += 1
            if b not in (0, full):
                ctx.nontrivial.add((kind, nj, ni, str(param), b))
            if mv != iv:
                arr = arr_of_bits(nj, ni, b)
                if kind == 'blur':
                    want = bits_of_arr(dilate(arr, param))
                    what = (f'blur_mask(size={param}) of {arr.astype(int).tolist()} gives bits {iv}, cells within '
                            f'{param} steps of a marked cell are bits {want}')
                    ctx.report('property' if iv != want else 'correspondence', what,
                               {'op': 'blur_mask', 'array': arr.astype(int).tolist(), 'size': param},
                               impl=iv, model=mv, found_input=(iv != want))
                else:
                    ctx.report('property', f'smear_mask({list(param)}) of {arr.astype(int).tolist()} gives bits {iv}, '
                               f'model {mv}', {'op': 'smear_mask', 'array': arr.astype(int).tolist(), 'pad_axes': list(param)},
                               impl=iv, model=mv)
                break
        ctx.count(f'exhaustive:{kind}:{nj}x{ni}', hi - lo)
    ctx.exhaustive = True
    ctx.samples.append({'op': 'blur_mask', 'array': arr_of_bits(2, 3, 0b100001).astype(int).tolist(), 'size': 1})
    # the caller's mask is left as it was, and what comes back is a new array (blurring it again, or with another size, starts
    # from the mask, not from the last answer)
    for nj_, ni_, bits_ in [(3, 4, 0b000001000000), (4, 4, 0b1000000000000001), (1, 5, 0b00100)]:
        a0 = arr_of_bits(nj_, ni_, bits_)
        keep = a0.copy()
        r1 = masking.blur_mask(a0, size=1)
        r1_copy = r1.copy()
        r2 = masking.blur_mask(a0, size=1)
        ctx.case(('blur_mask input', nj_, ni_, bits_), True)
        ctx.count('blur_mask:argument unchanged / result independent')
        if not numpy.array_equal(a0, keep):
            ctx.report('property', f'blur_mask changed the mask it was given: {keep.astype(int).tolist()} became {a0.astype(int).tolist()}',
                       {'op': 'blur_mask', 'array': keep.astype(int).tolist(), 'size': 1})
        elif numpy.shares_memory(r1, a0) or not numpy.array_equal(r2, r1_copy):
            ctx.report('property', 'blur_mask returns its own argument / answers differently the second time',
                       {'op': 'blur_mask', 'array': keep.astype(int).tolist(), 'size': 1})

    # ---------------- (B) make_clip_mask on grids, (C) meshes
    n_ds = 20 if quick else 160
    exprs, plans = [], []
    for n in range(n_ds):
        fams = ['cf1d', 'cf2d', 'shoc_simple', 'shoc_standard', 'ugrid', 'ugrid', 'ugrid']
        fam = fams[n] if n < len(fams) else rng.choice(fams)          # every convention in every run
        kw = {}
        if fam == 'ugrid' and n % 3 == 0:
            kw = dict(w=rng.randint(3, 5), h=rng.randint(3, 4))       # enough faces for the tree order to matter
        if fam == 'ugrid' and n == 6:
            # a one-based mesh of mixed faces whose unused entries are written as 0 (in memory: the raw 0 stays under the mask)
            kw = dict(w=3, h=3, start_index=1, fill='attr0', transposed=False)
        if fam == 'ugrid' and n == 5:
            # the edges are known only through an edge_face table: no edge_dimension attribute, no edge_node table
            kw = dict(w=3, h=2, supplied={'edge_face'}, edge_dim_declared=False, transposed=False)
        if fam == 'ugrid' and n == 4:
            # one-based face_node; the edge tables zero-based without a start_index attribute (each variable has its own base)
            kw = dict(w=3, h=3, start_index=1, supplied={'edge_node', 'face_edge'}, bare_zero_based=('edge_node', 'face_edge'),
                      edge_dim_declared=True)
        d = gen.any_dataset(rng, fam, **kw)
        if n % 2 == 1:
            # the same dataset with its 2-D arrays held column-major in memory (after .T / transpose() / loadmat)
            d.ds = gen.fortran_layout(d.ds)
            ctx.count('memory_layout:column-major')
        ems = d.ds.ems
        polys = pm.impl_polygons(ems)
        if not any(p is not None for p in polys):
            continue
        lit = polys_literal(polys)
        ctx.count(f'family:{d.family}')
        geoms = geometries(rng, polys, 5 if quick else 8)
        if d.family != 'ugrid':
            ny, nx = pm.face_shape(d)
            for tag, parts in geoms:
                for b in ([rng.choice([0, 1]), rng.choice([2, 3])] if quick else [0, 1, 2, 3]):
                    h = hits_expr(parts, len(polys))
                    if d.family == 'shoc_standard':
                        e = (f'(let ps := {lit} in let k := grid_clip_mask {ny} {nx} {h} {b} in '
                             f'(to_bits k, to_bits (left_mask k), to_bits (back_mask k), to_bits (node_mask k)))')
                    else:
                        e = f'(let ps := {lit} in clip_bits {ny} {nx} {h} {b})'
                    exprs.append(e)
                    plans.append(('grid', d, ems, polys, tag, parts, b))
        else:
            topo = ems.topology
            fn = rows_compressed(topo.face_node_array)
            has_edges = bool(d.spec['has_edge_dim'])
            if bool(topo.has_edge_dimension) != has_edges:
                # (edges named by an edge_dimension attribute or implied by either edge table are part of the mesh)
                ctx.report('property', f'the mesh {"has" if has_edges else "has no"} edge dimension (declared or implied by its edge tables) '
                           f'but the convention says has_edge_dimension={topo.has_edge_dimension}: the edges of marked faces '
                           f'cannot be marked', {'dataset': d.spec['label']})
                continue
            fe = rows_compressed(topo.face_edge_array) if has_edges else None
            fe_lit = f'(Some {to_coq(fe)})' if has_edges else 'None'
            nn = topo.node_count
            ne = topo.edge_count if has_edges else 0
            for tag, parts in geoms:
                for b in ([rng.choice([0, 1]), rng.choice([0, 2])] if quick else [0, 1, 2, 3]):
                    h = hits_expr(parts, len(polys))
                    exprs.append(f'(let ps := {lit} in ugrid_clip_mask {to_coq(fn)} {fe_lit} {nn} {ne} {h} {b}%nat)')
                    plans.append(('umask', d, ems, polys, tag, parts, b))
            # primitives on face subsets
            nf = len(fn)
            subsets = []
            if nf <= 6 and not quick:
                for r in range(nf + 1):
                    subsets += [list(c) for c in itertools.combinations(range(nf), r)]
            else:
                for _ in range(6 if quick else 40):
                    subsets.append(sorted(rng.sample(range(nf), rng.randint(0, nf))))
            for sel in subsets:
                exprs.append(f'(buffer_faces {to_coq(fn)} {to_coq(sel)}, mask_tables {to_coq(fn)} {fe_lit} {nn} {ne} {to_coq(sel)})')
                plans.append(('uprim', d, ems, polys, 'subset', sel, None))
    model = coq_eval_sharded(['Base.Index', 'Model.Mask', 'Model.UMask', 'Model.Lookup'], exprs, shard=12, workers=12)
    ctx.leg('clip_mask_cases', len(exprs))
    prev = {}
    for plan, mres in zip(plans, model):
        kind, d, ems, polys, tag, parts, b = plan
        label = d.spec['label']
        shp = [None if p is None else Polygon(p) for p in polys]
        if kind in ('grid', 'umask'):
            g = to_shapely(parts)
            case = {'dataset': label, 'geometry': tag, 'parts': parts, 'buffer': b}
            brute = [n for n, p in enumerate(shp) if p is not None and p.intersects(g)]
            ctx.count(f'geometry:{tag}')
            if not brute:
                # a geometry that meets no cell: refused (malformed stream)
                ctx.case((label, tag, str(parts), b), False)
                r = attempt(ems.make_clip_mask, g, b)
                if kind == 'grid' and r[0] == 'ok':
                    key = 'face_mask' if d.family == 'shoc_standard' else 'cell_mask'
                    if bool(r[1][key].values.any()):
                        ctx.report('property', 'cells marked although no cell meets the geometry', case)
                continue
        if kind == 'grid':
            ny, nx = pm.face_shape(d)
            r = attempt(ems.make_clip_mask, g, b)
            if r[0] != 'ok':
                ctx.report('property', f'make_clip_mask failed: {r[1]}', case)
                continue
            mk = r[1]
            key = 'face_mask' if d.family == 'shoc_standard' else 'cell_mask'
            face = numpy.asarray(mk[key].values, dtype=bool)
            base = numpy.zeros((ny, nx), dtype=bool)
            base.reshape(-1)[brute] = True
            want = dilate(base, b) if b > 0 else base
            ctx.case((label, tag, str(parts), b), bool(want.any() and not want.all()),
                     sample=dict(case, marked_cells=int(want.sum())) if want.any() and not want.all() else None)
            bad = None
            if face.shape != want.shape or not (face == want).all():
                bad = (f'cell mask {face.astype(int).tolist()} but the cells meeting the geometry (touching counts) grown by '
                       f'{b} rings are {want.astype(int).tolist()}')
            impl_bits = bits_of_arr(face)
            if d.family == 'shoc_standard':
                left = numpy.asarray(mk['left_mask'].values, dtype=bool)
                back = numpy.asarray(mk['back_mask'].values, dtype=bool)
                node = numpy.asarray(mk['node_mask'].values, dtype=bool)
                wl = numpy.zeros((ny, nx + 1), dtype=bool)
                wl[:, :-1] |= face
                wl[:, 1:] |= face
                wb = numpy.zeros((ny + 1, nx), dtype=bool)
                wb[:-1, :] |= face
                wb[1:, :] |= face
                wn = numpy.zeros((ny + 1, nx + 1), dtype=bool)
                wn[:-1, :-1] |= face
                wn[:-1, 1:] |= face
                wn[1:, :-1] |= face
                wn[1:, 1:] |= face
                if not bad:
                    for nm, got, w in [('left', left, wl), ('back', back, wb), ('node', node, wn)]:
                        if got.shape != w.shape or not (got == w).all():
                            bad = f'{nm} mask does not mark exactly the {nm}s of the marked faces'
                            break
                impl_obs = (((impl_bits, bits_of_arr(left)), bits_of_arr(back)), bits_of_arr(node))
            else:
                impl_obs = impl_bits
            # monotone in the buffer for the same geometry
            pk = (label, str(parts))
            if pk in prev and not bad:
                pb, pface = prev[pk]
                lo, hi = (pface, face) if pb <= b else (face, pface)
                if (lo & ~hi).any():
                    bad = f'enlarging the buffer from {min(pb, b)} to {max(pb, b)} unmarked a cell'
            prev[pk] = (b, face)
            if bad:
                ctx.report('property', bad, case)
            elif impl_obs != mres:
                ctx.report('correspondence', f'model Mask and implementation differ: impl {impl_obs} model {mres}', case,
                           found_input=False)
        elif kind == 'umask':
            r = attempt(ems.make_clip_mask, g, b)
            if r[0] != 'ok':
                ctx.report('property', f'make_clip_mask failed: {r[1]}', case)
                continue
            mk = r[1]
            (m_face, m_edge), m_node = mres
            topo = ems.topology
            fn = rows_compressed(topo.face_node_array)
            # independent expectation: rings of node-sharing faces
            kept = set(brute)
            for _ in range(b):
                nodes = {x for f in kept for x in fn[f]}
                kept = {f for f, row in enumerate(fn) if f in kept or nodes & set(row)}
            kept = sorted(kept)
            ctx.case((label, tag, str(parts), b), 0 < len(kept) < len(fn),
                     sample=dict(case, kept_faces=kept) if 0 < len(kept) < len(fn) else None)
            i_face = opt_list(mk['new_face_index'].values)
            i_node = opt_list(mk['new_node_index'].values)
            i_edge = Some(opt_list(mk['new_edge_index'].values)) if 'new_edge_index' in mk else None
            want_face = [Some(kept.index(f)) if f in kept else None for f in range(len(fn))]
            keptn = sorted({x for f in kept for x in fn[f]})
            want_node = [Some(keptn.index(x)) if x in keptn else None for x in range(topo.node_count)]
            bad = None
            if i_face != want_face:
                bad = (f'faces kept/renumbered {[None if x is None else x.v for x in i_face]}, expected the faces meeting the '
                       f'geometry grown by {b} node-sharing rings, numbered in original order: '
                       f'{[None if x is None else x.v for x in want_face]}')
            elif i_node != want_node:
                bad = 'nodes kept/renumbered are not exactly the nodes of the kept faces in original order'
            elif topo.has_edge_dimension:
                fe = rows_compressed(topo.face_edge_array)
                kepte = sorted({x for f in kept for x in fe[f]})
                want_edge = Some([Some(kepte.index(x)) if x in kepte else None for x in range(topo.edge_count)])
                if i_edge != want_edge:
                    bad = 'edges kept/renumbered are not exactly the edges of the kept faces in original order'
            if bad:
                ctx.report('property', bad, case)
            elif (i_face, i_edge, i_node) != (m_face, m_edge, m_node):
                ctx.report('correspondence', 'model UMask and implementation differ', case, found_input=False,
                           impl=str((i_face, i_edge, i_node)), model=str(mres))
        else:
            sel = parts
            case = {'dataset': label, 'op': 'buffer_faces/mask_from_face_indexes', 'faces': sel}
            topo = ems.topology
            ctx.case((label, 'subset', str(sel)), 0 < len(sel) < topo.face_count)
            m_buf, ((m_face, m_edge), m_node) = mres
            r = attempt(lambda: [int(x) for x in buffer_faces(numpy.array(sel, dtype=int), topo)])
            fn = rows_compressed(topo.face_node_array)
            nodes = {x for f in sel for x in fn[f]}
            want = [f for f, row in enumerate(fn) if f in sel or nodes & set(row)]
            if r[0] != 'ok' or r[1] != want:
                ctx.report('property', f'buffer_faces({sel}) = {r[1]}, faces sharing a node are {want}', case)
                continue
            if r[1] != m_buf:
                ctx.report('correspondence', f'buffer_faces: impl {r[1]} model {m_buf}', case, found_input=False)
            if sel:
                mk = attempt(mask_from_face_indexes, numpy.array(sel, dtype=int), topo)
                if mk[0] != 'ok':
                    ctx.report('property', f'mask_from_face_indexes failed: {mk[1]}', case)
                    continue
                i_face = opt_list(mk[1]['new_face_index'].values)
                i_node = opt_list(mk[1]['new_node_index'].values)
                i_edge = Some(opt_list(mk[1]['new_edge_index'].values)) if 'new_edge_index' in mk[1] else None
                if (i_face, i_edge, i_node) != (m_face, m_edge, m_node):
                    keptn = sorted({x for f in sel for x in fn[f]})
                    want_node = [Some(keptn.index(x)) if x in keptn else None for x in range(topo.node_count)]
                    ctx.report('property' if i_node != want_node else 'correspondence',
                               'mask_from_face_indexes tables differ from the model', case,
                               impl=str((i_face, i_edge, i_node)), model=str(mres), found_input=(i_node != want_node))
