"""C10 - mesh topology is independent of encoding and internally consistent."""
import itertools
import warnings

import numpy
import xarray

import emsarray  # noqa: F401
from coqio import Ctor, Some, coq_eval_sharded, to_coq
import gen
from hutil import attempt

OPTIONAL = ['edge_node', 'face_edge', 'edge_face', 'face_face']
VARNAME = {'face_node': 'Mesh2_face_nodes', 'edge_node': 'Mesh2_edge_nodes', 'face_edge': 'Mesh2_face_edges',
           'edge_face': 'Mesh2_edge_faces', 'face_face': 'Mesh2_face_links'}


def rows_opt(ma):
    """masked integer array -> rows of Some(int)/None"""
    ma = numpy.ma.asarray(ma)
    mask = numpy.ma.getmaskarray(ma)
    data = numpy.ma.getdata(ma)
    return [[None if mask[r, c] else Some(int(data[r, c])) for c in range(ma.shape[1])] for r in range(ma.shape[0])]


def compressed(rows):
    return [[x.v for x in row if x is not None] for row in rows]


def raw_cells(da):
    """stored values of a connectivity variable exactly as the file holds them"""
    vals = numpy.asarray(da.values)
    out = []
    for row in vals:
        r = []
        for x in row:
            if isinstance(x, (float, numpy.floating)):
                r.append(Ctor('CNaN') if x != x else Ctor('CNum', int(x)))
            else:
                r.append(Ctor('CNum', int(x)))
        out.append(r)
    return out


def encoding_literal(da, start_index, transposed):
    is_float = numpy.issubdtype(da.dtype, numpy.floating)
    fa = da.attrs.get('_FillValue') if not is_float else None
    fa = 'None' if fa is None else f'(Some {to_coq(int(fa))})'
    return (f'{{| start_index := {start_index}; is_float := {to_coq(bool(is_float))}; fill_attr := {fa}; '
            f'transposed := {to_coq(bool(transposed))} |}}')


# ---- the relation of the property, evaluated directly on the implementation's tables (python, independent
# ---- of the Coq checker; used as the failing-input search and as a cross-check of the checker)
def pairs_of(face):
    return [frozenset((a, b)) for a, b in zip(face, face[1:] + face[:1])]


def spec_violations(fn, en, fe, ef, ff):
    bad = []
    en_sets = [frozenset(r) for r in en]
    if any(len(r) != 2 for r in en):
        bad.append('an edge_node row does not hold two nodes')
    if len(set(en_sets)) != len(en_sets):
        bad.append('edge_node lists the same node pair twice')
    sides = {p for f in fn for p in pairs_of(f)}
    if set(en_sets) != sides:
        bad.append('edge_node pairs are not exactly the consecutive node pairs of the faces')
    if len(fe) != len(fn):
        bad.append('face_edge row count')
    for f, (nodes, es) in enumerate(zip(fn, fe)):
        ps = pairs_of(nodes)
        if len(es) != len(ps) or any(not (0 <= e < len(en_sets)) or en_sets[e] != p for e, p in zip(es, ps)):
            bad.append(f"face {f}: its edges {es} are not the edges on its consecutive node pairs "
                       f"{[sorted(p) for p in ps]} (edge_node rows {[sorted(en_sets[e]) if 0 <= e < len(en_sets) else None for e in es]})")
            break
    if len(ef) != len(en):
        bad.append('edge_face row count')
    for e, faces in enumerate(ef):
        want = [f for f, es in enumerate(fe) if e in es]
        if sorted(faces) != want:
            bad.append(f'edge {e} lists faces {faces} but the faces containing it are {want}')
            break
    if len(ff) != len(fn):
        bad.append('face_face row count')
    for f, nb in enumerate(ff):
        want = sorted(g for g, es in enumerate(fe) if g != f and set(es) & set(fe[f]))
        if sorted(set(nb)) != want:       # two faces sharing two edges are listed once per shared edge
            bad.append(f'face {f} lists neighbours {nb} but the faces sharing an edge with it are {want}')
            break
    for f, nb in enumerate(ff):
        for g in nb:
            if not (0 <= g < len(ff)) or f not in ff[g]:
                bad.append(f'face adjacency not symmetric: {g} in row {f} but not the reverse')
                return bad
    return bad


def run(ctx):
    rng = ctx.rng
    quick = ctx.tier == 'quick'
    ctx.rule = ('generated planar meshes (triangles..octagons, concave, any winding) written under every encoding '
                '{0,1}-based x {NaN float, _FillValue attribute, no fill when uniform} x {normal, transposed} x subsets of the '
                'four optional tables supplied (all 16 in thorough, sampled in quick) x edge dimension declared / implied x '
                'coordinates as variables / xarray coords. one case = (mesh, encoding, supplied subset); non-trivial = the mesh '
                'has >= 2 faces and an interior edge; distinct by the case description')
    n_mesh = 6 if quick else 40
    exprs, plans = [], []
    fill_exprs, fill_plans = [], []
    edge_exprs, edge_plans = [], []
    for mi in range(n_mesh):
        nodes, faces = gen.lattice_mesh(rng, w=rng.randint(1, 3), h=rng.randint(1, 3)) if mi else \
            gen.lattice_mesh(rng, w=2, h=2, variety=False, drop=False)
        if mi == 1:
            # node numbers beyond 16 bits: a large node table of which this patch uses the two ends (the numbers 0, 1, 2 and
            # 65536 + ...), so that pairs such as (0, 65539) and (1, 65539) occur
            big = [(0, 0)] * 65542
            for k, xy in {0: (0, 0), 1: (8, 0), 2: (16, 0), 65539: (4, 8), 65540: (12, 8), 65541: (20, 8)}.items():
                big[k] = xy
            nodes, faces = big, [[0, 1, 65539], [1, 65540, 65539], [1, 2, 65540], [2, 65541, 65540]]
        encs = list(itertools.product([0, 1], ['nan', 'attr'], [False, True])) + [(1, 'attr0', False), (1, 'attr0', True)]
        subsets = [set(c) for r in range(5) for c in itertools.combinations(OPTIONAL, r)]
        if quick:
            combos = [(e, rng.choice(subsets)) for e in encs] + [(rng.choice(encs), s) for s in rng.sample(subsets, 6)]
            # every run: a mesh that supplies its face-edge table and nothing else about edges (the numbering of the edges is then
            # the one that table uses), padded with NaN and with a fill attribute
            # (given as frozensets: these two also name an edge dimension that nothing in the file is stored on)
            combos += [((0, 'nan', False), frozenset({'face_edge'})), ((1, 'attr', False), frozenset({'face_edge'}))]
        else:
            combos = [(e, rng.choice(subsets)) for e in encs] + [(rng.choice(encs), s) for s in subsets]
        ref_fn = None
        for (si, fill, tr), sup in combos:
            # one-based meshes: sometimes the optional tables are zero-based and carry no start_index attribute of their own
            bare = tuple(sorted(sup)) if (si == 1 and sup and rng.random() < 0.35) else ()
            d = gen.ugrid(rng, mesh=(nodes, faces), start_index=si, fill=fill, transposed=tr, supplied=sup, invalid=False,
                          bare_zero_based=bare, extra_width=rng.choice([0, 0, 0, 2]),
                          **({'phantom_edge_dim': True, 'edge_dim_declared': True} if isinstance(sup, frozenset) else {}))
            ctx.count(f'optional tables zero-based without start_index:{bool(bare)}')
            # a dataset with exactly two time records whose data come before the mesh variables: another dimension of length 2
            # precedes 'Two'
            if rng.random() < 0.4:
                d.ds = gen.prepend_var(d.ds, 'aaa_series', xarray.DataArray(numpy.zeros((2, 2)), dims=['time', 'pair']))
                ctx.count('another dimension of length two comes first')
            s = d.spec
            label = s['label']
            ems = d.ds.ems
            topo = ems.topology
            case = {'mesh_faces': faces, 'n_nodes': len(nodes), 'label': label, 'supplied': sorted(sup)}
            interior = any(len(r) == 2 for r in s['edge_face'])
            ctx.case((str(faces), si, fill, tr, tuple(sorted(sup)), s['edge_dim_declared'], s['coords_as_coords']),
                     len(faces) >= 2 and interior, sample=case if len(ctx.samples) < 3 else None)
            ctx.count(f'enc:si={si},fill={fill},T={tr}')
            ctx.count(f'supplied:{len(sup)}')
            ctx.count(f'edge_dim:{"declared" if s["edge_dim_declared"] else ("implied" if s["has_edge_dim"] else "absent")}')
            ctx.count(f'coords_as_coords:{s["coords_as_coords"]}')
            with warnings.catch_warnings():
                warnings.simplefilter('ignore')
                r = attempt(lambda: rows_opt(topo.face_node_array))
            if r[0] != 'ok':
                ctx.report('property', f'face_node_array failed: {r[1]}', case)
                continue
            fn_rows = r[1]
            fn = compressed(fn_rows)
            # the value marking a missing entry in the normalised tables: model Fill.sensible_fill; no element has that number
            with warnings.catch_warnings():
                warnings.simplefilter('ignore')
                rf = attempt(lambda: (int(topo.sensible_fill_value), int(topo.node_count), int(topo.face_count), int(topo.max_node_count)))
            if rf[0] != 'ok':
                ctx.report('property', f'sensible_fill_value failed: {rf[1]}', case)
                continue
            fillv, nc_, fc_, mnc_ = rf[1]
            if fillv <= max(nc_, fc_ * mnc_, s.get('ne', 0)) + 1:
                ctx.report('property', f'the fill value {fillv} of the normalised tables is the number of an element '
                           f'({nc_} nodes, {fc_} faces of up to {mnc_} nodes, {s.get("ne")} edges)', case)
                continue
            fill_exprs.append(f'(sensible_fill {nc_} {fc_} {mnc_})')
            fill_plans.append((case, fillv))
            # (1) identical faces however the file encodes them
            if fn != [list(f) for f in faces]:
                ctx.report('property', f'faces decoded as {fn} but the mesh written was {faces}', case)
                continue
            if ref_fn is None:
                ref_fn = fn
            elif fn != ref_fn:
                ctx.report('property', 'the same mesh decodes differently under another encoding', case)
            # edge dimension discovery
            if topo.has_edge_dimension != s['has_edge_dim']:
                ctx.report('property', f'has_edge_dimension={topo.has_edge_dimension}, expected {s["has_edge_dim"]}', case)
                continue
            # which dimension numbers the edges / the faces (model EdgeDim; dimension names as numbers)
            dimno = {}
            def dn(x):      # noqa: E306
                return dimno.setdefault(str(x), len(dimno) + 1)
            mattrs = d.ds['Mesh2'].attrs
            def tab(role):      # noqa: E306
                nm_ = mattrs.get(role)
                if nm_ is None or nm_ not in d.ds.variables:
                    return 'None'
                return f'(Some ({dn(d.ds[nm_].dims[0])}, {dn(d.ds[nm_].dims[1])}))'
            fn_dims = d.ds[mattrs['face_node_connectivity']].dims
            mlit = (f"{{| edge_dim_attr := {'None' if 'edge_dimension' not in mattrs else '(Some ' + str(dn(mattrs['edge_dimension'])) + ')'}; "
                    f"edge_node := {tab('edge_node_connectivity')}; edge_face := {tab('edge_face_connectivity')}; "
                    f"face_dim_attr := {'None' if 'face_dimension' not in mattrs else '(Some ' + str(dn(mattrs['face_dimension'])) + ')'}; "
                    f"face_node := ({dn(fn_dims[0])}, {dn(fn_dims[1])}) |}}")
            ed_impl = attempt(lambda: topo.edge_dimension)
            edge_plans.append((case, (bool(topo.has_edge_dimension), Some(dn(ed_impl[1])) if ed_impl[0] == 'ok' else None, dn(topo.face_dimension)),
                               (dn(s['dims']['edge']) if s['has_edge_dim'] else None, dn(s['dims']['face']))))
            edge_exprs.append(f'(let m := {mlit} in (EdgeDim.has_edge_dimension m, EdgeDim.edge_dimension m, EdgeDim.face_dimension m, '
                              f'EdgeDim.edge_dimension_last m))')
            # model: decode of the raw stored cells
            da = d.ds[VARNAME['face_node']]
            e_model = [f'(to_index_array {encoding_literal(da, si, tr)} {to_coq(raw_cells(da))})']
            obs = [fn_rows]
            # (2) supplied tables are used as given
            names = ['edge_node', 'face_edge', 'edge_face', 'face_face']
            arrays = {}
            ok = True
            for name in names:
                if not s['has_edge_dim']:
                    # without an edge dimension (none declared, none implied by an edge_* variable) edges have no
                    # numbering and the code refuses every edge-based table: outside the property's quantifier
                    # ("edge dimension declared or implied"); the refusal itself is checked
                    r = attempt(lambda: getattr(topo, name + '_array'))
                    ctx.count(f'no_edge_dim:{name}:{r[0] if r[0] == "ok" else r[1]}')
                    continue
                with warnings.catch_warnings():
                    warnings.simplefilter('ignore')
                    r = attempt(lambda: rows_opt(getattr(topo, name + '_array')))
                if r[0] != 'ok':
                    ctx.report('property', f'{name}_array failed: {r[1]}', case)
                    ok = False
                    break
                arrays[name] = r[1]
                if name in sup:
                    if compressed(r[1]) != s[name]:
                        ctx.report('property', f'supplied {name} table not used as given: {compressed(r[1])} vs stored {s[name]}',
                                   case)
                        ok = False
                        break
                    da = d.ds[VARNAME[name]]
                    e_model.append(f'(to_index_array {encoding_literal(da, 0 if name in bare else si, tr)} {to_coq(raw_cells(da))})')
                    obs.append(r[1])
            if not ok:
                continue
            # (3) derived tables
            if s['has_edge_dim'] and all(k in arrays for k in names):
                en, fe, ef, ff = (compressed(arrays[k]) for k in names)
                bad = spec_violations(fn, en, fe, ef, ff)
                derived = [k for k in names if k not in sup]
                e_chk = f'(topology_okb {to_coq(fn)} {to_coq(en)} {to_coq(fe)} {to_coq(ef)} {to_coq(ff)})'
                e_der = []
                if 'face_edge' not in sup:
                    e_der.append(('face_edge', f'(mk_fe_impl {to_coq(fn)} {to_coq(en)})', fe))
                if 'edge_face' not in sup:
                    e_der.append(('edge_face', f'(mk_ef {to_coq(fe)} {len(en)})', ef))
                if 'face_face' not in sup:
                    e_der.append(('face_face', f'(mk_ff_impl {len(fn)}%nat {to_coq(ef)})', ff))
                exprs.append('(' + ', '.join(['[' + '; '.join(e_model) + ']', e_chk,
                                              '([' + '; '.join(e for _, e, _ in e_der) + '] : list table)']) + ')')
                plans.append((case, obs, bad, derived, e_der, (fn, en, fe, ef, ff)))
                if len(en) != s['ne'] or (topo.edge_count != s['ne']):
                    ctx.report('property', f'edge count {len(en)} / {topo.edge_count}, the mesh has {s["ne"]} edges', case)
            else:
                # no edge dimension: face_face can still be derived through derived edges
                exprs.append('([' + '; '.join(e_model) + '], true, ([] : list table))')
                plans.append((case, obs, [], [], [], None))
    # ---- the tables a user was handed stay what they were: deriving further tables of the same mesh, or the tables of another
    # mesh of the same size, changes neither them nor the dataset
    def tables_of(topo_):
        out_ = {}
        for nm_ in ('face_node_array', 'edge_node_array', 'face_edge_array', 'edge_face_array', 'face_face_array'):
            r_ = attempt(lambda: getattr(topo_, nm_))
            if r_[0] == 'ok':
                out_[nm_] = r_[1]
        return out_
    for rep_ in range(2 if quick else 6):
        pair = []
        for which_ in (0, 1):
            # two meshes of four quadrilaterals each: a 2 x 2 block and a 1 x 4 strip; edges supplied with the higher node first
            mesh_ = gen.lattice_mesh(rng, 2, 2, variety=False, drop=False) if which_ == 0 else gen.lattice_mesh(rng, 4, 1, variety=False, drop=False)
            dm_ = gen.ugrid(rng, mesh=mesh_, invalid=False, supplied={'edge_node'}, edge_dim_declared=True, start_index=0, fill='attr', transposed=False)
            en_name = 'Mesh2_edge_nodes'
            if en_name in dm_.ds:
                a_ = dm_.ds[en_name]
                dm_.ds[en_name] = (a_.dims, a_.values[:, ::-1].copy(), a_.attrs)      # (high, low) rows: legal, an edge has no direction
            pair.append(dm_)
        kept = []
        for dm_ in pair:
            before_ = dm_.ds.copy(deep=True)
            with warnings.catch_warnings():
                warnings.simplefilter('ignore')
                topo_ = dm_.ds.ems.topology
                first_en = attempt(lambda: numpy.ma.filled(numpy.ma.asarray(topo_.edge_node_array), -1).copy())
                tabs_ = tables_of(topo_)
                copies_ = {k_: numpy.ma.filled(numpy.ma.asarray(v_), -1).copy() for k_, v_ in tabs_.items()}
            tcase = {'mesh_faces': dm_.spec['faces'], 'label': dm_.spec['label'], 'what': 'tables stay as handed out'}
            ctx.case((dm_.spec['label'], 'tables stay', rep_), True)
            ctx.count('tables handed out stay what they were')
            if first_en[0] == 'ok' and 'edge_node_array' in copies_ and not numpy.array_equal(first_en[1], numpy.ma.filled(numpy.ma.asarray(topo_.edge_node_array), -1)):
                ctx.report('property', 'edge_node_array changed after the other tables of the same mesh were derived: supplied '
                           f'{first_en[1].tolist()}, now {numpy.ma.filled(numpy.ma.asarray(topo_.edge_node_array), -1).tolist()}', tcase)
            elif not dm_.ds.identical(before_):
                ctx.report('property', 'deriving the tables of the mesh modified the dataset', tcase)
            kept.append((dm_, tabs_, copies_, tcase))
        # after the second mesh was processed the tables handed out for the first one are still its tables
        dm_, tabs_, copies_, tcase = kept[0]
        for k_, v_ in tabs_.items():
            if not numpy.array_equal(numpy.ma.filled(numpy.ma.asarray(v_), -1), copies_[k_]):
                ctx.report('property', f'{k_} handed out for one mesh changed when another mesh of the same size was processed: '
                           f'{copies_[k_].tolist()} became {numpy.ma.filled(numpy.ma.asarray(v_), -1).tolist()}', tcase)
                break
    model = coq_eval_sharded(['Base.Index', 'Base.ListX', 'Model.Topology'], exprs, shard=10, workers=14)
    ctx.leg('coq_eval_cases', len(exprs))
    # counts of every magnitude as well (the fill gains a digit at each power of ten)
    for nc_, fc_, mnc_ in [(0, 0, 0), (9, 2, 4), (10, 2, 4), (99, 33, 3), (100, 25, 4), (999, 250, 4), (1000, 250, 4), (123456, 40000, 6),
                           (999999, 10, 3), (1000000, 10, 3), (5, 99999, 10), (7, 100000, 10)]:
        fill_exprs.append(f'(sensible_fill {nc_} {fc_} {mnc_})')
        fill_plans.append(({'counts': [nc_, fc_, mnc_]}, int('9' * (len(str(max(nc_, fc_ * mnc_))) + 1))))
    medge = coq_eval_sharded(['Model.EdgeDim'], edge_exprs, shard=60, workers=4)
    ctx.leg('edge and face dimension lookups', len(edge_exprs))
    for (case, impl_, want_), mres in zip(edge_plans, medge):
        ((m_has, m_ed), m_fd), m_last = mres
        got = (impl_[0], None if impl_[1] is None else impl_[1].v, impl_[2])
        mod = (bool(m_has), None if m_ed is None else m_ed.v, m_fd)
        if got != mod:
            ctx.report('correspondence', f'model EdgeDim (has_edge_dimension, edge_dimension, face_dimension) = {mod}, implementation {got}',
                       case, found_input=False)
        elif (got[1], got[2]) != want_:
            ctx.report('property', f'the edges / faces of the mesh written are numbered by dimensions {want_}, the convention takes {got[1:]}', case)
        elif (None if m_last is None else m_last.v) != mod[1]:
            # (the generated meshes are valid UGRID: by theorem C10_edge_table_order_irrelevant_on_valid_meshes the order in which the
            # edge tables are consulted cannot matter on them; a generator that produced such a mesh would be at fault)
            ctx.report('harness', 'a generated mesh stores an edge table the other way round without naming the edge dimension', case)
    mfill = coq_eval_sharded(['Model.Fill'], fill_exprs, shard=60, workers=4)
    ctx.leg('fill_values', len(fill_exprs))
    for (fcase, fillv), mv in zip(fill_plans, mfill):
        if int(mv) != fillv:
            ctx.report('correspondence', f'sensible_fill_value {fillv}, model Fill.sensible_fill {mv}', fcase, found_input=False)
    for (case, obs, bad, derived, e_der, tabs), mres in zip(plans, model):
        (m_dec, m_ok), m_der = mres
        if bad:
            ctx.report('property', f'tables disagree (derived here: {derived}): ' + '; '.join(bad[:2]), case,
                       extra={'tables': None if tabs is None else
                              dict(zip(['face_node', 'edge_node', 'face_edge', 'edge_face', 'face_face'], tabs))})
            continue
        if m_ok is not True:
            ctx.report('correspondence', 'the verified checker topology_okb rejects tables that the python relation accepts',
                       case, found_input=False, extra={'tables': tabs})
        if m_dec != obs:
            ctx.report('correspondence', f'decoded tables: impl {obs} model {m_dec}', case, found_input=False)
        for (name, _, got), want in zip(e_der, m_der):
            if got != want:
                ctx.report('correspondence', f'derived {name}: impl {got} model {want}', case, found_input=False)
