"""C19 - plot artists pair every value with its own cell."""
import warnings

import matplotlib
matplotlib.use('Agg')
import matplotlib.pyplot as plt  # noqa: E402
import numpy  # noqa: E402
import xarray  # noqa: E402

import emsarray  # noqa: F401,E402
from coqio import Some, coq_eval_sharded, to_coq, tup  # noqa: E402
import gen  # noqa: E402
from hutil import attempt  # noqa: E402


def path_ring(path):
    v = [tuple(float(x) for x in p) for p in path.vertices]
    if len(v) > 1 and v[0] == v[-1]:
        v = v[:-1]
    return v


def poly_ring(p):
    return [tuple(c) for c in p.exterior.coords][:-1]


def opt(vals):
    return '[' + '; '.join('None' if x != x else f'(Some {int(x)})' for x in vals) + ']'


def spec_centres(d):
    """cell centres in linear order straight from the generator's description of the dataset (None: not described)"""
    s = d.spec
    if d.family == 'cf1d':
        return [(float(x), float(y)) for y in s['lat'] for x in s['lon']]
    if d.family in ('cf2d', 'shoc_simple'):
        return [(float(x), float(y)) for x, y in zip(numpy.asarray(s['lon']).reshape(-1), numpy.asarray(s['lat']).reshape(-1))]
    if d.family == 'shoc_standard':
        return [(float(x), float(y)) for x, y in zip(numpy.asarray(s['xc']).reshape(-1), numpy.asarray(s['yc']).reshape(-1))]
    return None


def figure_level(ctx, rng, d, ds, ems, polys, centres, gdims, shape, case):
    from matplotlib.collections import PolyCollection
    from matplotlib.quiver import Quiver
    from emsarray import plot as ems_plot
    ncell = len(polys)
    want_cells = [k for k, p in enumerate(polys) if p is not None]
    nt = 3
    # frame f of cell n holds 10000 f + 1000 + n (components: + 2000 / + 3000); a cell missing in one frame only
    series = {}
    fuv = rng.random() < 0.5           # the two components of a vector share their dimension order
    flip = {'s': rng.random() < 0.5, 'u': fuv, 'v': fuv}
    for nm, base in (('s', 1000), ('u', 2000), ('v', 3000)):
        vals = numpy.stack([(numpy.arange(ncell, dtype='f8') + base + 10000 * f).reshape(shape) for f in range(nt)])
        da = xarray.DataArray(vals, dims=['record'] + list(gdims), attrs={'units': 'm'})
        if len(gdims) == 2 and flip[nm]:
            da = da.transpose('record', *list(gdims)[::-1])
        series[nm] = da
    series['s'].values.reshape(nt, -1)[1, want_cells[0]] = numpy.nan if series['s'].dims[1:] == tuple(gdims) else series['s'].values.reshape(nt, -1)[1, want_cells[0]]
    tcoord = xarray.DataArray(numpy.array(['2001-01-01', '2001-01-02', '2001-01-03'], dtype='datetime64[ns]'), dims=['record'], name='t')
    flat = {nm: numpy.stack([da.isel(record=f).transpose(*gdims).values.reshape(-1) for f in range(nt)]) for nm, da in series.items()}

    def artists(fig_):
        ax = fig_.axes[0]
        pcs = [c for c in ax.collections if isinstance(c, PolyCollection) and not isinstance(c, Quiver)]
        qs = [c for c in ax.collections if isinstance(c, Quiver)]
        return pcs, qs

    def judge(pc, q, f, what):
        paths = [path_ring(p_) for p_ in pc.get_paths()]
        arr = numpy.asarray(pc.get_array(), dtype='f8').reshape(-1)
        if len(paths) != len(want_cells) or len(arr) != len(want_cells):
            return f'{what}: {len(paths)} patches and {len(arr)} values for {len(want_cells)} cells with geometry'
        for pos, k in enumerate(want_cells):
            if paths[pos] != poly_ring(polys[k]):
                return f'{what}: patch {pos} is not the outline of cell {k}'
            w = flat['s'][f][k]
            if not (arr[pos] == w or (arr[pos] != arr[pos] and w != w)):
                return f'{what}: patch {pos} (cell {k}) is coloured with {arr[pos]}, the value of that cell in that frame is {w}'
        X, Y, U, V = (numpy.asarray(a, dtype='f8').reshape(-1) for a in (q.X, q.Y, q.U, q.V))
        if not (len(X) == len(U) == len(V) == ncell):
            return f'{what}: {len(X)} arrows, {len(U)} components for {ncell} cells'
        for k in range(ncell):
            cx, cy = centres[k]
            same_pos = (X[k] == cx or (X[k] != X[k] and cx != cx)) and (Y[k] == cy or (Y[k] != Y[k] and cy != cy))
            if not same_pos or U[k] != flat['u'][f][k] or V[k] != flat['v'][f][k]:
                return (f'{what}: arrow {k} at ({X[k]}, {Y[k]}) with ({U[k]}, {V[k]}); cell {k} is at ({cx}, {cy}) with '
                        f'({flat["u"][f][k]}, {flat["v"][f][k]})')
        return None

    # one field
    f0 = 2
    figs = []
    try:
        fig1 = plt.figure()
        figs.append(fig1)
        ctx.case((case['dataset'], 'plot_on_figure'), len(want_cells) < ncell)
        ctx.count('figure_level:plot_on_figure')
        with warnings.catch_warnings():
            warnings.simplefilter('ignore')
            try:
                r = ('ok', ems_plot.plot_on_figure(fig1, ems, scalar=series['s'].isel(record=f0),
                                                   vector=(series['u'].isel(record=f0), series['v'].isel(record=f0)),
                                                   coast=False, gridlines=False))
            except Exception as e_:     # noqa: BLE001
                import traceback
                r = ('err', f'{type(e_).__name__}: {e_} | ' + ' <- '.join(f'{fr.name}:{fr.lineno}' for fr in traceback.extract_tb(e_.__traceback__)[-4:]))
        if r[0] != 'ok':
            ctx.report('property', f'plot_on_figure failed: {r[1]}', dict(case, through='plot_on_figure'))
        else:
            pcs, qs = artists(fig1)
            bad = 'plot_on_figure: the figure holds no polygon collection / no arrows' if len(pcs) != 1 or len(qs) != 1 else \
                judge(pcs[0], qs[0], f0, 'plot_on_figure')
            if not bad:
                plotted = [flat['s'][f0][k] for k in want_cells if flat['s'][f0][k] == flat['s'][f0][k]]
                clim = pcs[0].get_clim()
                # (a colour bar on a single value: matplotlib itself widens limits that coincide - nothing to compare then)
                if plotted and min(plotted) != max(plotted) and (clim[0] != min(plotted) or clim[1] != max(plotted)):
                    bad = f'plot_on_figure: colour limits {clim}, the plotted values span ({min(plotted)}, {max(plotted)})'
            if bad:
                ctx.report('property', bad, dict(case, through='plot_on_figure'))
        # a series
        fig2 = plt.figure()
        figs.append(fig2)
        ctx.case((case['dataset'], 'animate_on_figure'), len(want_cells) < ncell)
        ctx.count('figure_level:animate_on_figure')
        with warnings.catch_warnings():
            warnings.simplefilter('ignore')
            r = attempt(lambda: ems_plot.animate_on_figure(fig2, ems, coordinate=tcoord, scalar=series['s'],
                                                           vector=(series['u'], series['v']), coast=False, gridlines=False,
                                                           repeat=False))
        if r[0] != 'ok':
            ctx.report('property', f'animate_on_figure failed: {r[1]}', dict(case, through='animate_on_figure'))
            return
        anim = r[1]
        pcs, qs = artists(fig2)
        if len(pcs) != 1 or len(qs) != 1:
            ctx.report('property', 'animate_on_figure: the figure holds no polygon collection / no arrows', dict(case, through='animate_on_figure'))
            return
        allv = [flat['s'][f][k] for f in range(nt) for k in want_cells if flat['s'][f][k] == flat['s'][f][k]]
        clim = pcs[0].get_clim()
        if allv and min(allv) != max(allv) and (clim[0] != min(allv) or clim[1] != max(allv)):
            ctx.report('property', f'animate_on_figure: colour limits {clim}, the values plotted over the series span ({min(allv)}, {max(allv)})',
                       dict(case, through='animate_on_figure'))
            return
        for f in (1, 2, 0):
            with warnings.catch_warnings():
                warnings.simplefilter('ignore')
                r = attempt(lambda: anim._func(f))
            if r[0] != 'ok':
                ctx.report('property', f'animate_on_figure: drawing frame {f} failed: {r[1]}', dict(case, through='animate_on_figure'))
                return
            bad = judge(pcs[0], qs[0], f, f'animate_on_figure frame {f}')
            if bad:
                ctx.report('property', bad, dict(case, through='animate_on_figure', frame=f))
                return
        try:
            anim.event_source.stop()
        except Exception:     # noqa: BLE001
            pass
    finally:
        for f_ in figs:
            plt.close(f_)


def wide_cells(n):
    """Cells wider than half a turn in the units of their x coordinate, with corners at negative x: zonal bands of a global
    grid (one longitude cell with stored bounds -180 .. 180), and a mesh in projected metres straddling x = 0.  The patch of a
    cell is its outline, whatever its size."""
    if n == 6:
        lat = numpy.array([-30.0, 0.0, 30.0, 60.0])
        ds = xarray.Dataset({
            'lat_bnds': (('lat', 'nv'), numpy.stack([lat - 15.0, lat + 15.0], axis=1)),
            'lon_bnds': (('lon', 'nv'), numpy.array([[-180.0, 180.0]])),
        }, coords={
            'lat': ('lat', lat, {'standard_name': 'latitude', 'units': 'degrees_north', 'bounds': 'lat_bnds'}),
            'lon': ('lon', numpy.array([0.0]), {'standard_name': 'longitude', 'units': 'degrees_east', 'bounds': 'lon_bnds'}),
        }, attrs={'Conventions': 'CF-1.8'})
        return gen.DS('cf1d', ds, {'label': 'cf1d 4x1 zonal bands, longitude cell -180..180', 'kinds': {'face': ['lat', 'lon']},
                                  'lat': lat.tolist(), 'lon': [0.0]})
    nodes = [(-300.0, 0.0), (-50.0, 0.0), (250.0, 0.0), (-300.0, 200.0), (-50.0, 200.0), (250.0, 200.0), (400.0, 100.0)]
    faces = [[0, 1, 4, 3], [1, 2, 5, 4], [2, 6, 5, -1]]
    ds = xarray.Dataset({
        'Mesh2': ((), numpy.int32(0), {'cf_role': 'mesh_topology', 'topology_dimension': 2, 'node_coordinates': 'Mesh2_node_x Mesh2_node_y',
                                       'face_node_connectivity': 'Mesh2_face_nodes'}),
        'Mesh2_node_x': ('nMesh2_node', numpy.array([p[0] for p in nodes]), {'standard_name': 'projection_x_coordinate', 'units': 'm'}),
        'Mesh2_node_y': ('nMesh2_node', numpy.array([p[1] for p in nodes]), {'standard_name': 'projection_y_coordinate', 'units': 'm'}),
        'Mesh2_face_nodes': (('nMesh2_face', 'nMaxMesh2_face_nodes'), numpy.array(faces, dtype='i4'),
                             {'cf_role': 'face_node_connectivity', 'start_index': numpy.int32(0), '_FillValue': numpy.int32(-1)}),
    }, attrs={'Conventions': 'UGRID-1.0'})
    return gen.DS('ugrid', ds, {'label': 'ugrid 3 faces in projected metres straddling x = 0, cells 250 .. 300 wide',
                                'kinds': {'face': ['nMesh2_face'], 'node': ['nMesh2_node']}})


def other_grid_leg(ctx, axes):
    """Variables that live on another grid of the dataset (mesh nodes or edges, the left / back / node grids of an Arakawa C
    dataset) have no value per cell: the patches and the arrows are those of the cells, so such a variable is refused - and is
    never drawn onto the cells, whether or not its grid happens to have as many locations as there are cells."""
    rng = ctx.rng
    n_ds = 12 if ctx.tier == 'quick' else 60
    # a hexagon with two inner nodes, cut into triangles: 8 nodes, 8 faces
    hex_nodes = [(0, 0), (2, -1), (4, 0), (4, 2), (2, 3), (0, 2), (1, 1), (3, 1)]
    hex_faces = [[0, 1, 6], [1, 7, 6], [1, 2, 7], [2, 3, 7], [3, 4, 7], [4, 6, 7], [4, 5, 6], [5, 0, 6]]
    for n in range(n_ds):
        if n % 4 == 0:
            d = gen.ugrid(rng, mesh=(hex_nodes, hex_faces), invalid=False, supplied=set() if n % 8 == 0 else None)
        else:
            d = gen.any_dataset(rng, ['ugrid', 'shoc_standard'][n % 2])
        ds = d.ds
        kinds = d.spec['kinds']
        with warnings.catch_warnings():
            warnings.simplefilter('ignore')
            ems = ds.ems
            ncell = len(ems.polygons)
        for kind, kdims in kinds.items():
            if kind == 'face':
                continue
            shape = [ds.sizes[g] for g in kdims] if all(g in ds.sizes for g in kdims) else None
            if shape is None:
                continue
            size = int(numpy.prod(shape))
            name = f'on_{kind}'
            ds[name] = xarray.DataArray((numpy.arange(size, dtype='f8') + 5000).reshape(shape), dims=list(kdims))
            case = {'dataset': d.spec['label'], 'cells': ncell, 'variable_on': str(kind), 'locations': size}
            same = size == ncell
            ctx.count(f'other_grid:{d.family}:{kind}:{"as many locations as cells" if same else "another number of locations"}')
            ctx.case((d.spec['label'], 'other grid', str(kind)), same, sample=case if same and len(ctx.samples) < 4 else None)
            for how in ('name', 'array'):
                arg = name if how == 'name' else ds[name]
                with warnings.catch_warnings():
                    warnings.simplefilter('ignore')
                    r = attempt(lambda: ems.make_poly_collection(arg))
                    rq = attempt(lambda: ems.make_quiver(axes, arg, arg))
                if r[0] == 'ok':
                    ctx.report('property', f'a variable on the {kind} grid ({size} locations) was drawn onto the {ncell} cell polygons: '
                               f'values {numpy.asarray(r[1].get_array(), dtype="f8")[:4].tolist()}... are not values of those cells',
                               dict(case, given_as=how, through='make_poly_collection'))
                if rq[0] == 'ok':
                    ctx.report('property', f'vector components on the {kind} grid ({size} locations) were drawn as arrows at the {ncell} '
                               f'cell centres', dict(case, given_as=how, through='make_quiver'))


def _classify(r):
    """An outcome of make_poly_collection / make_quiver as the small enumeration of Model.PlotArgs."""
    if r[0] == 'ok':
        return 0
    kind, msg = r[1]
    if kind == 'TypeError':
        return 1
    if kind == 'ValueError' and 'Unknown grid kind' in msg:
        return 2
    if kind == 'ValueError' and 'not defined on the cells' in msg:
        return 3
    if kind == 'ValueError' and 'too many dimensions' in msg:
        return 4
    if kind == 'ValueError' and 'dimensions must be identical' in msg:
        return 1
    return (9, kind, msg[:80])


def _transform_of(artist):
    # (an artist left with a coordinate system instead of a transform, and no axes, cannot resolve it)
    try:
        return artist.get_transform()
    except Exception:      # noqa: BLE001
        return None


def _attempt_msg(f):
    try:
        return ('ok', f())
    except Exception as e:      # noqa: BLE001
        return ('err', (type(e).__name__, str(e)))


def arguments_leg(ctx, axes):
    """What make_poly_collection / make_quiver do with their arguments - draw from the variable, from what the caller
    supplied, or refuse - against Model.PlotArgs: variables on the cells' grid (dimensions in any order), on another grid of
    the dataset, with a leftover dimension, on no grid at all, x array / clim / transform supplied or not."""
    from matplotlib.transforms import Affine2D
    rng = ctx.rng
    n_ds = 12 if ctx.tier == 'quick' else 60
    exprs, plans = [], []
    for n in range(n_ds):
        d = gen.any_dataset(rng, gen.FAMILIES[n % len(gen.FAMILIES)])
        ds = d.ds
        with warnings.catch_warnings():
            warnings.simplefilter('ignore')
            ems = ds.ems
            ncell = len(ems.polygons)
            mask = numpy.asarray(ems.mask)
        if not mask.any():
            continue
        kinds = list(ems.grid_dimensions.items())
        kind_keys = [k for k, _ in kinds]
        default = kind_keys.index(ems.default_grid_kind)
        dim_ids = {str(x): i for i, x in enumerate(ds.dims)}
        dim_ids.update({'layer': 900, 'loose': 901})
        glit = to_coq([tup(i, [dim_ids[str(x)] for x in dims]) for i, (_k, dims) in enumerate(kinds)])
        variables = {}
        for i, (k, kdims) in enumerate(kinds):
            if not all(g in ds.sizes for g in kdims):
                continue
            shape = [ds.sizes[g] for g in kdims]
            size = int(numpy.prod(shape))
            base = xarray.DataArray((numpy.arange(size, dtype='f8') + 7000 + 100 * i).reshape(shape), dims=list(kdims))
            order = list(kdims)
            rng.shuffle(order)
            variables[f'pa_{i}'] = base.transpose(*order)
            variables[f'pa_{i}_layer'] = base.expand_dims(layer=2).transpose(*rng.sample(order + ['layer'], len(order) + 1))
        variables['pa_loose'] = xarray.DataArray(numpy.arange(3.0), dims=['loose'])
        for nm, da in variables.items():
            ds[nm] = da
        for nm in variables:
            dims = [dim_ids[str(x)] for x in ds[nm].dims]
            has_array, has_clim, has_transform = rng.random() < 0.25, rng.random() < 0.5, rng.random() < 0.5
            kw = {}
            user_array = numpy.arange(int(mask.sum()), dtype='f8') - 50.0
            user_clim = (-123.0, 456.0)
            t = Affine2D().scale(2.0)
            if has_array:
                kw['array'] = user_array
            if has_clim:
                kw['clim'] = user_clim
            if has_transform:
                kw['transform'] = t
            use_none = rng.random() < 0.2
            arg = None if use_none else (nm if rng.random() < 0.5 else ds[nm])
            case = {'dataset': d.spec['label'], 'variable': None if use_none else {'dims': list(map(str, ds[nm].dims))},
                    'array': has_array, 'clim': has_clim, 'transform': has_transform}
            with warnings.catch_warnings():
                warnings.simplefilter('ignore')
                r = _attempt_msg(lambda: ems.make_poly_collection(arg, **kw))
            code = _classify(r)
            if code == 0:
                pc = r[1]
                arr = pc.get_array()
                if arr is None:
                    a_src = 2
                elif has_array and numpy.array_equal(numpy.asarray(arr), user_array):
                    a_src = 1
                else:
                    want = ds[nm].transpose(*kinds[default][1]).values.reshape(-1)[mask] if not use_none and set(ds[nm].dims) == set(kinds[default][1]) else None
                    a_src = 0 if want is not None and numpy.array_equal(numpy.asarray(arr, dtype='f8'), want) else 8
                clim = pc.get_clim()
                if clim == (None, None) or (use_none and not has_clim):
                    # (without a variable and without clim nothing is asked of matplotlib, which scales to the array it holds, if any)
                    c_src = 2 if clim == (None, None) or (arr is not None and tuple(clim) == (float(numpy.nanmin(arr)), float(numpy.nanmax(arr)))) else 8
                elif tuple(clim) == user_clim:
                    c_src = 1
                else:
                    c_src = 0 if arr is not None and tuple(clim) == (float(numpy.nanmin(arr)), float(numpy.nanmax(arr))) else 8
                got = tup(0, a_src, c_src, _transform_of(pc) is t)
            else:
                got = tup(code, -1, -1, False) if isinstance(code, int) else code
            exprs.append(f'(show_poly (make_poly_collection {glit} {default} {"None" if use_none else "(Some " + to_coq(dims) + ")"} '
                         f'{to_coq(has_array)} {to_coq(has_clim)} {to_coq(has_transform)}))')
            plans.append((case, 'make_poly_collection', got))
            ctx.count(f'arguments:make_poly_collection:outcome={code if isinstance(code, int) else "other"}')
            # arrows: u and v the same variable, a differently ordered one, or one left out
            v_nm = nm if rng.random() < 0.7 else rng.choice(list(variables))
            u_arg = None if rng.random() < 0.15 else nm
            v_arg = None if rng.random() < 0.15 else v_nm
            qkw = {'transform': t} if has_transform else {}
            with warnings.catch_warnings():
                warnings.simplefilter('ignore')
                rq = _attempt_msg(lambda: ems.make_quiver(axes, u_arg, v_arg, **qkw))
            qcode = _classify(rq)
            if qcode == 0:
                q = rq[1]
                U = numpy.asarray(q.U, dtype='f8')
                # (matplotlib masks invalid components: with both NaN nothing is drawn)
                if (u_arg is None or v_arg is None) and q.Umask is not numpy.ma.nomask and bool(numpy.all(q.Umask)):
                    q_src = 2
                else:
                    want = ds[nm].transpose(*kinds[default][1]).values.reshape(-1) if set(ds[nm].dims) == set(kinds[default][1]) else None
                    q_src = 0 if want is not None and numpy.array_equal(U, want) else 8
                gotq = tup(0, q_src, q.transform is t)
            else:
                gotq = tup(qcode, -1, False) if isinstance(qcode, int) else qcode
            def lit(a):
                return 'None' if a is None else '(Some ' + to_coq([dim_ids[str(x)] for x in ds[a].dims]) + ')'
            exprs.append(f'(show_quiver (make_quiver {glit} {default} {lit(u_arg)} {lit(v_arg)} {to_coq(has_transform)}))')
            plans.append((dict(case, u=u_arg and list(map(str, ds[u_arg].dims)), v=v_arg and list(map(str, ds[v_arg].dims))), 'make_quiver', gotq))
            ctx.count(f'arguments:make_quiver:outcome={qcode if isinstance(qcode, int) else "other"}')
    model = coq_eval_sharded(['Model.PlotArgs'], exprs, shard=40, workers=8)
    ctx.leg('argument_cases', len(exprs))
    for (case, what, got), m in zip(plans, model):
        if got != m:
            ctx.report('correspondence', f'model PlotArgs.{what} = {m}, implementation {got} (0 drawn: sources data 0 / caller 1 / absent 2, '
                       f'caller\'s transform used; 1 both arrays or differing dimensions; 2 no grid; 3 another grid; 4 leftover dimension)',
                       case, found_input=False)


def run(ctx):
    rng = ctx.rng
    quick = ctx.tier == 'quick'
    ctx.rule = ('datasets of every convention with and without cells lacking geometry; scalar variables on the face grid given by '
                'name or as arrays, spatial dimensions in any position, with a leftover dimension (must be refused), with user '
                'array / clim overrides; vector pairs for make_quiver. The PolyCollection paths, array and clim and the Quiver X, Y, '
                'U, V are read back from the artists (Agg backend, nothing is rendered). non-trivial = the dataset has a cell '
                'without geometry; distinct by dataset and variable')
    n_ds = 30 if quick else 150
    exprs, plans = [], []
    fig = plt.figure()
    axes = fig.add_subplot()
    special = {4: [3, 5], 9: [5, 4, 3], 14: [7, 5, 4, 4], 19: [3, 4, 5, 4]}
    for n in range(n_ds):
        fam = gen.FAMILIES[n % len(gen.FAMILIES)]
        if n in special:
            # meshes mixing vertex counts whose coordinate total is a multiple of the cell count (3 + 5 (+ 4 ...) sides):
            # cutting the coordinates into equal chunks would look plausible
            nodes, faces = [], []
            for m_, sides in enumerate(special[n]):
                base = len(nodes)
                ring = {3: [(0, 0), (6, 0), (0, 6)], 4: [(0, 0), (6, 0), (6, 6), (0, 6)], 5: [(0, 0), (6, 0), (8, 4), (3, 8), (-2, 4)],
                        7: [(0, 0), (4, -2), (8, 0), (9, 4), (6, 8), (2, 8), (-1, 4)]}[sides]
                nodes += [(x + 16 * m_, y) for x, y in ring]
                faces.append(list(range(base, base + sides)))
            d = gen.ugrid(rng, mesh=(nodes, faces), invalid=False, supplied=set())
            fam = None
        if n in (6, 11):
            d = wide_cells(n)
            fam = None
        # every other round has a self-intersecting cell (dropped by the convention: a cell without geometry) in the
        # conventions that store their cell corners
        if fam is not None:
            kw = {'invalid': (n // len(gen.FAMILIES)) % 2 == 0} if fam != 'cf1d' else {}
            if fam == 'shoc_standard' and (n // len(gen.FAMILIES)) % 2 == 1:
                kw['transposed_coords'] = ('x_centre',)          # face longitude stored (i, j), face latitude (j, i)
                kw['nj'], kw['ni'] = rng.choice([(2, 3), (3, 2), (3, 4)])
            if fam == 'cf2d' and (n // len(gen.FAMILIES)) % 2 == 1:
                # a curvilinear grid whose longitude is stored (x, y) next to a latitude stored (y, x)
                kw.update(lon_transposed=True, bounds=False)
                kw['ny'], kw['nx'] = rng.choice([(3, 3), (3, 4), (4, 3)])
            d = gen.any_dataset(rng, fam, **kw)
        ds = d.ds
        gdims = d.spec['kinds']['face']
        with warnings.catch_warnings():
            warnings.simplefilter('ignore')
            ems = ds.ems
            polys = list(ems.polygons)
            centres = numpy.asarray(ems.face_centres)
            sc = spec_centres(d)
            if sc is not None and len(sc) == len(centres):
                centres = numpy.asarray(sc)          # independent of the implementation
        ncell = len(polys)
        holes = sum(1 for p in polys if p is None)
        if holes == ncell:
            continue
        label = d.spec['label']
        ctx.count(f'family:{d.family}')
        ctx.count(f'holes:{"yes" if holes else "no"}')
        shape = [ds.sizes[g] for g in gdims]
        # cell-tagged values: value of cell n is 1000 + n (so a permutation cannot hide); some missing
        tags = (numpy.arange(ncell, dtype='f8') + 1000).reshape(shape)
        if rng.random() < 0.5:
            tags.reshape(-1)[rng.randrange(ncell)] = numpy.nan
        dims = list(gdims)
        if len(dims) == 2 and rng.random() < 0.5:
            dims = dims[::-1]
            da = xarray.DataArray(tags, dims=list(gdims)).transpose(*dims)
        else:
            da = xarray.DataArray(tags, dims=list(gdims))
        # range attributes describing the whole series this slice was cut from (they survive isel / other tools): the colours
        # are scaled to the values actually plotted
        if n % 2 == 0:
            da.attrs.update({'actual_range': numpy.array([-50.0, 99999.0]), 'valid_min': -100.0, 'valid_max': 1e6,
                             'valid_range': numpy.array([-100.0, 1e6])})
        ds['scalar'] = da
        how = rng.choice(['name', 'array'])
        arg = 'scalar' if how == 'name' else ds['scalar']
        derived = 0.0
        if how == 'array' and n % 2 == 0:
            # a field derived from the stored one (unit conversion, anomaly): xarray keeps the name, the values are the new ones
            derived = 500.0
            arg = ds['scalar'] + derived
            how = 'array derived from the variable, same name'
        if how == 'array' and n % 2 == 1:
            # the array carries coordinate labels of its own on the surface dimensions (another spelling of the same axis:
            # rounded through float32, or counted the other way round): values go to cells by position
            relabel = {}
            for x in gdims:
                nlab = ds.sizes[x]
                relabel[x] = (numpy.asarray(ds[x].values, dtype='f4').astype('f8') + 1e-4) if x in ds.coords else numpy.arange(nlab)[::-1] * 10.0
            arg = xarray.DataArray(ds['scalar'].values, dims=ds['scalar'].dims, coords={x: (x, v) for x, v in relabel.items()},
                                   attrs=ds['scalar'].attrs, name='scalar')
            how = 'array with its own labels'
        case = {'dataset': label, 'cells': ncell, 'without_geometry': holes, 'given_as': how, 'dims': list(da.dims)}
        ctx.case((label, 'scalar', how, tuple(da.dims)), holes > 0, sample=case if holes and len(ctx.samples) < 3 else None)
        with warnings.catch_warnings():
            warnings.simplefilter('ignore')
            r = attempt(lambda: ems.make_poly_collection(arg))
        if r[0] != 'ok':
            ctx.report('property', f'make_poly_collection failed: {r[1]}', case)
            continue
        pc = r[1]
        paths = [path_ring(p) for p in pc.get_paths()]
        arr = numpy.asarray(pc.get_array(), dtype='f8')
        clim = pc.get_clim()
        flat = tags.reshape(-1) + derived
        want_cells = [k for k, p in enumerate(polys) if p is not None]
        bad = None
        if len(paths) != len(want_cells) or len(arr) != len(want_cells):
            bad = f'{len(paths)} patches and {len(arr)} values for {len(want_cells)} cells with geometry'
        else:
            for pos, k in enumerate(want_cells):
                if paths[pos] != poly_ring(polys[k]):
                    bad = f'patch {pos} is not the outline of cell {k}'
                    break
                if not (arr[pos] == flat[k] or (arr[pos] != arr[pos] and flat[k] != flat[k])):
                    bad = f'patch {pos} (cell {k}) is coloured with {arr[pos]}, the value of that cell is {flat[k]}'
                    break
        plotted = [flat[k] for k in want_cells if flat[k] == flat[k]]
        if not bad and plotted and (clim[0] != min(plotted) or clim[1] != max(plotted)):
            bad = f'default colour limits {clim}, the plotted values span ({min(plotted)}, {max(plotted)})'
        if bad:
            ctx.report('property', bad, case)
            continue
        mask_lit = '[' + '; '.join('None' if p is None else f'(Some {k})' for k, p in enumerate(polys)) + ']'
        exprs.append(f'(let pv := poly_collection ({mask_lit} : list (option Z)) {opt(flat)} in (pv, clim (snd pv)))')
        impl_vals = [None if x != x else Some(int(x)) for x in arr]
        impl_clim = (None if not plotted else Some(int(clim[0])), None if not plotted else Some(int(clim[1])))
        plans.append((case, ((want_cells, impl_vals), impl_clim)))
        # the older spelling make_patch_collection (still offered) builds the same artist
        if n % 3 == 0:
            with warnings.catch_warnings():
                warnings.simplefilter('ignore')
                r_old = attempt(lambda: ems.make_patch_collection(arg))
            ctx.count('make_patch_collection (older spelling)')
            if r_old[0] != 'ok':
                ctx.report('property', f'make_patch_collection failed: {r_old[1]}', dict(case, through='make_patch_collection'))
            else:
                arr_old = numpy.asarray(r_old[1].get_array(), dtype='f8')
                if ([path_ring(p_) for p_ in r_old[1].get_paths()] != paths or not numpy.array_equal(arr_old, arr, equal_nan=True)
                        or not numpy.array_equal(numpy.asarray(r_old[1].get_clim(), dtype='f8'), numpy.asarray(clim, dtype='f8'), equal_nan=True)):
                    ctx.report('property', 'make_patch_collection does not build the patches, values and colour limits that '
                               'make_poly_collection builds', dict(case, through='make_patch_collection'))
        # a collection of the bare geometry built right after one that carried data: nothing of the earlier one is in it
        with warnings.catch_warnings():
            warnings.simplefilter('ignore')
            r_geo = attempt(lambda: ems.make_poly_collection())
        ctx.count('geometry-only collection after a data collection')
        if r_geo[0] != 'ok':
            ctx.report('property', f'make_poly_collection() failed: {r_geo[1]}', dict(case, through='geometry only'))
        elif r_geo[1].get_array() is not None or [path_ring(p_) for p_ in r_geo[1].get_paths()] != paths:
            ctx.report('property', 'a collection of the bare geometry, built after one that carried data, holds values / other outlines: '
                       f'array {None if r_geo[1].get_array() is None else numpy.asarray(r_geo[1].get_array())[:4].tolist()}',
                       dict(case, through='geometry only'))
        # user overrides: array= and clim= are passed through untouched
        with warnings.catch_warnings():
            warnings.simplefilter('ignore')
            own = numpy.arange(len(want_cells), dtype='f8')
            r = attempt(lambda: ems.make_poly_collection(array=own, clim=(-5, 5)))
            ctx.count('override:array+clim')
            if r[0] != 'ok' or not numpy.array_equal(numpy.asarray(r[1].get_array()), own) or tuple(r[1].get_clim()) != (-5, 5):
                ctx.report('property', 'user supplied array / clim are not used as given', case)
            # a masked array supplied by the user (land masked out): mask and values reach the artist as given
            if len(want_cells) >= 2:
                m_own = numpy.ma.masked_array(numpy.arange(len(want_cells), dtype='f8') + 10, mask=[k % 3 == 1 for k in range(len(want_cells))],
                                              fill_value=1e20)
                r = attempt(lambda: ems.make_poly_collection(array=m_own))
                ctx.count('override:masked array')
                if r[0] != 'ok':
                    ctx.report('property', f'a user supplied masked array is refused: {r[1]}', case)
                else:
                    got_a = numpy.ma.asarray(r[1].get_array())
                    gm = numpy.ma.getmaskarray(got_a)
                    if got_a.shape != m_own.shape or not numpy.array_equal(gm, numpy.ma.getmaskarray(m_own)) or not numpy.array_equal(
                            got_a.compressed(), m_own.compressed()):
                        ctx.report('property', f'a user supplied masked array does not reach the collection as given: mask '
                                   f'{gm.tolist()} values {numpy.ma.getdata(got_a).tolist()}; supplied mask '
                                   f'{numpy.ma.getmaskarray(m_own).tolist()}', case)
            r = attempt(lambda: ems.make_poly_collection('scalar', clim=(0, 1)))
            ctx.count('override:clim')
            if r[0] != 'ok' or tuple(r[1].get_clim()) != (0, 1):
                ctx.report('property', 'user supplied clim not used as given', case)
            r = attempt(lambda: ems.make_poly_collection('scalar', array=own))
            ctx.count('override:both_refused')
            if r[0] == 'ok':
                ctx.report('property', 'both data_array and array accepted', case)
            # a user supplied transform is used as given, for patches and for arrows
            t = axes.transData
            r = attempt(lambda: ems.make_poly_collection('scalar', transform=t))
            ctx.count('override:transform')
            def transform_of(artist):
                # (an artist left with a coordinate system instead of the transform given, and no axes, cannot resolve it)
                try:
                    return artist.get_transform()
                except Exception:
                    return None
            if r[0] != 'ok' or transform_of(r[1]) is not t:
                ctx.report('property', 'user supplied transform not used by make_poly_collection', case)
            r = attempt(lambda: ems.make_quiver(axes, transform=t))
            # (matplotlib's Quiver keeps the transform of its positions in .transform)
            if r[0] != 'ok' or r[1].transform is not t:
                ctx.report('property', 'user supplied transform not used by make_quiver: the arrows are placed in another '
                           'coordinate system than the patches', case)
            # a leftover dimension is refused
            ds['stacked'] = ds['scalar'].expand_dims(layer=2)
            if rng.random() < 0.5:
                ds['stacked'] = ds['stacked'].transpose(..., 'layer')
            r = attempt(lambda: ems.make_poly_collection('stacked'))
            ctx.count('leftover_dimension')
            if r[0] == 'ok':
                ctx.report('property', 'a variable with a leftover non-spatial dimension was plotted instead of being refused', case)
            # vector arrows
            u = xarray.DataArray((numpy.arange(ncell, dtype='f8') + 2000).reshape(shape), dims=list(gdims))
            v = xarray.DataArray((numpy.arange(ncell, dtype='f8') + 3000).reshape(shape), dims=list(gdims))
            if len(gdims) == 2 and rng.random() < 0.5:
                u, v = u.transpose(), v.transpose()
            ds['u'], ds['v'] = u, v
            uv_how = rng.choice(['name', 'array'])
            r = attempt(lambda: ems.make_quiver(axes, 'u', 'v') if uv_how == 'name' else ems.make_quiver(axes, ds['u'], ds['v']))
        ctx.case((label, 'quiver', uv_how), holes > 0)
        ctx.count('quiver')
        if r[0] != 'ok':
            ctx.report('property', f'make_quiver failed: {r[1]}', case)
            continue
        q = r[1]
        X, Y, U, V = (numpy.asarray(a, dtype='f8') for a in (q.X, q.Y, q.U, q.V))
        badq = None
        if not (len(X) == len(U) == len(V) == ncell):
            badq = f'{len(X)} arrows, {len(U)} components for {ncell} cells'
        else:
            for k in range(ncell):
                cx, cy = centres[k]
                same_pos = (X[k] == cx or (X[k] != X[k] and cx != cx)) and (Y[k] == cy or (Y[k] != Y[k] and cy != cy))
                if not same_pos or U[k] != 2000 + k or V[k] != 3000 + k:
                    badq = f'arrow {k}: at ({X[k]}, {Y[k]}) with ({U[k]}, {V[k]}); cell {k} is at ({cx}, {cy}) with ({2000 + k}, {3000 + k})'
                    break
        if badq:
            ctx.report('property', badq, case)
            continue
        # vector components with a leftover non-spatial dimension are refused too (given by name or as arrays)
        with warnings.catch_warnings():
            warnings.simplefilter('ignore')
            ds['u_t'], ds['v_t'] = ds['u'].expand_dims(record=3), ds['v'].expand_dims(record=3)
            r = attempt(lambda: ems.make_quiver(axes, 'u_t', 'v_t') if uv_how == 'name' else ems.make_quiver(axes, ds['u_t'], ds['v_t']))
        ctx.count('quiver:leftover_dimension')
        if r[0] == 'ok':
            ctx.report('property', 'vector components with a leftover non-spatial dimension were drawn instead of being refused', case)
            continue
        # ---- the figure-level helpers build the same artists: plot_on_figure for one field, animate_on_figure for a series
        if n % 2 == 0:
            figure_level(ctx, rng, d, ds, ems, polys, centres, gdims, shape, dict(case))
    other_grid_leg(ctx, axes)
    arguments_leg(ctx, axes)
    plt.close(fig)
    model = coq_eval_sharded(['Model.Export'], exprs, shard=6, workers=12)
    ctx.leg('collections', len(exprs))
    for (case, impl), mres in zip(plans, model):
        if impl != mres:
            ctx.report('correspondence', f'model Export.poly_collection / clim {mres} vs implementation {impl}', case, found_input=False)
