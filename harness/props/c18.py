"""C18 - transects cover exactly the part of the path inside the model, in path order."""
import sys
import types
import warnings
from fractions import Fraction

import numpy
import shapely
import xarray

# the system library behind cfunits (udunits2) is absent here: a stand-in with the one method transect.py uses
if 'cfunits' not in sys.modules:
    _m = types.ModuleType('cfunits')

    class _Units:
        def __init__(self, u):
            self.u = u

        def formatted(self):
            return str(self.u)
    _m.Units = _Units
    sys.modules['cfunits'] = _m

import emsarray  # noqa: F401,E402
from emsarray import transect as transect_mod  # noqa: E402
from coqio import coq_eval_sharded, to_coq  # noqa: E402
import gen  # noqa: E402
import polymodel as pm  # noqa: E402
from hutil import attempt  # noqa: E402

F = Fraction


def cartopy_standin():
    """In this sandbox PROJ (9.8) evaluates the equirectangular projection on the ellipsoid, which cartopy's PlateCarree
    (0.25) does not expect: a PlateCarree latitude is read as a meridional arc length, so an azimuthal equidistant projection
    maps its own centre about 734 m per degree of latitude away from (0, 0) and every metre distance emsarray derives from
    cartopy is wrong away from the equator.  That is a fault of the installed cartopy / PROJ pair, not of emsarray.  When (and
    only when) the fault is present, points are projected from the geodetic form of the same CRS instead, which is what
    PlateCarree means; nothing in emsarray is replaced.  Returns whether the stand-in was installed."""
    import math
    from cartopy import crs
    c = crs.AzimuthalEquidistant(central_longitude=7, central_latitude=60)
    o = c.project_geometry(shapely.Point(7, 60), crs.PlateCarree())
    if math.hypot(o.x, o.y) < 1e-3:
        return False
    if getattr(crs.Projection.project_geometry, '_verif_standin', False):
        return True
    orig = crs.Projection.project_geometry

    def project_geometry(self, geometry, src_crs=None):
        if (isinstance(src_crs, crs.PlateCarree) and isinstance(self, crs.AzimuthalEquidistant)
                and geometry.geom_type == 'Point' and not src_crs.proj4_params.get('lon_0')):
            x, y = self.transform_point(geometry.x, geometry.y, src_crs.as_geodetic())
            return shapely.Point(x, y)
        return orig(self, geometry, src_crs)
    project_geometry._verif_standin = True
    crs.Projection.project_geometry = project_geometry
    # the same for the array forms (a rewrite of the distance computation may use them)
    orig_pts = crs.CRS.transform_points
    orig_pt = crs.CRS.transform_point

    def _fix(self, src_crs):
        return (isinstance(src_crs, crs.PlateCarree) and isinstance(self, crs.AzimuthalEquidistant)
                and not src_crs.proj4_params.get('lon_0'))

    def transform_points(self, src_crs, x, y, z=None, trap=False):
        return orig_pts(self, src_crs.as_geodetic() if _fix(self, src_crs) else src_crs, x, y, z, trap)

    def transform_point(self, x, y, src_crs, trap=True):
        return orig_pt(self, x, y, src_crs.as_geodetic() if _fix(self, src_crs) else src_crs, trap)
    crs.CRS.transform_points = transform_points
    crs.CRS.transform_point = transform_point
    return True


def path_distances(pts):
    """cumulative distance in metres at each vertex of the path: geodesic length of each leg on the WGS84 ellipsoid, which
    is what an azimuthal equidistant projection centred on the leg's first vertex measures"""
    import pyproj
    g = pyproj.Geod(ellps='WGS84')
    cum = [0.0]
    for a, b in zip(pts, pts[1:]):
        cum.append(cum[-1] + g.inv(a[0], a[1], b[0], b[1])[2])
    return g, cum


def distance_at(g, cum, pts, path, pos):
    """metres along the path of the exact position pos: the accumulated legs before it plus the distance from the vertex
    that precedes it"""
    if pos == int(pos):
        return cum[int(pos)]
    leg = int(pos)
    x, y = point_at(path, pos)
    return cum[leg] + g.inv(pts[leg][0], pts[leg][1], x, y)[2]


def fpt(p):
    return (F(float(p[0])), F(float(p[1])))


def orient(o, a, b):
    v = (a[0] - o[0]) * (b[1] - o[1]) - (a[1] - o[1]) * (b[0] - o[0])
    return (v > 0) - (v < 0)


def on_seg(a, b, p):
    return (orient(a, b, p) == 0 and min(a[0], b[0]) <= p[0] <= max(a[0], b[0]) and min(a[1], b[1]) <= p[1] <= max(a[1], b[1]))


def in_closed_ring(ring, p):
    n = len(ring)
    for k in range(n):
        if on_seg(ring[k], ring[(k + 1) % n], p):
            return True
    inside = False
    for k in range(n):
        a, b = ring[k], ring[(k + 1) % n]
        if (a[1] > p[1]) != (b[1] > p[1]):
            # x of the crossing of the horizontal line through p
            x = a[0] + (p[1] - a[1]) * (b[0] - a[0]) / (b[1] - a[1])
            if x > p[0]:
                inside = not inside
    return inside


def leg_params(P, Q, ring):
    """parameters t in [0, 1] where the leg P->Q meets an edge of the ring (exact)"""
    ts = {F(0), F(1)}
    d = (Q[0] - P[0], Q[1] - P[1])
    n = len(ring)
    for k in range(n):
        a, b = ring[k], ring[(k + 1) % n]
        e = (b[0] - a[0], b[1] - a[1])
        den = d[0] * e[1] - d[1] * e[0]
        if den != 0:
            t = ((a[0] - P[0]) * e[1] - (a[1] - P[1]) * e[0]) / den
            u = ((a[0] - P[0]) * d[1] - (a[1] - P[1]) * d[0]) / den
            if 0 <= t <= 1 and 0 <= u <= 1:
                ts.add(t)
        else:
            # parallel: if collinear, the ends of the edge projected on the leg
            if orient(P, Q, a) == 0:
                dd = d[0] * d[0] + d[1] * d[1]
                for v in (a, b):
                    t = ((v[0] - P[0]) * d[0] + (v[1] - P[1]) * d[1]) / dd
                    if 0 <= t <= 1:
                        ts.add(t)
    return sorted(ts)


def oracle_pieces(path, rings):
    """[(cell, start, end)] with exact positions along the path (leg number + parameter): maximal runs of the path
    inside the closed cell, points ignored"""
    out = []
    all_breaks = {F(k) for k in range(len(path))}
    for cell, ring in enumerate(rings):
        if ring is None:
            continue
        runs = []
        for leg in range(len(path) - 1):
            P, Q = path[leg], path[leg + 1]
            ts = leg_params(P, Q, ring)
            all_breaks |= {leg + t for t in ts}
            for t0, t1 in zip(ts, ts[1:]):
                mid = (P[0] + (Q[0] - P[0]) * (t0 + t1) / 2, P[1] + (Q[1] - P[1]) * (t0 + t1) / 2)
                if in_closed_ring(ring, mid):
                    runs.append([leg + t0, leg + t1])
        merged = []
        for r in runs:
            # runs are merged within a leg only: the implementation may or may not split a piece at a bend of the path,
            # so everything is compared in elementary pieces that end at the path's vertices
            if merged and merged[-1][1] == r[0] and int(r[0]) != r[0]:
                merged[-1][1] = r[1]
            else:
                merged.append(list(r))
        out += [(cell, a, b) for a, b in merged if b > a]
    return out, sorted(all_breaks)


def union(intervals):
    out = []
    for a, b in sorted(intervals):
        if out and a <= out[-1][1]:
            out[-1][1] = max(out[-1][1], b)
        else:
            out.append([a, b])
    return [tuple(x) for x in out]


def exact_position(path, breaks, xy):
    """the exact position along the path of a coordinate the implementation reports (nearest known break point)"""
    best = None
    for s in breaks:
        p = point_at(path, s)
        dist = abs(p[0] - xy[0]) + abs(p[1] - xy[1])
        if best is None or dist < best[0]:
            best = (dist, s)
    return best


def point_at(path, s):
    leg = min(int(s), len(path) - 2)
    t = s - leg
    P, Q = path[leg], path[leg + 1]
    return (float(P[0] + (Q[0] - P[0]) * t), float(P[1] + (Q[1] - P[1]) * t))


def make_paths(rng, polys, n):
    rings = [p for p in polys if p is not None]
    xs = [x for r in rings for x, y in r]
    ys = [y for r in rings for x, y in r]
    x0, x1, y0, y1 = min(xs), max(xs), min(ys), max(ys)

    def inside():
        r = rng.choice(rings)
        c = shapely.Polygon(r).representative_point()
        return (round(c.x * 64) / 64, round(c.y * 64) / 64)

    def outside():
        return rng.choice([(x0 - 1.0, rng.choice(ys)), (x1 + 1.0, rng.choice(ys)), (rng.choice(xs), y0 - 1.0), (rng.choice(xs), y1 + 1.0)])
    out = []
    for _ in range(n):
        kind = rng.choice(['across', 'across', 'inside_to_inside', 'in_out', 'bend', 'along_edge', 'along_edge_reversed', 'vertex', 'miss',
                           'close_vertices'])
        if _ == 0:
            kind = 'close_vertices'
        if kind == 'close_vertices':
            # a track digitised finely: two vertices 1/64 and then 3/64 of a degree after the first, before the long legs
            a = inside()
            b = outside()
            ux, uy = (b[0] - a[0]), (b[1] - a[1])
            nrm = (ux * ux + uy * uy) ** 0.5 or 1.0
            ux, uy = ux / nrm, uy / nrm
            pts = [a, (a[0] + ux / 64, a[1] + uy / 64), (a[0] + 3 * ux / 64 - uy / 128, a[1] + 3 * uy / 64 + ux / 128), b, outside()]
        elif kind == 'across':
            pts = [outside(), outside()]
        elif kind == 'inside_to_inside':
            pts = [inside(), inside()]
        elif kind == 'in_out':
            pts = [inside(), outside()] if rng.random() < 0.5 else [outside(), inside()]
        elif kind == 'bend':
            pts = [outside(), inside(), outside(), inside()][:rng.randint(3, 4)]
        elif kind in ('along_edge', 'along_edge_reversed'):
            r = rng.choice(rings)
            k = rng.randrange(len(r))
            a, b = r[k], r[(k + 1) % len(r)]
            if kind == 'along_edge_reversed':
                a, b = b, a
            # start before the edge, run along it, leave after it (extended along the same line)
            pts = [(a[0] - (b[0] - a[0]), a[1] - (b[1] - a[1])), (b[0] + (b[0] - a[0]), b[1] + (b[1] - a[1]))]
            if rng.random() < 0.5:
                pts = [a, b]
        elif kind == 'vertex':
            r = rng.choice(rings)
            pts = [outside(), r[rng.randrange(len(r))], outside()]
        else:
            pts = [(x1 + 2.0, y1 + 2.0), (x1 + 3.0, y1 + 2.5)]
        pts = [(float(x), float(y)) for x, y in pts]
        # simple paths only: on a path that retraces or crosses itself a coordinate does not determine a position along it
        if len(set(pts)) == len(pts) and shapely.LineString(pts).is_simple:
            out.append((kind, pts))
    return out


def shift_latitudes(ds, dy):
    """The same dataset moved north by dy degrees: every latitude variable and its bounds."""
    lat = [n for n, v in ds.variables.items() if v.dtype.kind == 'f' and (
        v.attrs.get('units') == 'degrees_north' or v.attrs.get('standard_name') == 'latitude' or v.attrs.get('axis') == 'Y')]
    lat += [ds[n].attrs['bounds'] for n in lat if ds[n].attrs.get('bounds') in ds.variables]
    if not lat or max(float(numpy.nanmax(ds[n].values)) for n in lat) + dy > 85:
        return ds
    out = ds.copy(deep=True)
    for n in lat:
        v = ds[n]
        new = xarray.Variable(v.dims, v.values + dy, v.attrs, v.encoding)
        out = out.assign_coords({n: new}) if n in ds.coords else out.assign({n: new})
    return out


def section_figure(ctx, t, ds, segs, td, flat_vals, ncell):
    import matplotlib
    matplotlib.use('Agg')
    import matplotlib.pyplot as plt
    from matplotlib.collections import PolyCollection
    field = ds['field']
    extra = [x for x in field.dims if x == 'tt']
    f2 = field.isel({x: 1 for x in extra}) if extra else field
    vals = flat_vals[1] if extra else flat_vals            # (k, cell)
    fig = plt.figure()
    try:
        ctx.count('section figure')
        with warnings.catch_warnings():
            warnings.simplefilter('ignore')
            r = attempt(lambda: t.plot_on_figure(fig, f2))
        if r[0] != 'ok':
            return f'Transect.plot_on_figure failed: {r[1]}'
        pcs = [c for a in fig.axes for c in a.collections if isinstance(c, PolyCollection)]
        nk = td['depth'].size
        main = [c for c in pcs if len(c.get_paths()) == nk * len(segs)]
        if not main:
            return f'the section holds no collection of {nk} x {len(segs)} patches'
        pc = main[0]
        arr = numpy.asarray(pc.get_array(), dtype='f8').reshape(-1)
        if len(arr) != nk * len(segs):
            return f'{len(arr)} values for {nk * len(segs)} patches'
        dist = [(float(s1.start_distance), float(s1.end_distance)) for s1 in segs]
        dbounds = [tuple(sorted(float(x) for x in row)) for row in td['depth_bounds'].values]
        for i, path in enumerate(pc.get_paths()):
            xs = sorted({float(x) for x, y in path.vertices[:4]})
            ys = sorted({float(y) for x, y in path.vertices[:4]})
            xr = (xs[0], xs[-1])
            yr = (ys[0], ys[-1])
            cand_seg = [j for j, dd in enumerate(dist) if (min(dd), max(dd)) == xr]
            cand_k = [k for k, bb in enumerate(dbounds) if bb == yr]
            if not cand_seg or not cand_k:
                return f'patch {i} spans distances {xr} and depths {yr}: not a piece of the path x a layer of the depth axis'
            ok = False
            for j in cand_seg:
                for k in cand_k:
                    w = vals[k, int(segs[j].linear_index)]
                    if arr[i] == w or (arr[i] != arr[i] and w != w):
                        ok = True
            if not ok:
                j, k = cand_seg[0], cand_k[0]
                return (f'patch {i} (piece {j} in cell {int(segs[j].linear_index)}, layer {k}) is coloured with {arr[i]}, that cell '
                        f'holds {vals[k, int(segs[j].linear_index)]} in that layer')
        return None
    finally:
        plt.close(fig)


def run(ctx):
    rng = ctx.rng
    quick = ctx.tier == 'quick'
    ctx.rule = ('grids and meshes with holes x polylines of 2-4 vertices: across the model, starting / ending inside or outside, '
                'with bends (leaving and re-entering), along a cell edge in either direction, through a vertex, missing the model. '
                'An exact rational oracle clips every leg against every cell; pieces are compared with the implementation (1e-9 '
                'degrees), ordering with the model. non-trivial = at least two pieces; distinct by dataset and path')
    n_ds = 20 if quick else 100
    ctx.count(f'environment:cartopy PlateCarree stand-in {"installed" if cartopy_standin() else "not needed"}')
    exprs, plans = [], []
    pick_exprs, pick_plans = [], []
    for n in range(n_ds + 1):
        fam = gen.FAMILIES[n % len(gen.FAMILIES)]
        kw = {'invalid': False} if fam != 'cf1d' else {}
        long_model = n == n_ds
        if long_model:
            # a model 330 cells long: a path that runs its whole length and ends a few metres inside its last cell
            fam, kw = 'cf1d', dict(ny=3, nx=330, bounds=True)
        d = gen.any_dataset(rng, fam, **kw)
        nm1, _ = gen.DEPTH_NAMES.get(d.family, (None, None))
        ds, sp = gen.add_depth(rng, d.ds, dim='k', name=nm1, positive='attr', second=False)
        depth_name = sp['coords'][0]['name']
        ds[depth_name].attrs.setdefault('units', 'm')         # the section's axes are labelled with the units of the depth coordinate
        ds[depth_name].attrs.setdefault('long_name', 'depth')
        # a third of the datasets sit at high latitude, where a degree of longitude is half a degree of latitude
        shift = rng.choice([0.0, 0.0, 56.0]) if not long_model else 0.0
        if shift:
            ds = shift_latitudes(ds, shift)
        gdims = d.spec['kinds']['face']
        shape = [ds.sizes[g] for g in gdims]
        ncell = int(numpy.prod(shape))
        dims = ['k'] + list(gdims)
        extra = rng.random() < 0.5
        if extra:
            dims = ['tt'] + dims
        rng.shuffle(dims)
        full_shape = [sp['n'] if x == 'k' else 2 if x == 'tt' else ds.sizes[x] for x in dims]
        ds['field'] = xarray.DataArray(numpy.arange(int(numpy.prod(full_shape)), dtype='f8').reshape(full_shape) + 1, dims=dims,
                                       attrs={'long_name': 'a field', 'units': 'm'})
        with warnings.catch_warnings():
            warnings.simplefilter('ignore')
            polys = pm.impl_polygons(ds.ems)
        if not any(p is not None for p in polys):
            continue
        rings = [None if p is None else [fpt(v) for v in p] for p in polys]
        label = d.spec['label']
        ctx.count(f'family:{d.family}')
        ctx.count(f'latitude shift:{shift}')
        label = f'{label} north={shift}'
        if long_model:
            nx_l = ds.sizes[gdims[1]]
            first = polys[nx_l]                                          # first cell of the middle row
            cy = (min(y for x, y in first) + max(y for x, y in first)) / 2
            x_start = (min(x for x, y in first) + max(x for x, y in first)) / 2
            # the path ends in the last cell of the middle row that lies within 170 degrees of its start: one straight leg more
            # than half way round the globe has no single meaning of "distance from the start" (the great circle turns back)
            near = [k for k in range(nx_l, 2 * nx_l) if all(abs(x - x_start) < 170.0 for x, y in polys[k])]
            last = polys[max(near, key=lambda k: abs(polys[k][0][0] - x_start))]
            xs_last = sorted({x for x, y in last})
            towards = xs_last[0] if abs(xs_last[0] - x_start) < abs(xs_last[-1] - x_start) else xs_last[-1]
            x_end = towards + (2.0 ** -15 if towards > x_start else -2.0 ** -15)       # 3e-5 degrees (a few metres) inside the last cell
            paths = [('long_path_ending_just_inside_a_cell', [(float(x_start), float(cy)), (float(x_end), float(cy))])]
        else:
            paths = make_paths(rng, polys, 5 if quick else 8)
        for kind, pts in paths:
            path = [fpt(p) for p in pts]
            want, breaks = oracle_pieces(path, rings)
            case = {'dataset': label, 'path': pts, 'path_kind': kind}
            ctx.case((label, str(pts)), len(want) >= 2, sample=dict(case, pieces=len(want)) if len(want) >= 2 and len(ctx.samples) < 3 else None)
            ctx.count(f'path:{kind}')
            ctx.count(f'pieces:{min(len(want), 6)}{"+" if len(want) >= 6 else ""}')
            line = shapely.LineString(pts)
            if ctx.evaluations % 3 == 1:
                # a track with a depth / altitude per vertex (LINESTRING Z): the third ordinate plays no part
                line = shapely.LineString([(x, y, 25.0 * (k + 1)) for k, (x, y) in enumerate(pts)])
                ctx.count('path:with a third ordinate')
            with warnings.catch_warnings():
                warnings.simplefilter('ignore')
                r = attempt(lambda: transect_mod.Transect(ds, line, depth=depth_name))
                if r[0] == 'ok':
                    t = r[1]
                    r = attempt(lambda: list(t.segments))
            if r[0] != 'ok':
                ctx.report('property', f'Transect.segments failed: {r[1]}', case)
                continue
            segs = r[1]
            bad = None
            # ---- each piece: inside its cell, names its cell, start <= end; listed by increasing distance
            prev = None
            for s in segs:
                li = int(s.linear_index)
                if not (0 <= li < len(polys)) or polys[li] is None:
                    bad = f'a piece names cell {li}, which has no geometry'
                    break
                cellp = shapely.Polygon(polys[li])
                if not cellp.buffer(1e-9).covers(s.intersection):
                    bad = f'the piece {s.intersection.wkt} does not lie within its cell {li}'
                    break
                if ds.ems.ravel_index(s.index) != li or ds.ems.wind_index(li) != s.index:
                    bad = f'piece with linear index {li} carries native index {s.index}'
                    break
                if not s.start_distance <= s.end_distance:
                    bad = f'start {s.start_distance} after end {s.end_distance}'
                    break
                if prev is not None and (s.start_distance, s.end_distance) < prev:
                    bad = f'pieces not listed by increasing distance: {prev} before {(s.start_distance, s.end_distance)}'
                    break
                prev = (s.start_distance, s.end_distance)
            if bad:
                ctx.report('property', bad, case)
                continue
            # ---- exactly the path inside the model: per cell, the same part of the path as the exact oracle
            # (the implementation may split a piece where the path bends or passes a vertex of the cell)
            model_pieces = []     # (cell, exact position of the first coordinate, of the last coordinate) per piece
            got_cover = {}
            for s in segs:
                cs = [(float(c[0]), float(c[1])) for c in s.intersection.coords]
                li = int(s.linear_index)
                pos = [exact_position(path, breaks, c) for c in cs]
                if any(p[0] > 1e-9 for p in pos):
                    bad = (f'piece {s.intersection.wkt} of cell {li} has a coordinate where the path neither bends nor meets an edge '
                           f'of a cell')
                    break
                model_pieces.append((li, pos[0][1], pos[-1][1]))
                for u, v in zip(pos, pos[1:]):
                    got_cover.setdefault(li, []).append((min(u[1], v[1]), max(u[1], v[1])))
            if bad:
                ctx.report('property', bad, case)
                continue
            want_cover = {}
            for c, a, b in want:
                want_cover.setdefault(c, []).append((a, b))
            got_u = {c: union(v) for c, v in got_cover.items()}
            want_u = {c: union(v) for c, v in want_cover.items()}
            if got_u != want_u:
                diff = sorted(c for c in set(got_u) | set(want_u) if got_u.get(c) != want_u.get(c))
                c0 = diff[0]
                show = lambda iv: [(point_at(path, a), point_at(path, b)) for a, b in (iv or [])]     # noqa: E731
                ctx.report('property', f'cell {c0}: the pieces cover {show(got_u.get(c0))} of the path, the part of the path inside '
                           f'that cell is {show(want_u.get(c0))} (cells differing: {diff})', case)
                continue
            # ---- lengths add up: pieces that meet at the same point of the path share their distance there
            for (c1, a1, b1), s1 in zip(model_pieces, segs):
                for (c2, a2, b2), s2 in zip(model_pieces, segs):
                    if max(a1, b1) == min(a2, b2) and abs(s1.end_distance - s2.start_distance) > 1e-3:
                        bad = (f'pieces meeting at the same point of the path have distances {s1.end_distance} and {s2.start_distance}: '
                               f'the lengths do not add up')
                    if min(a1, b1) < min(a2, b2) and s1.start_distance > s2.start_distance + 1e-6:
                        bad = (f'a piece further along the path has a smaller start distance: cell {c1} at {float(min(a1, b1))} starts at '
                               f'{s1.start_distance}, cell {c2} at {float(min(a2, b2))} starts at {s2.start_distance}')
            if bad:
                ctx.report('property', bad, case)
                continue
            # ---- distances in metres: accumulated per path vertex, so that piece lengths add up to the length of the path
            # inside the model
            g, cum = path_distances(pts)
            for (c1, a1, b1), s1 in zip(model_pieces, segs):
                lo, hi = min(a1, b1), max(a1, b1)
                for what, got, pos in (('start', s1.start_distance, lo), ('end', s1.end_distance, hi)):
                    want_d = distance_at(g, cum, pts, path, pos)
                    if abs(got - want_d) > 1e-6 * want_d + 1e-2:
                        bad = (f'piece of cell {c1}: {what} distance {got!r} m, the path reaches that point after '
                               f'{want_d!r} m (legs measured from each vertex and accumulated)')
                        break
                if bad:
                    break
            if bad:
                ctx.report('property', bad, case)
                continue
            # ---- which vertex each end of a piece is measured from: the model's pick on the vertices' normalised positions
            # (exact rationals of the floats shapely returns), then vertex distance + distance from that vertex
            with warnings.catch_warnings():
                warnings.simplefilter('ignore')
                tpts = attempt(lambda: [(float(p.distance_normalised), float(p.distance_metres)) for p in t.points])
            if tpts[0] == 'ok' and len(tpts[1]) == len(pts):
                want_norm = [float(line.project(shapely.Point(p), normalized=True)) for p in pts]
                if [a for a, _ in tpts[1]] != want_norm:
                    ctx.report('correspondence', f'the vertices carry normalised positions {[a for a, _ in tpts[1]]}, their positions '
                               f'along the line are {want_norm}', case, found_input=False)
                    continue
                fq = lambda x: (Fraction(x).numerator, Fraction(x).denominator)     # noqa: E731
                nlit = '[' + '; '.join(f'(({a})%Z, ({b})%Z)' for a, b in map(fq, want_norm)) + ']'
                for s1 in segs[:6]:
                    for what, ptn, got in (('start', s1.start_point, s1.start_distance), ('end', s1.end_point, s1.end_distance)):
                        tq = float(line.project(ptn, normalized=True))
                        a, b = fq(tq)
                        pick_exprs.append(f'(pick_index {nlit} (({a})%Z, ({b})%Z))')
                        pick_plans.append((case, what, (float(ptn.x), float(ptn.y)), got, tpts[1], pts))
            # ---- the transect dataset: one row per piece, in the same order, with that piece's cell and distances; the depth
            # axis and its bounds as the dataset has them
            with warnings.catch_warnings():
                warnings.simplefilter('ignore')
                r = attempt(lambda: t.transect_dataset)
            if r[0] != 'ok':
                ctx.report('property', f'transect_dataset failed: {r[1]}', case)
                continue
            td = r[1]
            tbad = None
            if [int(x) for x in td['linear_index'].values] != [int(s1.linear_index) for s1 in segs]:
                tbad = (f'transect_dataset lists the cells {[int(x) for x in td["linear_index"].values]}, the pieces are in cells '
                        f'{[int(s1.linear_index) for s1 in segs]}')
            elif td['distance_bounds'].shape != (len(segs), 2) or any(
                    tuple(float(x) for x in row) != (float(s1.start_distance), float(s1.end_distance))
                    for row, s1 in zip(td['distance_bounds'].values, segs)):
                tbad = 'transect_dataset distance bounds are not the (start, end) distances of the pieces, in order'
            elif not numpy.array_equal(td['depth'].values, ds[depth_name].values):
                tbad = 'transect_dataset depth axis differs from the depth coordinate of the dataset'
            elif td['depth_bounds'].shape != (ds[depth_name].size, 2):
                tbad = f'transect_dataset depth bounds have shape {td["depth_bounds"].shape}'
            else:
                bname = ds[depth_name].attrs.get('bounds')
                dv = numpy.asarray(ds[depth_name].values, dtype='f8')
                if bname in ds.variables:
                    wantb = numpy.asarray(ds[bname].values, dtype='f8')
                else:
                    mid = numpy.concatenate([[dv[0]], (dv[1:] + dv[:-1]) / 2, [dv[-1]]])
                    wantb = numpy.column_stack((mid[:-1], mid[1:]))
                if not numpy.array_equal(numpy.asarray(td['depth_bounds'].values, dtype='f8'), wantb):
                    tbad = (f'transect_dataset depth bounds {td["depth_bounds"].values.tolist()} are not those of the depth '
                            f'coordinate ({wantb.tolist()})')
            ctx.count('transect_dataset')
            if tbad:
                ctx.report('property', tbad, case)
                continue
            # ---- the data prepared for plotting
            with warnings.catch_warnings():
                warnings.simplefilter('ignore')
                r = attempt(lambda: t.prepare_data_array_for_transect(ds['field']))
            if r[0] != 'ok':
                ctx.report('property', f'prepare_data_array_for_transect failed: {r[1]}', case)
                continue
            prep = r[1]
            lin = [int(s.linear_index) for s in segs]
            flat = ds['field'].transpose(*([x for x in ds['field'].dims if x not in gdims and x != 'k'] + ['k'] + list(gdims)))
            flat_vals = flat.values.reshape(flat.shape[:-len(gdims)] + (ncell,))
            want_vals = flat_vals[..., lin]
            if list(prep.dims[-2:-1]) != ['k'] or prep.shape != want_vals.shape or not numpy.array_equal(prep.values, want_vals):
                ctx.report('property', f'the prepared data (dims {prep.dims}) does not hold, for each piece, the values of that '
                           f"piece's cell at every depth", case)
                continue
            # ---- a variable without the depth dimension has no values per depth: it is refused, or handed back with the depth
            # dimension; and a depth coordinate asked for by name is the one the transect uses
            if ctx.evaluations % 3 == 0:
                with warnings.catch_warnings():
                    warnings.simplefilter('ignore')
                    r = attempt(lambda: t.prepare_data_array_for_transect(ds['field'].isel(k=0, drop=True)))
                ctx.count('variable without the depth dimension')
                if r[0] == 'ok' and 'k' not in r[1].dims:
                    ctx.report('property', f'a variable without the depth dimension was prepared for the section (dims {r[1].dims}): it '
                               f'holds no value per depth', case)
                    continue
                alt = ds.assign_coords(kw_centre=xarray.DataArray(numpy.arange(sp['n'] + 1, dtype='f8') * 2.0 + 0.5, dims=['kw'],
                                                                  attrs={'positive': 'down', 'units': 'm', 'long_name': 'depth'}))
                nbad = None
                for nm_ in (depth_name, 'kw_centre'):
                    with warnings.catch_warnings():
                        warnings.simplefilter('ignore')
                        r = attempt(lambda: transect_mod.Transect(alt, line, depth=nm_).transect_dataset)
                    if r[0] != 'ok':
                        nbad = f'Transect(depth={nm_!r}) failed: {r[1]}'
                    elif not numpy.array_equal(r[1]['depth'].values, alt[nm_].values):
                        nbad = (f'Transect(depth={nm_!r}) uses the depth axis {r[1]["depth"].values.tolist()}, the coordinate named holds '
                                f'{alt[nm_].values.tolist()}')
                    if nbad:
                        break
                ctx.count('depth coordinate given by name')
                if nbad:
                    ctx.report('property', nbad, case)
                    continue
            # ---- the section drawn from it: every patch spans one piece's distances and one layer's depth bounds and is coloured
            # with the value of that piece's cell in that layer
            if ctx.evaluations % 2 == 0 and segs:
                fbad = section_figure(ctx, t, ds, segs, td, flat_vals, ncell)
                if fbad:
                    ctx.report('property', fbad, dict(case, through='Transect.plot_on_figure'))
                    continue
            # ---- ordering against the model (exact positions along the path)
            lit = '[' + '; '.join(f'(({c})%Z, (({a.numerator})%Z, {a.denominator}%Z), (({b.numerator})%Z, {b.denominator}%Z))'
                                   for c, a, b in model_pieces) + ']'
            exprs.append(f'(show_segments {lit})')
            plans.append((case, [(c, min(a, b), max(a, b)) for c, a, b in model_pieces], lin))
    # ---- one path laid over two models, one after the other (a 3 x 5 grid, then the same grid extended to 3 x 10): the pieces of
    # the second transect are the cells of the second model that the path crosses
    base_lon = [float(v) for v in range(10)]
    both = []
    for nx_ in (5, 10):
        g_ = xarray.Dataset(coords={'lat': ('lat', [0.0, 1.0, 2.0], {'units': 'degrees_north'}),
                                    'lon': ('lon', base_lon[:nx_], {'units': 'degrees_east'}),
                                    'zc': ('k', [0.5, 1.5], {'positive': 'down', 'units': 'm', 'long_name': 'depth', 'axis': 'Z'})})
        g_['field'] = (('k', 'lat', 'lon'), numpy.arange(2 * 3 * nx_, dtype='f8').reshape(2, 3, nx_))
        both.append(g_)
    same_line = shapely.LineString([(-0.25, 0.9), (9.25, 1.1)])
    got_cells = []
    for g_ in both:
        with warnings.catch_warnings():
            warnings.simplefilter('ignore')
            r_ = attempt(lambda: [int(s_.linear_index) for s_ in transect_mod.Transect(g_, same_line, depth='zc').segments])
        got_cells.append(r_)
    ctx.case(('same path', 'two models'), True)
    ctx.count('the same path over two models')
    want_second = sorted({int(k_) for k_, p_ in enumerate(both[1].ems.polygons) if p_ is not None and p_.intersection(same_line).length > 0})
    if got_cells[1][0] != 'ok' or sorted(set(got_cells[1][1])) != want_second:
        ctx.report('property', f'the same path laid over a second, larger model after a first one: pieces in cells {got_cells[1][1]}, the path '
                   f'crosses the cells {want_second} of that model', {'dataset': 'cf1d 3x10 after cf1d 3x5', 'path': [list(c_) for c_ in same_line.coords]})
    picks = coq_eval_sharded(['Model.TransectDist'], pick_exprs, shard=max(20, len(pick_exprs) // 12), workers=12)
    ctx.leg('vertex_picks', len(pick_exprs))
    import pyproj
    geod = pyproj.Geod(ellps='WGS84')
    for (case, what, xy, got, tp, pts), k in zip(pick_plans, picks):
        if k is None:
            ctx.report('correspondence', f'model: no vertex lies at or before the {what} point {xy}', case, found_input=False)
            continue
        k = int(k.v)
        want_d = tp[k][1] + geod.inv(pts[k][0], pts[k][1], xy[0], xy[1])[2]
        if abs(got - want_d) > 1e-6 * want_d + 1e-2:
            ctx.report('correspondence', f'{what} point {xy}: the model measures it from vertex {k} ({want_d!r} m), the '
                       f'implementation reports {got!r} m', case, found_input=False)
    model = coq_eval_sharded(['Model.Transect'], exprs, shard=max(10, len(exprs) // 12), workers=12)
    ctx.leg('orderings', len(exprs))
    for (case, want, lin), mres in zip(plans, model):
        # pieces with identical (start, end) - a path along an edge shared by two cells - may come in either order
        keyed = sorted(want, key=lambda w: (w[1], w[2]))
        groups = []
        for w in keyed:
            if groups and groups[-1][0] == (w[1], w[2]):
                groups[-1][1].append(w[0])
            else:
                groups.append(((w[1], w[2]), [w[0]]))
        def canon(seq):     # noqa: E306
            out, pos = [], 0
            for _, cells in groups:
                out.append(sorted(seq[pos:pos + len(cells)]))
                pos += len(cells)
            return out
        if len(mres) != len(lin) or canon(list(mres)) != canon(lin):
            ctx.report('correspondence', f'model Transect.segments lists the cells {mres}, the implementation {lin}', case, found_input=False)
